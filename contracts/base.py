"""Shared sidecar definitions: schema of heap fields, class hierarchy, world factory."""
from __future__ import annotations

import z3

from pyvc import extract, pybuiltins
from pyvc.contracts import Case, Contract, LoopSpec, World
from pyvc.core import ANY, BOOL, BYTES, FLOAT, INT, MAP, NONE, OPT, REF, SEQ, SETT, STR, TUP, Schema

GB = "execnet.gateway_base"
GW = "execnet.gateway"
GIO = "execnet.gateway_io"
GSOCK = "execnet.gateway_socket"
MULTI = "execnet.multi"
XSPEC = "execnet.xspec"
RSYNC = "execnet.rsync"
RSYNCR = "execnet.rsync_remote"
BOOT = "execnet.gateway_bootstrap"

REPO_MODULES = [GB, GW, GIO, GSOCK, MULTI, XSPEC, RSYNC, RSYNCR, BOOT]


def new_world() -> World:
    schema = Schema()
    schema.declare("object", "$alloc", BOOL, ghost=True)
    w = World(schema)
    w.externals.update(pybuiltins.EXTERNALS)
    w.axiom_providers.extend(pybuiltins.PROVIDERS)
    # class homes and bases from the real ASTs
    for modname in REPO_MODULES:
        try:
            mod = extract.load(modname)
        except OSError:
            continue
        for cname in mod.classes:
            if "." in cname:
                continue
            w.class_home.setdefault(cname, modname)
            bases = mod.class_bases(cname)
            schema.set_bases(cname, bases + ["object"])
    schema.set_bases("object", [])
    # exception classes that are not plain builtins
    schema.set_bases("struct.error", ["Exception"])
    schema.set_bases("queue.Empty", ["Exception"])
    schema.set_bases("socket.gaierror", ["OSError"])
    schema.set_bases("execnet.TimeoutError", ["OSError"])
    schema.set_bases("TimeoutError", ["OSError"])  # gateway_base.TimeoutError(IOError) shadows the builtin there
    return w


def T(x):
    return z3.BoolVal(True) if x is True else x


def slen(x):
    return z3.Length(x)


def prefix(s, n):
    return z3.SubSeq(s, 0, n)


def suffix(s, n):
    return z3.SubSeq(s, n, z3.Length(s) - n)


def empty_str():
    return z3.StringVal("")


def with_history(w, target, cell, entry, note=""):
    """Replace the contract of `target` in world `w` by a trusted copy whose every outcome also appends entry(a, h) to the ghost sequence cell(a, h) = (cls, ref, field).
    A history variable: pure instrumentation of "this call happened, with these arguments"; the function itself is verified elsewhere against the unextended contract."""
    import copy

    import z3

    real = w.contracts[target]
    c = copy.copy(real)
    c.trusted = True
    c.note = (note or "verified against its own contract elsewhere") + "; here extended by a history variable (the call is recorded)"
    old_mod = real.modifies

    def mod(a, h):
        return list(old_mod(a, h)) + [cell(a, h)]

    c.modifies = mod
    cases = []
    for cs in real.cases:
        c2 = copy.copy(cs)

        def mk(oldf):
            if oldf is None:
                return None

            def post(a, h, h2, r):
                cls, ref, field = cell(a, h)
                return list(oldf(a, h, h2, r)) + [h2(cls, ref, field) == z3.Concat(h(cls, ref, field), z3.Unit(entry(a, h)))]
            return post
        c2.post = mk(cs.post)
        c2.post_assume = mk(cs.post_assume)
        cases.append(c2)
    c.cases = cases
    w.contracts[target] = c
    return c
