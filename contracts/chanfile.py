"""Contracts for ChannelFile* and Channel.makefile (C19); ProxyIO.read/write reuse them (C16)."""
from __future__ import annotations

import z3

from pyvc.contracts import Case, Contract, LoopSpec
from pyvc.core import ANY, BOOL, BYTES, INT, NONE, OPT, REF, SEQ, STR, SV, U

from .base import GB, prefix, slen, suffix

u2str = z3.Function("u2str", U, z3.StringSort())   # the text of an item received on a channel that is read as a file
str2u = z3.Function("str2u", z3.StringSort(), U)
NL = z3.StringVal("\n")


def declare(w, item_kind="str"):
    s = w.schema
    s.declare("ChannelFile", "channel", REF("Channel"))
    s.declare("ChannelFile", "_proxyclose", BOOL)
    s.declare("ChannelFileRead", "_buffer", OPT(STR))
    # file view of a channel (ghost): concatenation of the items still to be received, and how many there are
    # the channel's receive-closed event (set in the closed AND in the send-only state: it says nothing about whether the channel may still send)
    s.declare("Channel", "_receiveclosed", REF("Event"))
    s.declare("Event", "$set", BOOL, ghost=True)
    s.set_bases("Event", ["object"])
    w.add(Contract("model:Event.is_set", {"self": REF("Event")}, cases=[Case("ok", restype=BOOL, post=lambda a, h, h2, r: [r == h("Event", a.self, "$set")])], trusted=True))
    s.declare("Channel", "$rest", STR, ghost=True)
    s.declare("Channel", "$npending", INT, ghost=True)
    s.declare("Channel", "$closecalls", INT, ghost=True)
    s.declare("Channel", "$sent", SEQ(ANY), ghost=True)
    s.declare("Channel", "$sendclosed", BOOL, ghost=True)

    w.call_hooks[("cast", "str")] = lambda ex, v: SV(STR, u2str(v.v))

    def wf(h, ch):
        return z3.And(h("Channel", ch, "$npending") >= 0,
                      z3.Implies(h("Channel", ch, "$npending") == 0, slen(h("Channel", ch, "$rest")) == 0))

    # Channel.receive() as the ghost iterator the statement speaks of (C02/C03 decide it for the real queue):
    # the next item, or EOFError for ever after the last one.
    w.add(Contract(
        f"{GB}:Channel.receive", {"self": REF("Channel"), "timeout": OPT(INT)}, defaults={"timeout": None},
        requires=lambda a, h: [("file-view-wellformed", wf(h, a.self))],
        modifies=lambda a, h: [("Channel", a.self, "$rest"), ("Channel", a.self, "$npending")],
        cases=[
            Case("item", restype=ANY, when=lambda a, h: h("Channel", a.self, "$npending") > 0,
                 post=lambda a, h, h2, r: [h("Channel", a.self, "$rest") == z3.Concat(u2str(r), h2("Channel", a.self, "$rest")),
                                           h2("Channel", a.self, "$npending") == h("Channel", a.self, "$npending") - 1, wf(h2, a.self)]),
            Case("eof", "raise", "EOFError", when=lambda a, h: h("Channel", a.self, "$npending") == 0,
                 post=lambda a, h, h2, e: [h2("Channel", a.self, "$rest") == h("Channel", a.self, "$rest"),
                                           h2("Channel", a.self, "$npending") == 0]),
        ], trusted=True, note="file view of Channel.receive: items in order then EOFError repeatedly (decided by C02/C03); RemoteError not modelled here"))
    w.add(Contract(
        f"{GB}:Channel.close", {"self": REF("Channel"), "error": OPT(STR)}, defaults={"error": None},
        modifies=lambda a, h: [("Channel", a.self, "$closecalls"), ("Channel", a.self, "$sendclosed")],
        cases=[Case("ok", post=lambda a, h, h2, r: [h2("Channel", a.self, "$closecalls") == h("Channel", a.self, "$closecalls") + 1,
                                                    h2("Channel", a.self, "$sendclosed")])],
        trusted=True, note="close() outside remote_exec (C03 decides the real one)"))
    w.add(Contract(
        f"{GB}:Channel.send", {"self": REF("Channel"), "item": ANY},
        modifies=lambda a, h: [("Channel", a.self, "$sent")],
        cases=[Case("ok", when=lambda a, h: z3.Not(h("Channel", a.self, "$sendclosed")),
                    post=lambda a, h, h2, r: [h2("Channel", a.self, "$sent") == z3.Concat(h("Channel", a.self, "$sent"), z3.Unit(a.item))]),
               Case("closed", "raise", "OSError", when=lambda a, h: h("Channel", a.self, "$sendclosed"),
                    post=lambda a, h, h2, e: [h2("Channel", a.self, "$sent") == h("Channel", a.self, "$sent")]),
               Case("io-failed", "raise", "OSError", when=lambda a, h: z3.Not(h("Channel", a.self, "$sendclosed")))],
        trusted=True, note="send as seen by a file: one item appended, OSError once closed (C03/C01 decide the real one)"))

    # ---- ChannelFile.close --------------------------------------------------
    def chan(h, f):
        return h("ChannelFile", f, "channel")

    w.add(Contract(
        f"{GB}:ChannelFile.close", {"self": REF("ChannelFile")},
        requires=lambda a, h: [("has-channel", chan(h, a.self) != 0)],
        modifies=lambda a, h: [("Channel", chan(h, a.self), "$closecalls"), ("Channel", chan(h, a.self), "$sendclosed")],
        cases=[Case("ok", post=lambda a, h, h2, r: [
            h2("Channel", chan(h, a.self), "$closecalls") == h("Channel", chan(h, a.self), "$closecalls")
            + z3.If(h("ChannelFile", a.self, "_proxyclose"), 1, 0)])],
        props=["C19"]))

    # ---- ChannelFileRead.read ------------------------------------------------
    def buf(h, f):
        b = h.sv("ChannelFileRead", f, "_buffer")
        return z3.If(b.v[0], z3.StringVal(""), b.v[1].v)

    def bufnone(h, f):
        return h.sv("ChannelFileRead", f, "_buffer").v[0]

    def view(h, f):
        return z3.Concat(buf(h, f), h("Channel", chan(h, f), "$rest"))

    def eof_hit(a, h):
        ch = chan(h, a.self)
        return z3.Or(z3.And(bufnone(h, a.self), h("Channel", ch, "$npending") == 0), slen(view(h, a.self)) < a.n)

    def read_post(a, h, h2, res):
        ch = chan(h, a.self)
        V = view(h, a.self)
        return [res == prefix(V, a.n), view(h2, a.self) == suffix(V, a.n),
                chan(h2, a.self) == ch, wf(h2, ch),
                h2("ChannelFile", a.self, "_proxyclose") == h("ChannelFile", a.self, "_proxyclose"),
                # once something was buffered it stays a string; nothing buffered and nothing received -> still None
                z3.Implies(z3.Not(bufnone(h, a.self)), z3.Not(bufnone(h2, a.self))),
                h2("Channel", ch, "$closecalls") == h("Channel", ch, "$closecalls")
                + z3.If(z3.And(eof_hit(a, h), h("ChannelFile", a.self, "_proxyclose")), 1, 0)]

    read_mod = lambda a, h: [("ChannelFileRead", a.self, "_buffer"), ("Channel", chan(h, a.self), "$rest"),
                             ("Channel", chan(h, a.self), "$npending"), ("Channel", chan(h, a.self), "$closecalls"),
                             ("Channel", chan(h, a.self), "$sendclosed")]
    w.add(Contract(
        f"{GB}:ChannelFileRead.read", {"self": REF("ChannelFileRead"), "n": INT},
        requires=lambda a, h: [("count-nonnegative", a.n >= 0), ("has-channel", chan(h, a.self) != 0),
                               ("file-view-wellformed", wf(h, chan(h, a.self)))],
        modifies=read_mod, cases=[Case("ok", restype=STR, post=read_post)], props=["C19", "C16"],
        probes=lambda a, h: {"buffer": buf(h, a.self), "rest": h("Channel", chan(h, a.self), "$rest"), "npending": h("Channel", chan(h, a.self), "$npending")}))

    def cur_self(L):
        return L.inp("self")

    w.add_loop(LoopSpec(
        f"{GB}:ChannelFileRead.read", 0,
        invariant=lambda L: [
            ("view-preserved", z3.Concat(buf(L.h, cur_self(L)), L.h("Channel", chan(L.old, cur_self(L)), "$rest")) == view(L.old, cur_self(L))),
            ("buffer-is-set", z3.Not(bufnone(L.h, cur_self(L)))),
            ("wellformed", wf(L.h, chan(L.old, cur_self(L)))),
            ("same-channel", chan(L.h, cur_self(L)) == chan(L.old, cur_self(L))),
            ("params", z3.And(L.n == L.inp("n"), L.self == L.inp("self"))),
        ],
        variant=lambda L: L.h("Channel", chan(L.old, cur_self(L)), "$npending"),
        havoc_cells=lambda L: [("ChannelFileRead", cur_self(L), "_buffer"), ("Channel", chan(L.old, cur_self(L)), "$rest"),
                               ("Channel", chan(L.old, cur_self(L)), "$npending")],
        props=["C19"]))

    # ---- ChannelFileRead.readline ---------------------------------------------
    def readline_post(a, h, h2, res):
        """File semantics of readline, stated without str.find: the result is the shortest prefix of the view that
        ends with a newline, or the whole view if it contains none (no newline before the last character;
        ends with a newline unless the file is exhausted)."""
        ch = chan(h, a.self)
        V = view(h, a.self)
        return [V == z3.Concat(res, view(h2, a.self)),
                z3.Not(z3.Contains(prefix(res, slen(res) - 1), NL)),
                z3.Or(z3.SuffixOf(NL, res), slen(view(h2, a.self)) == 0),
                wf(h2, ch)]

    w.add(Contract(
        f"{GB}:ChannelFileRead.readline", {"self": REF("ChannelFileRead")},
        requires=lambda a, h: [("has-channel", chan(h, a.self) != 0), ("file-view-wellformed", wf(h, chan(h, a.self)))],
        modifies=read_mod, cases=[Case("ok", restype=STR, post=readline_post)], props=["C19"],
        probes=lambda a, h: {"buffer": buf(h, a.self), "rest": h("Channel", chan(h, a.self), "$rest"), "npending": h("Channel", chan(h, a.self), "$npending")}))
    w.add_loop(LoopSpec(
        f"{GB}:ChannelFileRead.readline", 0,
        invariant=lambda L: [
            ("line-plus-view", z3.Concat(L.line, view(L.h, cur_self(L))) == view(L.old, cur_self(L))),
            ("no-inner-newline", z3.Not(z3.Contains(prefix(L.line, slen(L.line) - 1), NL))),
            ("empty-line-only-at-end-of-file", z3.Or(slen(L.line) > 0, slen(view(L.h, cur_self(L))) == 0)),
            ("wellformed", wf(L.h, chan(L.old, cur_self(L)))),
            ("same-channel", z3.And(chan(L.h, cur_self(L)) == chan(L.old, cur_self(L)), L.self == L.inp("self"))),
        ],
        variant=lambda L: slen(view(L.h, cur_self(L))),
        havoc_cells=lambda L: [("ChannelFileRead", cur_self(L), "_buffer"), ("Channel", chan(L.old, cur_self(L)), "$rest"),
                               ("Channel", chan(L.old, cur_self(L)), "$npending"), ("Channel", chan(L.old, cur_self(L)), "$closecalls"),
                               ("Channel", chan(L.old, cur_self(L)), "$sendclosed")],
        props=["C19"]))

    # ---- ChannelFileWrite -------------------------------------------------------
    w.call_hooks[("coerce", "str->any")] = lambda v: SV(ANY, str2u(v.v))
    w.add(Contract(
        f"{GB}:ChannelFileWrite.write", {"self": REF("ChannelFileWrite"), "out": ANY},
        requires=lambda a, h: [("has-channel", chan(h, a.self) != 0)],
        modifies=lambda a, h: [("Channel", chan(h, a.self), "$sent")],
        cases=[Case("ok", when=lambda a, h: z3.Not(h("Channel", chan(h, a.self), "$sendclosed")),
                    post=lambda a, h, h2, r: [h2("Channel", chan(h, a.self), "$sent")
                                              == z3.Concat(h("Channel", chan(h, a.self), "$sent"), z3.Unit(a.out))]),  # each write is exactly one item
               Case("closed", "raise", "OSError", post=lambda a, h, h2, e: [
                   z3.Implies(h("Channel", chan(h, a.self), "$sendclosed"), h2("Channel", chan(h, a.self), "$sent") == h("Channel", chan(h, a.self), "$sent"))])],
        props=["C19", "C16"]))
    w.add(Contract(f"{GB}:ChannelFileWrite.flush", {"self": REF("ChannelFileWrite")}, cases=[Case("ok")], props=["C19"]))

    # ---- Channel.makefile ---------------------------------------------------------
    mode_w, mode_r = z3.StringVal("w"), z3.StringVal("r")
    w.add(Contract(
        f"{GB}:Channel.makefile", {"self": REF("Channel"), "mode": STR, "proxyclose": BOOL}, defaults={"mode": "w", "proxyclose": False},
        cases=[
            Case("file", restype=REF("ChannelFile"), when=lambda a, h: z3.Or(a.mode == mode_w, a.mode == mode_r),
                 post=lambda a, h, h2, r: [r != 0, h2("ChannelFile", r, "channel") == a.self, h2("ChannelFile", r, "_proxyclose") == a.proxyclose,
                                           z3.Implies(a.mode == mode_r, z3.And(h2.sv("ChannelFileRead", r, "_buffer").v[0], ISCLS(h2, r, "ChannelFileRead"))),
                                           z3.Implies(a.mode == mode_w, ISCLS(h2, r, "ChannelFileWrite"))]),
            Case("bad-mode", "raise", "ValueError", when=lambda a, h: z3.Not(z3.Or(a.mode == mode_w, a.mode == mode_r))),
        ], props=["C19"], allocates=True))
    s.declare("object", "$class", INT, ghost=True)
    w.class_ids = dict(getattr(w, "class_ids", {}), **CLASS_IDS)
    return w


CLASS_IDS = {"ChannelFileRead": 1, "ChannelFileWrite": 2}


def ISCLS(h, ref, cls):
    return h("object", ref, "$class") == CLASS_IDS[cls]
