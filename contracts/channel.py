"""Contracts for the channel layer: Channel, ChannelFactory, Message handlers, receiver thread (C02, C03, C04, C07, C10, C18)."""
from __future__ import annotations

import z3

from pyvc import core
from pyvc.contracts import Case, Contract, LoopSpec, Monitor
from pyvc.core import ANY, BOOL, BYTES, FUNCT, INT, MAP, NONE, NONEV, OPT, REF, SEQ, SETT, STR, SV, TUP, ExcV, U, Unsupported, mk_bool, mk_int, mk_str
from pyvc.pybuiltins import I32_MAX, I32_MIN
from pyvc.symexec import ExternD, FuncD, ModuleD

from .base import GB, slen
from .io import frame

ENDM = z3.Const("ENDMARKER", U)               # gateway_base.ENDMARKER
NOEND = z3.Const("NO_ENDMARKER_WANTED", U)    # gateway_base.NO_ENDMARKER_WANTED
decode_item = z3.Function("decode_item", z3.StringSort(), z3.BoolSort(), z3.BoolSort(), U)   # loads_internal(data, strconfig): the item a payload carries
enc_item = z3.Function("enc_item", U, z3.StringSort())     # dumps_internal(item) for a supported item
item_ok = z3.Function("item_ok", U, z3.BoolSort())         # the item is serialisable
err2u = z3.Function("err2u", z3.StringSort(), U)           # an error text as an item
u2err = z3.Function("u2err", U, z3.StringSort())
STRCFG = TUP(BOOL, BOOL)
CBREC = TUP(ANY, ANY, STRCFG)   # (callback, endmarker, strconfig)

# message codes from the statement of the wire protocol (checked against Message.* by static obligations)
M_STATUS, M_RECONFIGURE, M_TERMINATE, M_EXEC, M_DATA, M_CLOSE, M_CLOSE_ERROR, M_LAST = range(8)
EXC_REMOTE, EXC_EOF = 1, 2


def ax_decode(t):
    return [t != ENDM, t != NOEND]


ax_decode.names = ["decode_item"]


def ax_enc_item(t):
    return [z3.Length(t) >= 1, z3.Length(t) <= I32_MAX]


ax_enc_item.names = ["enc_item"]


def ax_err2u(t):
    return [u2err(t) == t.arg(0), item_ok(t), t != ENDM]


ax_err2u.names = ["err2u"]


def declare(w, with_send=True):
    s = w.schema
    w.axiom_providers.extend([ax_decode, ax_enc_item, ax_err2u, ax_cfg2u])
    for cls in ("Queue", "Event", "Lock", "ExcObj"):
        s.set_bases(cls, ["object"])
    s.set_bases("RemoteError", ["ExcObj", "Exception"])
    s.declare("Queue", "$content", SEQ(ANY), ghost=True)
    s.declare("Event", "$set", BOOL, ghost=True)
    s.declare("ExcObj", "$cls", INT, ghost=True)
    s.declare("RemoteError", "$exc", BOOL, ghost=True)
    s.declare("RemoteError", "formatted", STR)
    s.declare("ExecModel", "backend", STR)
    s.declare("Channel", "id", INT)
    s.declare("Channel", "gateway", REF("BaseGateway"))
    s.declare("Channel", "_strconfig", STRCFG)
    s.declare("Channel", "_items", REF("Queue"))
    s.declare("Channel", "_closed", BOOL)
    s.declare("Channel", "_receiveclosed", REF("Event"))
    s.declare("Channel", "_remoteerrors", SEQ(REF("RemoteError")))
    s.declare("Channel", "_executing", BOOL)
    s.declare("ChannelFactory", "_channels", MAP(INT, REF("Channel")))
    s.declare("ChannelFactory", "_callbacks", MAP(INT, CBREC))
    s.declare("ChannelFactory", "_writelock", REF("Lock"))
    s.declare("ChannelFactory", "gateway", REF("BaseGateway"))
    s.declare("ChannelFactory", "count", INT)
    s.declare("ChannelFactory", "finished", BOOL)
    s.declare("BaseGateway", "execmodel", REF("ExecModel"))
    s.declare("BaseGateway", "_io", REF("IO"))
    s.declare("BaseGateway", "_strconfig", STRCFG)
    s.declare("BaseGateway", "_channelfactory", REF("ChannelFactory"))
    s.declare("BaseGateway", "_receivelock", REF("Lock"))
    s.declare("BaseGateway", "_sendlock", REF("Lock"))
    s.declare("BaseGateway", "_error", REF("ExcObj"))
    s.declare("BaseGateway", "$has_error", BOOL, ghost=True)
    s.declare("BaseGateway", "_receivepool", REF("WorkerPool"))
    # ghost histories
    s.declare("BaseGateway", "$wire_out", SEQ(core._Prim("frame", z3.StringSort())), ghost=True)   # frames handed to the connection, in order
    s.declare("BaseGateway", "$call_fn", SEQ(ANY), ghost=True)     # callbacks invoked by this gateway's receiver, in order ...
    s.declare("BaseGateway", "$call_arg", SEQ(ANY), ghost=True)    # ... and their arguments
    s.declare("BaseGateway", "$warned", INT, ghost=True)

    ev_set = lambda h, e: h("Event", e, "$set")
    qc = lambda h, q: h("Queue", q, "$content")
    C = lambda h, c, f: h("Channel", c, f)
    F = lambda h, f_, n: h("ChannelFactory", f_, n)
    G = lambda h, g, n: h("BaseGateway", g, n)

    # ---- library primitives (trusted) --------------------------------------------------------------------------
    if "model:Event.set" not in w.contracts:
        w.add(Contract("model:Event.set", {"self": REF("Event")}, modifies=lambda a, h: [("Event", a.self, "$set")], cases=[Case("ok", post=lambda a, h, h2, r: [ev_set(h2, a.self)])], trusted=True))
        w.add(Contract("model:Event.is_set", {"self": REF("Event")}, cases=[Case("ok", restype=BOOL, post=lambda a, h, h2, r: [r == ev_set(h, a.self)])], trusted=True))
        w.add(Contract("model:Event.wait", {"self": REF("Event"), "timeout": OPT(INT)}, defaults={"timeout": None}, modifies=lambda a, h: [("Event", a.self, "$set")],
                       cases=[Case("ok", restype=BOOL, post=lambda a, h, h2, r: [r == ev_set(h2, a.self), z3.Implies(a.sv("timeout").v[0], r), z3.Implies(ev_set(h, a.self), ev_set(h2, a.self))])], trusted=True))
        w.add(Contract("model:ExecModel.Event", {"self": REF("ExecModel")}, cases=[Case("ok", restype=REF("Event"), post=lambda a, h, h2, r: [r != 0, z3.Not(ev_set(h2, r))])], trusted=True, allocates=True))
        w.add(Contract("model:ExecModel.Lock", {"self": REF("ExecModel")}, cases=[Case("ok", restype=REF("Lock"), post=lambda a, h, h2, r: [r != 0])], trusted=True, allocates=True))
        w.add(Contract("model:ExecModel.RLock", {"self": REF("ExecModel")}, cases=[Case("ok", restype=REF("Lock"), post=lambda a, h, h2, r: [r != 0])], trusted=True, allocates=True))

    # queue.Queue: a linearisable FIFO
    w.add(Contract("model:Queue.put", {"self": REF("Queue"), "item": ANY}, modifies=lambda a, h: [("Queue", a.self, "$content")],
                   cases=[Case("ok", post=lambda a, h, h2, r: [qc(h2, a.self) == z3.Concat(qc(h, a.self), z3.Unit(a.item))])], trusted=True))

    w.add(Contract("model:Queue.empty", {"self": REF("Queue")}, cases=[Case("ok", restype=BOOL, post=lambda a, h, h2, r: [r == (slen(qc(h, a.self)) == 0)])], trusted=True,
                   note="queue.Queue.empty(): a snapshot (other threads may put or get right after it)"))
    w.add(Contract("model:Queue.qsize", {"self": REF("Queue")}, cases=[Case("ok", restype=INT, post=lambda a, h, h2, r: [r == slen(qc(h, a.self))])], trusted=True,
                   note="queue.Queue.qsize(): a snapshot"))

    def get_post(a, h, h2, r):
        return [slen(qc(h, a.self)) > 0, r == qc(h, a.self)[0], qc(h2, a.self) == z3.SubSeq(qc(h, a.self), 1, slen(qc(h, a.self)) - 1)]

    w.add(Contract("model:Queue.get", {"self": REF("Queue"), "block": BOOL, "timeout": OPT(INT)}, defaults={"block": True, "timeout": None},
                   modifies=lambda a, h: [("Queue", a.self, "$content")],
                   cases=[Case("head", restype=ANY, when=lambda a, h: slen(qc(h, a.self)) > 0, post=get_post),
                          Case("empty", "raise", "queue.Empty", when=lambda a, h: z3.And(slen(qc(h, a.self)) == 0, z3.Or(z3.Not(a.block), z3.Not(a.sv("timeout").v[0]))),
                               post=lambda a, h, h2, e: [qc(h2, a.self) == qc(h, a.self)]),
                          # blocking get on an empty queue: returns what another thread puts (arbitrary), the rest stays queued
                          Case("waited", restype=ANY, when=lambda a, h: z3.And(slen(qc(h, a.self)) == 0, a.block, a.sv("timeout").v[0]), post=lambda a, h, h2, r: [])],
                   trusted=True, note="queue.Queue: FIFO, thread safe; a blocking get on an empty queue is woken by a put"))
    w.attr_hooks[("ExecModel", "queue")] = lambda ex, st, recv: SV(FUNCT, ModuleD("queue"))

    def mk_queue(ex, args, kwargs, st, sink, node):
        r = ex.allocate(st, "Queue")
        ex.set_field(st, r, "$content", SV(SEQ(ANY), z3.Empty(z3.SeqSort(U))))
        yield st, r

    w.externals["queue.Queue"] = mk_queue
    w.externals["queue.Empty"] = SV(FUNCT, __import__("pyvc.symexec", fromlist=["ExcClassD"]).ExcClassD(["queue.Empty"]))

    def mk_weakdict(ex, args, kwargs, st, sink, node):
        ty = MAP(INT, REF("Channel"))
        yield st, SV(ty, (z3.K(z3.IntSort(), z3.BoolVal(False)), [z3.K(z3.IntSort(), z3.IntVal(0))]))

    w.externals["weakref.WeakValueDictionary"] = mk_weakdict

    def empty_dict(ex, node, st, sink):
        if node.keys:
            raise Unsupported("non-empty dict display")
        ty = MAP(INT, CBREC)
        yield st, SV(ty, (z3.K(z3.IntSort(), z3.BoolVal(False)), [z3.K(z3.IntSort(), z3.Const("nocb", U)), z3.K(z3.IntSort(), z3.Const("noend", U)),
                                                                     z3.K(z3.IntSort(), z3.BoolVal(False)), z3.K(z3.IntSort(), z3.BoolVal(False))]))

    w.call_hooks[("display", "dict")] = empty_dict
    # module level singletons
    w.attr_hooks[("module:" + GB, "ENDMARKER")] = lambda ex, st, recv: SV(ANY, ENDM)
    w.attr_hooks[("module:" + GB, "NO_ENDMARKER_WANTED")] = lambda ex, st, recv: SV(ANY, NOEND)

    # user callbacks: opaque; recorded in the gateway's call history; may raise any Exception (or a non-Exception BaseException)
    def call_callback(ex, callee, args, kwargs, st, sink, node):
        gw = st.ghost.get("$gateway")
        if gw is None:
            raise Unsupported("callback call outside a function that declares its gateway")
        if ex.frame is not None and ex.frame.qualname in ("Channel.setcallback", "ChannelFactory._local_receive"):
            # items reach a callback only while the gateway's receive lock is held: the receiver thread holds it around every
            # handler, so no frame can be handled while setcallback replays the backlog (ordering of old vs. new items)
            from pyvc.contracts import HeapView

            lock = st.heap.get(gw, "_receivelock")
            ex.oblige(st, "lock", "item-callback-under-_receivelock", HeapView(st.heap, st.held).holds(lock.v))
        for s2, raised in ((st.fork(), None), (st.fork(), "Exception"), (st.fork(), "BaseException")):
            fn_ = s2.heap.get(gw, "$call_fn")
            ar_ = s2.heap.get(gw, "$call_arg")
            s2.heap.set(gw, "$call_fn", SV(fn_.ty, z3.Concat(fn_.v, z3.Unit(callee.v))))
            s2.heap.set(gw, "$call_arg", SV(ar_.ty, z3.Concat(ar_.v, z3.Unit(core.coerce(args[0], ANY).v))))
            if ex.written_fields is not None:
                ex.written_fields |= {"BaseGateway.$call_fn", "BaseGateway.$call_arg"}
            if raised is None:
                yield s2, NONEV
            else:
                e = ExcV(raised, (), None, origin="user callback")
                e.exact, e.excluded = False, (("Exception",) if raised == "BaseException" else ())
                sink.append((s2, ("raise", e)))

    w.call_hooks[("call", "any")] = call_callback

    # RemoteError objects ---------------------------------------------------------------------------------------
    def raise_ref(ex, v, st):
        if v.ty.cls == "RemoteError":
            e = ExcV("RemoteError", (), v, origin="remote error")
            e.exact, e.excluded = True, ()
            return e
        raise Unsupported(f"raise of {v.ty!r}")

    w.call_hooks[("raise", "ref")] = raise_ref
    w.class_ids = dict(getattr(w, "class_ids", {}), RemoteError=EXC_REMOTE)
    declare_factory(w)
    declare_channel(w)
    declare_channel_api(w)
    declare_receiver(w)
    declare_finish(w)
    declare_messages(w)
    declare_receiver_thread(w)
    return w


# ==========================================================================================================
def declare_factory(w):
    s = w.schema
    ev_set = lambda h, e: h("Event", e, "$set")
    qc = lambda h, q: h("Queue", q, "$content")
    C = lambda h, c, f: h("Channel", c, f)
    F = lambda h, f_, n: h("ChannelFactory", f_, n)
    G = lambda h, g, n: h("BaseGateway", g, n)

    def chans(h, f_):
        return h.sv("ChannelFactory", f_, "_channels")

    def cbs(h, f_):
        return h.sv("ChannelFactory", f_, "_callbacks")

    def registered(h, f_, i):
        return z3.Select(chans(h, f_).v[0], i)

    def chan_of(h, f_, i):
        return z3.Select(chans(h, f_).v[1][0], i)

    def has_cb(h, f_, i):
        return z3.Select(cbs(h, f_).v[0], i)

    def cb_fn(h, f_, i):
        return z3.Select(cbs(h, f_).v[1][0], i)

    def cb_end(h, f_, i):
        return z3.Select(cbs(h, f_).v[1][1], i)

    def calls(h, g):
        return G(h, g, "$call_fn"), G(h, g, "$call_arg")

    def gw_of(h, f_):
        return F(h, f_, "gateway")

    w.chan_helpers = dict(chans=chans, cbs=cbs, registered=registered, chan_of=chan_of, has_cb=has_cb, cb_fn=cb_fn, cb_end=cb_end, calls=calls, gw_of=gw_of)

    def fac_wf(h, f_):
        """representation invariant of a ChannelFactory (assumed on entry of its methods, part of the receiver monitor)"""
        J = z3.Int("Jc")
        return [("has-gateway", gw_of(h, f_) != 0),
                ("registered-channels-are-objects", z3.Implies(registered(h, f_, J), z3.And(chan_of(h, f_, J) != 0, C(h, chan_of(h, f_, J), "id") == J,
                                                                                           C(h, chan_of(h, f_, J), "_receiveclosed") != 0)))]

    def fac_wf_all(h, f_):
        q = z3.Int("qc")
        ch = chan_of(h, f_, q)
        return [("has-gateway", gw_of(h, f_) != 0),
                ("registered-channels-are-objects", z3.ForAll([q], z3.Implies(registered(h, f_, q), z3.And(ch != 0, C(h, ch, "id") == q, C(h, ch, "_receiveclosed") != 0,
                                                                                                           h("object", ch, "$alloc"))),     # closed heap: registered channels exist
                                                              patterns=[z3.Select(chans(h, f_).v[1][0], q)]))]

    w.fac_wf, w.fac_wf_all = fac_wf, fac_wf_all
    GH = lambda getter: (lambda a, h: {"$gateway": SV(REF("BaseGateway"), getter(a, h))})

    # RemoteError -----------------------------------------------------------------------------------------
    w.add(Contract(f"{GB}:RemoteError.warn", {"self": REF("RemoteError")}, cases=[Case("ok")], trusted=True, note="writes a warning to stderr"))

    # ---- _no_longer_opened --------------------------------------------------------------------------------
    def nlo_post(a, h, h2, r):
        f_ = a.self
        g = gw_of(h, f_)
        fn0, ar0 = calls(h, g)
        fn2, ar2 = calls(h2, g)
        wanted = z3.And(has_cb(h, f_, a.id), cb_end(h, f_, a.id) != NOEND)
        return [chans(h2, f_).v[0] == z3.Store(chans(h, f_).v[0], a.id, False), chans(h2, f_).v[1][0] == chans(h, f_).v[1][0],
                cbs(h2, f_).v[0] == z3.Store(cbs(h, f_).v[0], a.id, False),
                # the endmarker goes to the callback exactly when a record was popped and an endmarker was requested: at most once
                z3.If(wanted, z3.And(fn2 == z3.Concat(fn0, z3.Unit(cb_fn(h, f_, a.id))), ar2 == z3.Concat(ar0, z3.Unit(cb_end(h, f_, a.id)))),
                      z3.And(fn2 == fn0, ar2 == ar0))]

    NLOMOD = lambda a, h: [("ChannelFactory", a.self, "_channels"), ("ChannelFactory", a.self, "_callbacks"),
                           ("BaseGateway", gw_of(h, a.self), "$call_fn"), ("BaseGateway", gw_of(h, a.self), "$call_arg")]
    c = w.add(Contract(f"{GB}:ChannelFactory._no_longer_opened", {"self": REF("ChannelFactory"), "id": INT},
                       requires=lambda a, h: [("has-gateway", gw_of(h, a.self) != 0)], modifies=NLOMOD,
                       cases=[Case("ok", post=nlo_post), _interrupt(lambda a, h, h2, e: nlo_post(a, h, h2, None)[:3])], props=["C03", "C10", "C18", "C07"]))
    c.ghost_init = GH(lambda a, h: gw_of(h, a.self))

    # ---- _local_close ----------------------------------------------------------------------------------------
    def lc_post(a, h, h2, r):
        f_ = a.self
        ch = chan_of(h, f_, a.id)
        reg = registered(h, f_, a.id)
        q = C(h, ch, "_items")
        err = a.remoteerror
        g = gw_of(h, f_)
        wanted = z3.And(has_cb(h, f_, a.id), cb_end(h, f_, a.id) != NOEND)
        fn0, ar0 = calls(h, g)
        fn2, ar2 = calls(h2, g)
        common = [chans(h2, f_).v[0] == z3.Store(chans(h, f_).v[0], a.id, False), cbs(h2, f_).v[0] == z3.Store(cbs(h, f_).v[0], a.id, False),
                  chans(h2, f_).v[1][0] == chans(h, f_).v[1][0],
                  z3.If(wanted, z3.And(fn2 == z3.Concat(fn0, z3.Unit(cb_fn(h, f_, a.id))), ar2 == z3.Concat(ar0, z3.Unit(cb_end(h, f_, a.id)))), z3.And(fn2 == fn0, ar2 == ar0))]
        live = z3.And(
            C(h2, ch, "_remoteerrors") == z3.If(err != 0, z3.Concat(C(h, ch, "_remoteerrors"), z3.Unit(err)), C(h, ch, "_remoteerrors")),
            # ENDMARKER goes behind everything queued earlier
            z3.Implies(q != 0, qc(h2, q) == z3.Concat(qc(h, q), z3.Unit(ENDM))),
            C(h2, ch, "_closed") == z3.Or(C(h, ch, "_closed"), z3.Not(a.sendonly)),
            ev_set(h2, C(h, ch, "_receiveclosed")))
        return common + [z3.Implies(reg, live)]

    def live_chan(a, h):
        """the channel object registered under the id, or the null object if there is none (its cells are nobody's)"""
        return z3.If(registered(h, a.self, a.id), chan_of(h, a.self, a.id), 0)

    LCMOD = lambda a, h: NLOMOD(a, h) + [("Channel", live_chan(a, h), f) for f in ("_remoteerrors", "_closed")] + [
        ("Queue", z3.If(registered(h, a.self, a.id), C(h, chan_of(h, a.self, a.id), "_items"), 0), "$content"),
        ("Event", z3.If(registered(h, a.self, a.id), C(h, chan_of(h, a.self, a.id), "_receiveclosed"), 0), "$set"),
        ("BaseGateway", gw_of(h, a.self), "$warned")]
    w.chan_helpers["live_chan"] = live_chan
    c = w.add(Contract(f"{GB}:ChannelFactory._local_close", {"self": REF("ChannelFactory"), "id": INT, "remoteerror": REF("RemoteError"), "sendonly": BOOL},
                       defaults={"remoteerror": None, "sendonly": False},
                       requires=lambda a, h: [f for f in fac_wf_all(h, a.self)], modifies=LCMOD,
                       cases=[Case("ok", post=lc_post), _interrupt(lambda a, h, h2, e: lc_post(a, h, h2, None)[:3])], props=["C03", "C04", "C07", "C10"]))
    c.ghost_init = GH(lambda a, h: gw_of(h, a.self))

    # publication order (other threads wake on the event / the endmarker before _local_close returns):
    #  - when the endmarker is queued, a remote error has already been recorded (a woken receive() must raise it, not EOFError: C07)
    #  - when _receiveclosed is set, the channel already shows its final state (a woken waitclose() caller sees isclosed() and a refusing send(): C03)
    def lc_at_put(a, h0, call, hnow, loc=None):
        ch = chan_of(h0, a.self, a.id)
        return [("remote-error-recorded-before-the-endmarker-is-queued",
                 z3.Implies(z3.And(registered(h0, a.self, a.id), call.self == C(h0, ch, "_items"), call.item == ENDM, a.remoteerror != 0),
                            slen(C(hnow, ch, "_remoteerrors")) == slen(C(h0, ch, "_remoteerrors")) + 1))]

    def lc_at_set(a, h0, call, hnow, loc=None):
        ch = chan_of(h0, a.self, a.id)
        return [("final-state-visible-before-waiters-are-woken",
                 z3.Implies(z3.And(registered(h0, a.self, a.id), call.self == C(h0, ch, "_receiveclosed")),
                            z3.And(C(hnow, ch, "_closed") == z3.Or(C(h0, ch, "_closed"), z3.Not(a.sendonly)), z3.Not(registered(hnow, a.self, a.id)))))]

    c.at_call = {"model:Queue.put": lc_at_put, "model:Event.set": lc_at_set}
    return w


# ==========================================================================================================
def declare_channel(w):
    """Channel methods, ChannelFactory.new/_local_receive/_finished_receiving, Message handlers, receiver thread."""
    s = w.schema
    H = w.chan_helpers
    chans, cbs, registered, chan_of, has_cb, cb_fn, cb_end, calls, gw_of = (H[k] for k in ("chans", "cbs", "registered", "chan_of", "has_cb", "cb_fn", "cb_end", "calls", "gw_of"))
    ev_set = lambda h, e: h("Event", e, "$set")
    qc = lambda h, q: h("Queue", q, "$content")
    C = lambda h, c, f: h("Channel", c, f)
    F = lambda h, f_, n: h("ChannelFactory", f_, n)
    G = lambda h, g, n: h("BaseGateway", g, n)
    GH = lambda getter: (lambda a, h: {"$gateway": SV(REF("BaseGateway"), getter(a, h))})
    fac_wf_all = w.fac_wf_all
    wire = lambda h, g: G(h, g, "$wire_out")
    interrupt = lambda: _exc_case("callback-interrupt", "BaseException", ("Exception",))

    def _exc_case(name, exc, excluding=(), when=None, post=None):
        c = Case(name, "raise", exc, when=when, post=post)
        c.excluding = tuple(excluding)
        return c

    # ---- BaseGateway._send as seen by the channel layer: one frame appended to the wire history, or OSError ------------
    def send_post(a, h, h2, r):
        return [wire(h2, a.self) == z3.Concat(wire(h, a.self), z3.Unit(frame(a.msgcode, a.channelid, a.data)))]

    w.add(Contract(f"{GB}:BaseGateway._send", {"self": REF("BaseGateway"), "msgcode": INT, "channelid": INT, "data": BYTES}, defaults={"channelid": 0, "data": b""},
                   requires=lambda a, h: [("channelid-int32", z3.And(a.channelid >= I32_MIN, a.channelid <= I32_MAX)), ("payload-int32", slen(a.data) <= I32_MAX)],
                   modifies=lambda a, h: [("BaseGateway", a.self, "$wire_out")],
                   cases=[Case("ok", post=send_post), Case("cannot-send", "raise", "OSError", post=lambda a, h, h2, e: [wire(h2, a.self) == wire(h, a.self)])],
                   trusted=True, note="verified in C08 against the IO contract; here: one whole frame appended to the connection, or OSError and nothing appended"))

    # serialisation as seen by the channel layer (C01/C13 decide the real functions)
    w.add(Contract(f"{GB}:dumps_internal", {"obj": ANY},
                   cases=[Case("ok", restype=BYTES, when=lambda a, h: item_ok(a.obj), post=lambda a, h, h2, r: [r == enc_item(a.obj)]),
                          Case("unsupported", "raise", "DumpError", when=lambda a, h: z3.Not(item_ok(a.obj)))], trusted=True))
    w.call_hooks[("coerce", "str->any")] = None

    def co_item(val, ty):
        if ty == ANY and val.ty.kind == "str":
            return SV(ANY, err2u(val.v))      # an error text sent as an item
        if ty == ANY and val.ty.kind == "tuple" and val.ty == STRCFG:
            return SV(ANY, cfg2u(val.v[0].v, val.v[1].v))
        return None

    co_item.__name__ = "co_item"
    core.COERCE_HOOKS[:] = [h for h in core.COERCE_HOOKS if getattr(h, "__name__", "") != "co_item"] + [co_item]

    def li_post(flagsrc):
        def post(a, h, h2, r):
            f1, f2 = flagsrc(a, h)
            return [r == decode_item(a.bytestring, f1, f2)]
        return post

    # loads_internal(data, channel_or_None, strconfig_or_None): the flags come from the channel if given, else from strconfig, else the class defaults
    w.add(Contract(f"{GB}:loads_internal", {"bytestring": BYTES, "channelfactory": REF("Channel"), "strconfig": OPT(STRCFG)}, defaults={"channelfactory": None, "strconfig": None},
                   cases=[Case("ok", restype=ANY, post=li_post(lambda a, h: (
                       z3.If(a.channelfactory != 0, h.sv("Channel", a.channelfactory, "_strconfig").v[0].v, z3.If(a.sv("strconfig").v[0], True, a.sv("strconfig").v[1].v[0].v)),
                       z3.If(a.channelfactory != 0, h.sv("Channel", a.channelfactory, "_strconfig").v[1].v, z3.If(a.sv("strconfig").v[0], False, a.sv("strconfig").v[1].v[1].v))))),
                          Case("corrupt", "raise", "LoadError"), Case("truncated", "raise", "EOFError")],
                   trusted=True, note="decoding (C01/C12/C13): the item is a function of the payload and the applicable string coercion pair; a channel carried in the payload needs the channel's gateway (C18)"))

    # ---- Channel.__init__ --------------------------------------------------------------------------------------------
    def ci_post(a, h, h2, r):
        c = a.self
        return [C(h2, c, "id") == a.id, C(h2, c, "gateway") == a.gateway, C(h2, c, "_items") != 0, slen(qc(h2, C(h2, c, "_items"))) == 0,
                z3.Not(C(h2, c, "_closed")), C(h2, c, "_receiveclosed") != 0, z3.Not(ev_set(h2, C(h2, c, "_receiveclosed"))), slen(C(h2, c, "_remoteerrors")) == 0,
                core.eq_sv(h2.sv("Channel", c, "_strconfig"), h.sv("BaseGateway", a.gateway, "_strconfig")),     # inherits the gateway's coercion pair
                z3.Not(h("object", C(h2, c, "_items"), "$alloc")), z3.Not(h("object", C(h2, c, "_receiveclosed"), "$alloc"))]

    w.add(Contract(f"{GB}:Channel.__init__", {"self": REF("Channel"), "gateway": REF("BaseGateway"), "id": INT},
                   requires=lambda a, h: [("gateway-not-none", a.gateway != 0), ("gateway-has-model", G(h, a.gateway, "execmodel") != 0)],
                   modifies=lambda a, h: [("Channel", a.self, f) for f in ("gateway", "_strconfig", "id", "_items", "_closed", "_receiveclosed", "_remoteerrors")],
                   cases=[Case("ok", post=ci_post)], props=["C18", "C12", "C02"], allocates=True))

    def getattr_strconfig(ex, args, st, sink, node):
        obj, name, default = args
        yield st, st.heap.get(obj, "_strconfig")

    w.call_hooks[("getattr", "ref:BaseGateway._strconfig")] = getattr_strconfig

    # ---- ChannelFactory.new (under _writelock) ----------------------------------------------------------------------------
    def new_post(a, h, h2, r):
        f_ = a.self
        idv = a.sv("id")
        given = z3.Not(idv.v[0])
        i = z3.If(given, idv.v[1].v, F(h, f_, "count"))
        was = registered(h, f_, i)
        return [r != 0, registered(h2, f_, i), chan_of(h2, f_, i) == r, C(h2, r, "id") == i,
                F(h2, f_, "count") == z3.If(given, F(h, f_, "count"), F(h, f_, "count") + 2),     # fresh ids step by 2: parity never changes
                z3.Implies(was, z3.And(r == chan_of(h, f_, i), chans(h2, f_).v[0] == chans(h, f_).v[0])),   # never replaces a live registration
                z3.Implies(z3.Not(was), z3.And(z3.Not(h("object", r, "$alloc")), C(h2, r, "gateway") == gw_of(h, f_), z3.Not(C(h2, r, "_closed")),
                                               C(h2, r, "_receiveclosed") != 0)),
                chans(h2, f_).v[0] == z3.Store(chans(h, f_).v[0], i, True),
                z3.Implies(z3.Not(was), chans(h2, f_).v[1][0] == z3.Store(chans(h, f_).v[1][0], i, r))]

    w.add(Contract(f"{GB}:ChannelFactory.new", {"self": REF("ChannelFactory"), "id": OPT(INT)}, defaults={"id": None},
                   requires=lambda a, h: [f for f in fac_wf_all(h, a.self)] + [("has-lock", F(h, a.self, "_writelock") != 0), ("gateway-has-model", G(h, gw_of(h, a.self), "execmodel") != 0)],
                   modifies=lambda a, h: [("ChannelFactory", a.self, "_channels"), ("ChannelFactory", a.self, "count")],
                   cases=[Case("ok", restype=REF("Channel"), when=lambda a, h: z3.Not(F(h, a.self, "finished")), post=new_post),
                          Case("connection-closed", "raise", "OSError", when=lambda a, h: F(h, a.self, "finished"),
                               post=lambda a, h, h2, e: [chans(h2, a.self).v[0] == chans(h, a.self).v[0], chans(h2, a.self).v[1][0] == chans(h, a.self).v[1][0],
                                                         F(h2, a.self, "count") == F(h, a.self, "count")])],
                   props=["C18", "C04", "C02"], allocates=True))
    # new() decides on `finished` and allocates from `count`: both reads belong inside the _writelock section that registers the channel
    # (otherwise a connection loss / a second allocator slips in between the check and the registration)
    w.contracts[f"{GB}:ChannelFactory.new"].reads_under = {("ChannelFactory", "finished"): "_writelock", ("ChannelFactory", "count"): "_writelock"}

    # ---- _local_receive ---------------------------------------------------------------------------------------------------
    def lr_post(a, h, h2, r):
        f_ = a.self
        g = gw_of(h, f_)
        ch = chan_of(h, f_, a.id)
        reg = registered(h, f_, a.id)
        fn0, ar0 = calls(h, g)
        fn2, ar2 = calls(h2, g)
        cfg = cbs(h, f_).v[1]
        chcfg = h.sv("Channel", ch, "_strconfig")
        # the live channel's coercion pair wins over the one recorded with the callback (Unserializer.__init__ precedence, C12)
        item_cb = decode_item(a.data, z3.If(reg, chcfg.v[0].v, z3.Select(cfg[2], a.id)), z3.If(reg, chcfg.v[1].v, z3.Select(cfg[3], a.id)))
        item_q = decode_item(a.data, chcfg.v[0].v, chcfg.v[1].v)
        q = C(h, ch, "_items")
        cb, endm = cb_fn(h, f_, a.id), cb_end(h, f_, a.id)
        wanted = endm != NOEND
        delivered = z3.And(fn2 == z3.Concat(fn0, z3.Unit(cb)), ar2 == z3.Concat(ar0, z3.Unit(item_cb)), cbs(h2, f_).v[0] == cbs(h, f_).v[0],
                           chans(h2, f_).v[0] == chans(h, f_).v[0], wire(h2, g) == wire(h, g))
        # the callback (or decoding) failed: the item was passed at most once, then - only then - the endmarker if one was requested;
        # exactly one CHANNEL_CLOSE_ERROR frame for this id goes to the peer; this side forgets the id and, if the channel object
        # is still alive, records a RemoteError (never another type) and marks it closed
        tail_f = z3.If(wanted, z3.Unit(cb), z3.Empty(fn0.sort()))
        tail_a = z3.If(wanted, z3.Unit(endm), z3.Empty(ar0.sort()))
        once = z3.Or(z3.And(fn2 == z3.Concat(fn0, z3.Unit(cb), tail_f), ar2 == z3.Concat(ar0, z3.Unit(item_cb), tail_a)),
                     z3.And(fn2 == z3.Concat(fn0, tail_f), ar2 == z3.Concat(ar0, tail_a)))
        nw = slen(wire(h, g))
        sent = z3.And(slen(wire(h2, g)) == nw + 1, z3.SubSeq(wire(h2, g), 0, nw) == wire(h, g),
                      z3.PrefixOf(z3.Concat(pyb().s8(z3.IntVal(M_CLOSE_ERROR)), pyb().be32(a.id)), wire(h2, g)[nw]))
        failed = z3.And(once, sent, z3.Not(has_cb(h2, f_, a.id)), z3.Not(registered(h2, f_, a.id)),
                        z3.Implies(reg, z3.And(C(h2, ch, "_closed"), ev_set(h2, C(h, ch, "_receiveclosed")),
                                               slen(C(h2, ch, "_remoteerrors")) == slen(C(h, ch, "_remoteerrors")) + 1)))
        return tables_shrink(a, h, h2, None) + [z3.If(has_cb(h, f_, a.id), z3.Or(delivered, failed),
                      z3.And(fn2 == fn0, ar2 == ar0,
                             # queue channel: appended behind everything queued earlier; unknown id or callback-less dropped channel: nothing
                             z3.Implies(z3.And(reg, q != 0), qc(h2, q) == z3.Concat(qc(h, q), z3.Unit(item_q))),
                             chans(h2, f_).v[0] == chans(h, f_).v[0], cbs(h2, f_).v[0] == cbs(h, f_).v[0], wire(h2, g) == wire(h, g)))]

    def tables_shrink(a, h, h2, e):
        f_ = a.self
        return [z3.Or(chans(h2, f_).v[0] == chans(h, f_).v[0], chans(h2, f_).v[0] == z3.Store(chans(h, f_).v[0], a.id, False)), chans(h2, f_).v[1][0] == chans(h, f_).v[1][0]]

    LRMOD = lambda a, h: [("ChannelFactory", a.self, "_channels"), ("ChannelFactory", a.self, "_callbacks"),
                          ("BaseGateway", gw_of(h, a.self), "$call_fn"), ("BaseGateway", gw_of(h, a.self), "$call_arg"), ("BaseGateway", gw_of(h, a.self), "$wire_out"),
                          ("BaseGateway", gw_of(h, a.self), "$warned")] + [("Channel", H["live_chan"](a, h), f) for f in ("_remoteerrors", "_closed")] + [
        ("Queue", z3.If(registered(h, a.self, a.id), C(h, chan_of(h, a.self, a.id), "_items"), 0), "$content"),
        ("Event", z3.If(registered(h, a.self, a.id), C(h, chan_of(h, a.self, a.id), "_receiveclosed"), 0), "$set")]
    c = w.add(Contract(f"{GB}:ChannelFactory._local_receive", {"self": REF("ChannelFactory"), "id": INT, "data": BYTES},
                       requires=lambda a, h: [f for f in fac_wf_all(h, a.self)] + [("id-int32", z3.And(a.id >= I32_MIN, a.id <= I32_MAX))], modifies=LRMOD,
                       cases=[Case("ok", post=lr_post), _interrupt(tables_shrink),
                              Case("cannot-report-callback-error", "raise", "OSError", when=lambda a, h: has_cb(h, a.self, a.id), post=tables_shrink),
                              Case("corrupt-payload", "raise", "LoadError", when=lambda a, h: z3.Not(has_cb(h, a.self, a.id)), post=tables_shrink),
                              Case("truncated-payload", "raise", "EOFError", when=lambda a, h: z3.Not(has_cb(h, a.self, a.id)), post=tables_shrink)],
                       props=["C02", "C07", "C10"]))
    c.ghost_init = GH(lambda a, h: gw_of(h, a.self))
    c.held_on_entry = lambda a, h: [G(h, gw_of(h, a.self), "_receivelock")]     # called by the receiver thread inside `with self._receivelock`
    # publication order: when the failing side marks the channel closed (local threads then see the failure and act on it), the CHANNEL_CLOSE_ERROR
    # frame for the peer is already on the wire - whatever those threads send next must not overtake the error
    c.at_call = {f"{GB}:ChannelFactory._local_close": lambda a, h0, call, hnow, loc=None: [
        ("error-frame-on-the-wire-before-the-channel-is-closed-locally",
         z3.Implies(call.remoteerror != 0, slen(wire(hnow, gw_of(h0, a.self))) == slen(wire(h0, gw_of(h0, a.self))) + 1))]}
    c.requires = (lambda old: lambda a, h: old(a, h) + [("receivelock-held", h.holds(G(h, gw_of(h, a.self), "_receivelock")))])(c.requires)
    w.attr_hooks[("BaseGateway", "_geterrortext")] = lambda ex, st, recv: SV(FUNCT, ExternD("geterrortext"))
    w.externals["geterrortext"] = lambda ex, args, kwargs, st, sink, node: iter([(st, core.fresh(STR, "errortext"))])
    return w


cfg2u = z3.Function("cfg2u", z3.BoolSort(), z3.BoolSort(), U)


def ax_cfg2u(t):
    return [item_ok(t), t != ENDM]     # a pair of bools is a serialisable item (C01)


ax_cfg2u.names = ["cfg2u"]


def pyb():
    from pyvc import pybuiltins

    return pybuiltins


def _interrupt(post=None):
    """a user callback may raise KeyboardInterrupt/SystemExit/...: by the code's evident intent (`except Exception`) these propagate"""
    c = Case("callback-interrupt", "raise", "BaseException", post=post)
    c.excluding = ("Exception",)
    return c


# ==========================================================================================================
def declare_channel_api(w):
    s = w.schema
    H = w.chan_helpers
    chans, cbs, registered, chan_of, has_cb, cb_fn, cb_end, calls, gw_of = (H[k] for k in ("chans", "cbs", "registered", "chan_of", "has_cb", "cb_fn", "cb_end", "calls", "gw_of"))
    ev_set = lambda h, e: h("Event", e, "$set")
    qc = lambda h, q: h("Queue", q, "$content")
    C = lambda h, c, f: h("Channel", c, f)
    F = lambda h, f_, n: h("ChannelFactory", f_, n)
    G = lambda h, g, n: h("BaseGateway", g, n)
    GH = lambda getter: (lambda a, h: {"$gateway": SV(REF("BaseGateway"), getter(a, h))})
    wire = lambda h, g: G(h, g, "$wire_out")
    fac = lambda h, c: G(h, C(h, c, "gateway"), "_channelfactory")

    def chan_wf(a, h):
        c = a.self
        return [("has-gateway", z3.And(C(h, c, "gateway") != 0, fac(h, c) != 0, gw_of(h, fac(h, c)) == C(h, c, "gateway"))),
                ("has-event", C(h, c, "_receiveclosed") != 0), ("id-int32", z3.And(C(h, c, "id") >= I32_MIN, C(h, c, "id") <= I32_MAX)),
                ("gateway-error-is-an-object", z3.Implies(G(h, C(h, c, "gateway"), "$has_error"), G(h, C(h, c, "gateway"), "_error") != 0)),
                # class invariant of Channel: both places that append to _remoteerrors do so only for a truthy (non-None) error object
                ("recorded-errors-are-objects", z3.ForAll([z3.Int("qe")], z3.Implies(z3.And(z3.Int("qe") >= 0, z3.Int("qe") < slen(C(h, c, "_remoteerrors"))),
                                                                                     C(h, c, "_remoteerrors")[z3.Int("qe")] != 0), patterns=[C(h, c, "_remoteerrors")[z3.Int("qe")]]))]

    w.add(Contract(f"{GB}:Channel.isclosed", {"self": REF("Channel")}, cases=[Case("ok", restype=BOOL, post=lambda a, h, h2, r: [r == C(h, a.self, "_closed")])], props=["C03"]))

    # ---- send ---------------------------------------------------------------------------------------------------
    def send_ok(a, h, h2, r):
        g = C(h, a.self, "gateway")
        return [item_ok(a.item), z3.Not(C(h, a.self, "_closed")),
                wire(h2, g) == z3.Concat(wire(h, g), z3.Unit(frame(z3.IntVal(M_DATA), C(h, a.self, "id"), enc_item(a.item))))]   # exactly one CHANNEL_DATA frame

    SENDMOD = lambda a, h: [("BaseGateway", C(h, a.self, "gateway"), "$wire_out")]
    untouched = lambda a, h, h2: wire(h2, C(h, a.self, "gateway")) == wire(h, C(h, a.self, "gateway"))
    w.add(Contract(f"{GB}:Channel.send", {"self": REF("Channel"), "item": ANY}, requires=chan_wf, modifies=SENDMOD,
                   cases=[Case("sent", post=send_ok),
                          # rejected before anything reaches the connection; the channel stays as it was
                          Case("unsupported", "raise", "DumpError", when=lambda a, h: z3.Not(item_ok(a.item)), post=lambda a, h, h2, e: [untouched(a, h, h2)]),
                          Case("closed-or-broken", "raise", "OSError", post=lambda a, h, h2, e: [untouched(a, h, h2)])],
                   props=["C02", "C01", "C03", "C04"]))

    # ---- _getremoteerror / receive / waitclose ------------------------------------------------------------------------
    s.declare("ExcObj", "$cls", INT, ghost=True)

    def gre_post(a, h, h2, r):
        errs = C(h, a.self, "_remoteerrors")
        g = C(h, a.self, "gateway")
        return [z3.If(slen(errs) > 0, z3.And(r == errs[0], C(h2, a.self, "_remoteerrors") == z3.SubSeq(errs, 1, slen(errs) - 1)),     # FIFO, each error handed out once
                      z3.And(C(h2, a.self, "_remoteerrors") == errs, r == z3.If(G(h, g, "$has_error"), G(h, g, "_error"), 0)))]

    w.add(Contract(f"{GB}:Channel._getremoteerror", {"self": REF("Channel")}, requires=chan_wf, modifies=lambda a, h: [("Channel", a.self, "_remoteerrors")],
                   cases=[Case("ok", restype=REF("ExcObj"), post=gre_post)], props=["C03", "C07"]))

    def has_error(ex, st, recv):
        sink = ex._cur_sink
        for s2, has in ex.fork(st, st.heap.get(recv, "$has_error").v):
            if has:
                yield s2, s2.heap.get(recv, "_error")
            else:
                ex.raise_(s2, sink, "AttributeError", origin="_error")

    w.attr_hooks[("BaseGateway", "_error")] = has_error

    def raise_excobj(ex, v, st):
        if v.ty.cls == "RemoteError":
            e = ExcV("RemoteError", (), v, origin="remote error")
        else:
            e = ExcV("ExcObj", (), v, origin="stored error (RemoteError or the gateway's EOFError)")
        e.exact, e.excluded = True, ()
        return e

    w.call_hooks[("raise", "ref")] = raise_excobj
    s.set_bases("ExcObj", ["Exception"])

    def recv_item(a, h):
        q = C(h, a.self, "_items")
        return z3.And(q != 0, slen(qc(h, q)) > 0, qc(h, q)[0] != ENDM)

    def recv_end(a, h):
        q = C(h, a.self, "_items")
        return z3.And(q != 0, slen(qc(h, q)) > 0, qc(h, q)[0] == ENDM)

    def recv_item_post(a, h, h2, r):
        q = C(h, a.self, "_items")
        return [r == qc(h, q)[0], qc(h2, q) == z3.SubSeq(qc(h, q), 1, slen(qc(h, q)) - 1), C(h2, a.self, "_remoteerrors") == C(h, a.self, "_remoteerrors")]

    def recv_end_post(a, h, h2, e):
        q = C(h, a.self, "_items")
        errs = C(h, a.self, "_remoteerrors")
        # ENDMARKER is put back for the other receivers: EOF is seen again and again; a pending error is raised exactly once
        return [qc(h2, q) == z3.Concat(z3.SubSeq(qc(h, q), 1, slen(qc(h, q)) - 1), z3.Unit(ENDM)),
                C(h2, a.self, "_remoteerrors") == z3.If(slen(errs) > 0, z3.SubSeq(errs, 1, slen(errs) - 1), errs)]

    RMOD = lambda a, h: [("Queue", C(h, a.self, "_items"), "$content"), ("Channel", a.self, "_remoteerrors")]
    def rcase(name, exc, when, post):
        c = Case(name, "raise", exc, when=when, post=post)
        return c

    w.add(Contract(f"{GB}:Channel.receive", {"self": REF("Channel"), "timeout": OPT(INT)}, defaults={"timeout": None}, requires=chan_wf, modifies=RMOD,
                   cases=[Case("item", restype=ANY, when=recv_item, post=recv_item_post),
                          rcase("eof", "EOFError", lambda a, h: z3.And(recv_end(a, h), slen(C(h, a.self, "_remoteerrors")) == 0, z3.Not(G(h, C(h, a.self, "gateway"), "$has_error"))), recv_end_post),
                          rcase("pending-error", "ExcObj", lambda a, h: z3.And(recv_end(a, h), z3.Or(slen(C(h, a.self, "_remoteerrors")) > 0, G(h, C(h, a.self, "gateway"), "$has_error"))), recv_end_post),
                          rcase("has-callback", "OSError", lambda a, h: C(h, a.self, "_items") == 0, lambda a, h, h2, e: []),
                          rcase("timeout", "TimeoutError", lambda a, h: z3.And(C(h, a.self, "_items") != 0, slen(qc(h, C(h, a.self, "_items"))) == 0, z3.Not(a.sv("timeout").v[0])),
                                lambda a, h, h2, e: [qc(h2, C(h, a.self, "_items")) == qc(h, C(h, a.self, "_items"))]),
                          # blocked on an empty queue until another thread puts something
                          Case("woken", restype=ANY, when=lambda a, h: z3.And(C(h, a.self, "_items") != 0, slen(qc(h, C(h, a.self, "_items"))) == 0, a.sv("timeout").v[0])),
                          rcase("woken-at-end", "Exception", lambda a, h: z3.And(C(h, a.self, "_items") != 0, slen(qc(h, C(h, a.self, "_items"))) == 0, a.sv("timeout").v[0]), lambda a, h, h2, e: [])],
                   props=["C02", "C03", "C07", "C04"]))

    def wc_mod(a, h):
        return [("Channel", a.self, "_remoteerrors"), ("Event", C(h, a.self, "_receiveclosed"), "$set")]

    w.add(Contract(f"{GB}:Channel.waitclose", {"self": REF("Channel"), "timeout": OPT(INT)}, defaults={"timeout": None}, requires=chan_wf, modifies=wc_mod,
                   cases=[Case("closed", post=lambda a, h, h2, r: [ev_set(h2, C(h, a.self, "_receiveclosed")),
                                                                  z3.Implies(ev_set(h, C(h, a.self, "_receiveclosed")), z3.And(slen(C(h, a.self, "_remoteerrors")) == 0,
                                                                                                                                z3.Not(G(h, C(h, a.self, "gateway"), "$has_error"))))]),
                          rcase("pending-error", "ExcObj", None, lambda a, h, h2, e: [ev_set(h2, C(h, a.self, "_receiveclosed"))]),
                          rcase("timeout", "TimeoutError", lambda a, h: z3.And(z3.Not(a.sv("timeout").v[0]), z3.Not(ev_set(h, C(h, a.self, "_receiveclosed")))),
                                lambda a, h, h2, e: [C(h2, a.self, "_remoteerrors") == C(h, a.self, "_remoteerrors")])],
                   props=["C03", "C07", "C04"]))

    # ---- close ----------------------------------------------------------------------------------------------------------
    def close_noop(a, h, h2, r):
        g = C(h, a.self, "gateway")
        return [wire(h2, g) == wire(h, g), C(h2, a.self, "_closed")]

    def close_post(a, h, h2, r):
        c = a.self
        g = C(h, c, "gateway")
        f_ = fac(h, c)
        i = C(h, c, "id")
        err = a.sv("error")
        q = C(h, c, "_items")
        fr = z3.If(err.v[0], frame(z3.IntVal(M_CLOSE), i, z3.StringVal("")), frame(z3.IntVal(M_CLOSE_ERROR), i, enc_item(err2u(err.v[1].v))))
        return [C(h2, c, "_closed"), ev_set(h2, C(h, c, "_receiveclosed")),
                # one close frame, ordered after everything this thread sent earlier - also in the send-only state (the peer dropped its channel object
                # but may still have a callback waiting for the endmarker: C10); a channel the peer closed is `_closed` already (case already-closed)
                wire(h2, g) == z3.Concat(wire(h, g), z3.Unit(fr)),
                z3.Implies(q != 0, qc(h2, q) == z3.Concat(qc(h, q), z3.Unit(ENDM))),
                z3.Not(registered(h2, f_, i)), z3.Not(has_cb(h2, f_, i))]    # forgotten when close() returns

    def CLMOD(a, h):
        c = a.self
        g = C(h, c, "gateway")
        return [("BaseGateway", g, "$wire_out"), ("Channel", c, "_closed"), ("Channel", c, "_remoteerrors"), ("Event", C(h, c, "_receiveclosed"), "$set"),
                ("Queue", C(h, c, "_items"), "$content"), ("ChannelFactory", fac(h, c), "_channels"), ("ChannelFactory", fac(h, c), "_callbacks"),
                ("BaseGateway", g, "$call_fn"), ("BaseGateway", g, "$call_arg")]

    c = w.add(Contract(f"{GB}:Channel.close", {"self": REF("Channel"), "error": OPT(STR)}, defaults={"error": None}, requires=chan_wf, modifies=CLMOD,
                       cases=[Case("already-closed", when=lambda a, h: z3.And(z3.Not(C(h, a.self, "_executing")), C(h, a.self, "_closed")), post=close_noop),
                              Case("closed-now", when=lambda a, h: z3.And(z3.Not(C(h, a.self, "_executing")), z3.Not(C(h, a.self, "_closed"))), post=close_post),
                              rcase("inside-remote_exec", "OSError", lambda a, h: C(h, a.self, "_executing"),
                                    lambda a, h, h2, e: [wire(h2, C(h, a.self, "gateway")) == wire(h, C(h, a.self, "gateway")), C(h2, a.self, "_closed") == C(h, a.self, "_closed")]),
                              # a close whose frame could not be sent has told the peer nothing: the channel must not count as closed (a retry, or dropping the object,
                              # still has to announce the end of the conversation - otherwise the peer keeps the id for ever, C18)
                              rcase("cannot-send", "OSError", lambda a, h: z3.And(z3.Not(C(h, a.self, "_executing")), z3.Not(C(h, a.self, "_closed"))),
                                    lambda a, h, h2, e: [wire(h2, C(h, a.self, "gateway")) == wire(h, C(h, a.self, "gateway")), z3.Not(C(h2, a.self, "_closed")),
                                                         registered(h2, fac(h, a.self), C(h, a.self, "id")) == registered(h, fac(h, a.self), C(h, a.self, "id"))]),
                              rcase("unsupported-error-object", "DumpError", lambda a, h: z3.BoolVal(False), lambda a, h, h2, e: []), _interrupt()],
                       props=["C03", "C06", "C18", "C07"]))
    c.ghost_init = GH(lambda a, h: C(h, a.self, "gateway"))
    # close(): the channel is marked closed and the close frame is on the wire before anybody waiting on the channel is woken
    c.at_call = {"model:Event.set": lambda a, h0, call, hnow, loc=None: [("closed-before-waiters-are-woken", z3.Implies(call.self == C(h0, a.self, "_receiveclosed"), C(hnow, a.self, "_closed")))]}

    # ---- Channel.reconfigure: the coercion pair is recorded locally AND announced to the peer for this channel id (C12) ------------------------
    def rcf_post(a, h, h2, r):
        c = a.self
        g = C(h, c, "gateway")
        cfg = h2.sv("Channel", c, "_strconfig")
        return [cfg.v[0].v == a.py2str_as_py3str, cfg.v[1].v == a.py3str_as_py2str,
                wire(h2, g) == z3.Concat(wire(h, g), z3.Unit(frame(z3.IntVal(M_RECONFIGURE), C(h, c, "id"), enc_item(cfg2u(a.py2str_as_py3str, a.py3str_as_py2str)))))]

    w.add(Contract(f"{GB}:Channel.reconfigure", {"self": REF("Channel"), "py2str_as_py3str": BOOL, "py3str_as_py2str": BOOL}, defaults={"py2str_as_py3str": True, "py3str_as_py2str": False},
                   requires=chan_wf, modifies=lambda a, h: [("Channel", a.self, "_strconfig"), ("BaseGateway", C(h, a.self, "gateway"), "$wire_out")],
                   cases=[Case("ok", post=rcf_post), rcase("cannot-send", "OSError", None, lambda a, h, h2, e: [wire(h2, C(h, a.self, "gateway")) == wire(h, C(h, a.self, "gateway"))])],
                   props=["C12"]))

    # ---- Channel.__del__: the last reference to the channel object goes away -----------------------------------------------------------
    def del_post(a, h, h2, r):
        c = a.self
        g = C(h, c, "gateway")
        i = C(h, c, "id")
        opened = z3.And(z3.Not(C(h, c, "_closed")), z3.Not(ev_set(h, C(h, c, "_receiveclosed"))))
        code = z3.If(C(h, c, "_items") == 0, z3.IntVal(M_LAST), z3.IntVal(M_CLOSE))     # a channel with a callback keeps receiving: "last message", not "close"
        fr = frame(code, i, z3.StringVal(""))
        # an open channel tells the peer exactly once (a failing send is swallowed: nothing goes out); a closed or send-only channel says nothing;
        # nothing else changes - in particular the callback table keeps its record (the callback stays active)
        return [z3.If(opened, z3.Or(wire(h2, g) == z3.Concat(wire(h, g), z3.Unit(fr)), wire(h2, g) == wire(h, g)), wire(h2, g) == wire(h, g))]

    c = w.add(Contract(f"{GB}:Channel.__del__", {"self": REF("Channel")},
                       requires=lambda a, h: chan_wf(a, h),
                       modifies=lambda a, h: [("BaseGateway", C(h, a.self, "gateway"), "$wire_out"), ("BaseGateway", C(h, a.self, "gateway"), "$warned")],
                       cases=[Case("ok", post=del_post)], props=["C03", "C18"]))
    c.ghost_init = GH(lambda a, h: C(h, a.self, "gateway"))
    w.add_loop(LoopSpec(f"{GB}:Channel.__del__", 0, invariant=lambda L: [("nothing-sent", wire(L.h, C(L.old, L.inp("self"), "gateway")) == wire(L.old, C(L.old, L.inp("self"), "gateway"))),
                                                                           ("params", L.self == L.inp("self"))],
                        havoc_cells=lambda L: [("BaseGateway", C(L.old, L.inp("self"), "gateway"), "$warned")], props=["C03"]))
    return w


# ==========================================================================================================
def declare_receiver(w):
    """setcallback, __del__, _finished_receiving, Message.received + handlers, _thread_receiver."""
    s = w.schema
    H = w.chan_helpers
    chans, cbs, registered, chan_of, has_cb, cb_fn, cb_end, calls, gw_of = (H[k] for k in ("chans", "cbs", "registered", "chan_of", "has_cb", "cb_fn", "cb_end", "calls", "gw_of"))
    ev_set = lambda h, e: h("Event", e, "$set")
    qc = lambda h, q: h("Queue", q, "$content")
    C = lambda h, c, f: h("Channel", c, f)
    F = lambda h, f_, n: h("ChannelFactory", f_, n)
    G = lambda h, g, n: h("BaseGateway", g, n)
    GH = lambda getter: (lambda a, h: {"$gateway": SV(REF("BaseGateway"), getter(a, h))})
    wire = lambda h, g: G(h, g, "$wire_out")
    fac = lambda h, c: G(h, C(h, c, "gateway"), "_channelfactory")
    fac_wf_all = w.fac_wf_all

    def chan_wf(a, h):
        c = a.self
        return [("has-gateway", z3.And(C(h, c, "gateway") != 0, fac(h, c) != 0, gw_of(h, fac(h, c)) == C(h, c, "gateway"))),
                ("has-event", C(h, c, "_receiveclosed") != 0), ("id-int32", z3.And(C(h, c, "id") >= I32_MIN, C(h, c, "id") <= I32_MAX))]

    # ---- setcallback: whole body under the receiver lock --------------------------------------------------------------------
    def sc_post(a, h, h2, r):
        c = a.self
        g = C(h, c, "gateway")
        f_ = fac(h, c)
        i = C(h, c, "id")
        q = C(h, c, "_items")
        content = qc(h, q)
        fn0, ar0 = calls(h, g)
        fn2, ar2 = calls(h2, g)
        K = z3.Int("Kq")   # position of the first ENDMARKER in the old queue, or its length
        nofn = slen(fn2) - slen(fn0)
        return [C(h2, c, "_items") == 0,    # receive() is refused from now on
                # every queued item went to the callback exactly once, in queue order (carried for the arbitrary position Kq)
                z3.Implies(z3.And(K >= 0, K < slen(content), K < nofn, z3.Not(z3.Contains(z3.SubSeq(content, 0, K + 1), z3.Unit(ENDM)))),
                           z3.And(ar2[slen(ar0) + K] == content[K], fn2[slen(fn0) + K] == a.callback)),
                z3.PrefixOf(fn0, fn2), z3.PrefixOf(ar0, ar2), slen(fn2) == slen(ar2),
                # registered for later items exactly if the channel is still open and no ENDMARKER was queued - and only after the whole backlog went out
                z3.Implies(has_cb(h2, f_, i), z3.And(cb_fn(h2, f_, i) == a.callback, cb_end(h2, f_, i) == a.endmarker,
                                                     # the record keeps the CHANNEL's own coercion pair: it is all that is left of a reconfigure() once the object is collected (C12)
                                                     z3.Select(cbs(h2, f_).v[1][2], i) == h.sv("Channel", c, "_strconfig").v[0].v,
                                                     z3.Select(cbs(h2, f_).v[1][3], i) == h.sv("Channel", c, "_strconfig").v[1].v,
                                                     z3.Not(z3.Contains(content, z3.Unit(ENDM))), nofn == slen(content))),
                z3.Implies(z3.And(z3.Not(z3.Contains(content, z3.Unit(ENDM))), z3.Not(C(h, c, "_closed")), z3.Not(ev_set(h, C(h, c, "_receiveclosed")))), has_cb(h2, f_, i))]

    def SCMOD(a, h):
        c = a.self
        g = C(h, c, "gateway")
        return [("Channel", c, "_items"), ("Queue", C(h, c, "_items"), "$content"), ("ChannelFactory", fac(h, c), "_callbacks"), ("BaseGateway", g, "$call_fn"), ("BaseGateway", g, "$call_arg")]

    c = w.add(Contract(f"{GB}:Channel.setcallback", {"self": REF("Channel"), "callback": ANY, "endmarker": ANY}, defaults={"endmarker": SV(ANY, NOEND)},
                       requires=lambda a, h: chan_wf(a, h) + [("has-receivelock", G(h, C(h, a.self, "gateway"), "_receivelock") != 0),
                                                              ("ghost-history-wellformed", slen(calls(h, C(h, a.self, "gateway"))[0]) == slen(calls(h, C(h, a.self, "gateway"))[1])),
                                                              ("gateway-has-model", G(h, C(h, a.self, "gateway"), "execmodel") != 0),
                                                              # class invariant: a callback record exists only for a channel whose queue was detached (only setcallback registers)
                                                              ("inv-callback-implies-no-queue", z3.Implies(C(h, a.self, "_items") != 0, z3.Not(has_cb(h, fac(h, a.self), C(h, a.self, "id")))))], modifies=SCMOD,
                       cases=[Case("ok", when=lambda a, h: C(h, a.self, "_items") != 0, post=sc_post),
                              Case("already-has-callback", "raise", "OSError", when=lambda a, h: C(h, a.self, "_items") == 0,
                                   post=lambda a, h, h2, e: [calls(h2, C(h, a.self, "gateway"))[0] == calls(h, C(h, a.self, "gateway"))[0]]),
                              Case("callback-raised", "raise", "BaseException", when=lambda a, h: C(h, a.self, "_items") != 0)],
                       props=["C10"]))
    c.ghost_init = GH(lambda a, h: C(h, a.self, "gateway"))

    def sc_inv(L):
        c = L.inp("self")
        g = C(L.old, c, "gateway")
        q = C(L.old, c, "_items")
        content = qc(L.old, q)
        fn0, ar0 = calls(L.old, g)
        fn2, ar2 = calls(L.h, g)
        n = slen(fn2) - slen(fn0)
        K = z3.Int("Kq")
        return [("params", z3.And(L.self == c, L.items == q, L.callback == L.inp("callback"), L.endmarker == L.inp("endmarker"), L._callbacks == L.old.sv("ChannelFactory", fac(L.old, c), "_callbacks").v[0] if False else L.self == c)),
                ("items-detached", C(L.h, c, "_items") == 0),
                ("drained-prefix", z3.And(n >= 0, n <= slen(content), z3.PrefixOf(fn0, fn2), z3.PrefixOf(ar0, ar2), slen(fn2) == slen(ar2),
                                          qc(L.h, q) == z3.SubSeq(content, n, slen(content) - n),          # nothing lost, nothing reordered
                                          z3.Not(z3.Contains(z3.SubSeq(content, 0, n), z3.Unit(ENDM))))),
                ("delivered-in-order", z3.Implies(z3.And(K >= 0, K < n), z3.And(ar2[slen(ar0) + K] == content[K], fn2[slen(fn0) + K] == L.inp("callback")))),
                ("not-registered-yet", cbs(L.h, fac(L.old, c)).v[0] == cbs(L.old, fac(L.old, c)).v[0]),
                ("stable", z3.And(C(L.h, c, "gateway") == g, G(L.h, g, "_channelfactory") == fac(L.old, c), C(L.h, c, "id") == C(L.old, c, "id"),
                                  C(L.h, c, "_receiveclosed") == C(L.old, c, "_receiveclosed"), G(L.h, g, "execmodel") == G(L.old, g, "execmodel")))]

    w.add_loop(LoopSpec(f"{GB}:Channel.setcallback", 0, invariant=sc_inv,
                        variant=lambda L: slen(qc(L.h, C(L.old, L.inp("self"), "_items"))),
                        havoc_cells=lambda L: [("Queue", C(L.old, L.inp("self"), "_items"), "$content"), ("BaseGateway", C(L.old, L.inp("self"), "gateway"), "$call_fn"),
                                               ("BaseGateway", C(L.old, L.inp("self"), "gateway"), "$call_arg"), ("ChannelFactory", fac(L.old, L.inp("self")), "_callbacks")], props=["C10"]))
    return w


keys_seq = z3.Function("keys_seq", z3.ArraySort(z3.IntSort(), z3.BoolSort()), z3.SeqSort(z3.IntSort()))   # list(d): a snapshot of the keys


def ax_keys_seq(t):
    pres = t.arg(0)
    q = z3.Int("qk1")
    return [z3.ForAll([q], z3.Implies(z3.And(q >= 0, q < z3.Length(t)), z3.Select(pres, t[q])), patterns=[t[q]]),
            z3.ForAll([q], z3.Implies(z3.Select(pres, q), z3.Contains(t, z3.Unit(q))), patterns=[z3.Select(pres, q)])]


ax_keys_seq.names = ["keys_seq"]


def declare_finish(w):
    s = w.schema
    H = w.chan_helpers
    chans, cbs, registered, chan_of, has_cb, cb_fn, cb_end, calls, gw_of = (H[k] for k in ("chans", "cbs", "registered", "chan_of", "has_cb", "cb_fn", "cb_end", "calls", "gw_of"))
    ev_set = lambda h, e: h("Event", e, "$set")
    qc = lambda h, q: h("Queue", q, "$content")
    C = lambda h, c, f: h("Channel", c, f)
    F = lambda h, f_, n: h("ChannelFactory", f_, n)
    G = lambda h, g, n: h("BaseGateway", g, n)
    GH = lambda getter: (lambda a, h: {"$gateway": SV(REF("BaseGateway"), getter(a, h))})
    w.axiom_providers.append(ax_keys_seq)
    w.attr_hooks[("ChannelFactory", "_list")] = lambda ex, st, recv: SV(FUNCT, ExternD("builtins.list"))

    def b_list(ex, args, kwargs, st, sink, node):
        (v,) = args
        if v.ty.kind == "map" and v.ty.key == INT:
            yield st, SV(SEQ(INT), keys_seq(v.v[0]))
        else:
            raise Unsupported(f"list({v.ty!r})")

    w.externals["builtins.list"] = b_list

    def iter_map(ex, it, st):
        # `for id in d:` over an int-keyed dict: the keys in the order list(d) would give them; the engine checks after every iteration that the body left the key set alone
        if it.ty.key != INT:
            raise Unsupported(f"iteration over {it.ty!r}")
        ks = keys_seq(it.v[0])
        elem = lambda i: SV(INT, ks[i])
        elem.seq = ks
        return z3.Length(ks), elem

    w.call_hooks[("iter", "map")] = iter_map
    J = z3.Int("Jf")   # an arbitrary fixed channel id

    def closed_effects(h0, h, f_, j):
        ch = chan_of(h0, f_, j)
        q = C(h0, ch, "_items")
        return z3.And(ev_set(h, C(h0, ch, "_receiveclosed")), z3.Implies(q != 0, z3.And(slen(qc(h, q)) >= 1, qc(h, q)[slen(qc(h, q)) - 1] == ENDM)),
                      C(h, ch, "_closed") == C(h0, ch, "_closed"))     # sendonly: the survivor may still try to send (and gets OSError from the transport)

    def fr_post(a, h, h2, r):
        f_ = a.self
        return [F(h2, f_, "finished"), z3.Not(registered(h2, f_, J)), z3.Not(has_cb(h2, f_, J)),
                z3.Implies(registered(h, f_, J), closed_effects(h, h2, f_, J))]

    FRMOD = lambda a, h: [("ChannelFactory", a.self, "finished"), ("ChannelFactory", a.self, "_channels"), ("ChannelFactory", a.self, "_callbacks"),
                          ("BaseGateway", gw_of(h, a.self), "$call_fn"), ("BaseGateway", gw_of(h, a.self), "$call_arg"), ("BaseGateway", gw_of(h, a.self), "$warned"),
                          ("Channel", None, "_remoteerrors"), ("Channel", None, "_closed"), ("Queue", None, "$content"), ("Event", None, "$set")]
    c = w.add(Contract(f"{GB}:ChannelFactory._finished_receiving", {"self": REF("ChannelFactory")},
                       requires=lambda a, h: [f for f in w.fac_wf_all(h, a.self)] + [("has-lock", F(h, a.self, "_writelock") != 0)], modifies=FRMOD,
                       cases=[Case("ok", post=fr_post), _interrupt()], props=["C04", "C10", "C03"]))
    c.ghost_init = GH(lambda a, h: gw_of(h, a.self))

    def snap(L, which):
        return L.iterable.v

    def inv1(L):
        f_ = L.inp("self")
        sn = L.iterable.v if L.iterable.ty.kind == "seq" else keys_seq(L.iterable.v[0])    # `for id in d` iterates the same keys as list(d)
        pos = z3.IndexOf(sn, z3.Unit(J), 0)
        return [("params", L.self == f_), ("finished-set", F(L.h, f_, "finished")),
                ("snapshot", sn == keys_seq(chans(L.old, f_).v[0])),
                ("remaining-are-ahead", z3.Implies(registered(L.h, f_, J), z3.And(registered(L.old, f_, J), pos >= L.k,
                                                                                  C(L.h, chan_of(L.old, f_, J), "_closed") == C(L.old, chan_of(L.old, f_, J), "_closed")))),
                ("closed-ones-got-their-end", z3.Implies(z3.And(registered(L.old, f_, J), z3.Not(registered(L.h, f_, J))), closed_effects(L.old, L.h, f_, J))),
                ("channel-objects-stay", z3.And(chans(L.h, f_).v[1][0] == chans(L.old, f_).v[1][0], gw_of(L.h, f_) == gw_of(L.old, f_))),
                ("callbacks-only-shrink", z3.Implies(has_cb(L.h, f_, J), has_cb(L.old, f_, J)))]

    def wf_free(L):
        return [(n, f) for n, f in w.fac_wf(L.h, L.inp("self")) if n != "has-gateway"]

    inv1_full = lambda L: inv1(L) + wf_free(L)
    w.add_loop(LoopSpec(f"{GB}:ChannelFactory._finished_receiving", 0, invariant=inv1_full,
                        havoc_cells=lambda L: [("ChannelFactory", L.inp("self"), "_channels"), ("ChannelFactory", L.inp("self"), "_callbacks"),
                                               ("BaseGateway", gw_of(L.old, L.inp("self")), "$call_fn"), ("BaseGateway", gw_of(L.old, L.inp("self")), "$call_arg"),
                                               ("BaseGateway", gw_of(L.old, L.inp("self")), "$warned")],
                        havoc_fields=["Channel._remoteerrors", "Channel._closed", "Queue.$content", "Event.$set"], props=["C04"]))

    w.loops[(f"{GB}:ChannelFactory._finished_receiving", 0)].invariant_assume = lambda L: [f for _, f in w.fac_wf_all(L.h, L.inp("self"))]

    def inv2(L):
        f_ = L.inp("self")
        sn = L.iterable.v if L.iterable.ty.kind == "seq" else keys_seq(L.iterable.v[0])    # `for id in d` iterates the same keys as list(d)
        pos = z3.IndexOf(sn, z3.Unit(J), 0)
        return [("params", L.self == f_), ("finished-set", F(L.h, f_, "finished")),
                ("no-channel-left", z3.Not(registered(L.h, f_, J))),
                ("remaining-callbacks-are-ahead", z3.Implies(has_cb(L.h, f_, J), pos >= L.k)),
                ("closed-ones-keep-their-end", z3.Implies(registered(L.old, f_, J), closed_effects(L.old, L.h, f_, J))),
                ("stable", gw_of(L.h, f_) == gw_of(L.old, f_))]

    w.add_loop(LoopSpec(f"{GB}:ChannelFactory._finished_receiving", 1, invariant=inv2,
                        havoc_cells=lambda L: [("ChannelFactory", L.inp("self"), "_channels"), ("ChannelFactory", L.inp("self"), "_callbacks"),
                                               ("BaseGateway", gw_of(L.old, L.inp("self")), "$call_fn"), ("BaseGateway", gw_of(L.old, L.inp("self")), "$call_arg")], props=["C04"]))
    return w


# ==========================================================================================================
class TableD:
    def __init__(self, table, cls):
        self.table, self.cls = table, cls


def declare_messages(w):
    from pyvc import extract

    s = w.schema
    mod = extract.load(GB)
    H = w.chan_helpers
    chans, cbs, registered, chan_of, has_cb, cb_fn, cb_end, calls, gw_of = (H[k] for k in ("chans", "cbs", "registered", "chan_of", "has_cb", "cb_fn", "cb_end", "calls", "gw_of"))
    ev_set = lambda h, e: h("Event", e, "$set")
    qc = lambda h, q: h("Queue", q, "$content")
    C = lambda h, c, f: h("Channel", c, f)
    F = lambda h, f_, n: h("ChannelFactory", f_, n)
    G = lambda h, g, n: h("BaseGateway", g, n)
    GH = lambda getter: (lambda a, h: {"$gateway": SV(REF("BaseGateway"), getter(a, h))})
    wire = lambda h, g: G(h, g, "$wire_out")
    s.declare("Message", "msgcode", INT)
    s.declare("Message", "channelid", INT)
    s.declare("Message", "data", BYTES)
    s.declare("IO", "unread", BYTES, ghost=True)
    s.declare("IO", "$read_closed", BOOL, ghost=True)
    s.declare("IO", "$write_closed", BOOL, ghost=True)
    s.declare("BaseGateway", "$handled", SEQ(INT), ghost=True)      # message codes handled by the receiver, in order
    s.declare("BaseGateway", "$terminated_execution", BOOL, ghost=True)
    s.declare("WorkerPool", "_shuttingdown", BOOL)
    M = lambda h, m, f: h("Message", m, f)

    table = mod.class_consts["Message"]["_types"]
    w.attr_hooks[("Message", "_types")] = lambda ex, st, recv: SV(FUNCT, TableD(table, "Message"))

    def index_table(ex, base, idx, st, sink, node):
        if not isinstance(base.v, TableD):
            raise Unsupported("subscript of a callable")
        rest = st
        for key, val in base.v.table.items():
            cnd = idx.v == key
            s2 = rest.fork().assume(cnd)
            if ex.feasible(s2):
                name, fn = val
                yield s2, core.mk_tuple([mk_str(name), SV(FUNCT, FuncD(mod, f"{base.v.cls}.{fn[1]}"))])
            rest = rest.fork().assume(z3.Not(cnd))
        if ex.feasible(rest):
            ex.raise_(rest, sink, "KeyError", origin="unknown message code")

    w.call_hooks[("index", "func")] = index_table

    # handlers that are not inlined -------------------------------------------------------------------------------
    w.add(Contract(f"{GB}:Message._status", {"message": REF("Message"), "gateway": REF("BaseGateway")},
                   modifies=lambda a, h: [("BaseGateway", a.gateway, "$wire_out")],
                   cases=[Case("ok", post=lambda a, h, h2, r: [slen(wire(h2, a.gateway)) == slen(wire(h, a.gateway)) + 2]), Case("cannot-send", "raise", "OSError")],
                   trusted=True, note="STATUS: answers with one CHANNEL_DATA and one CHANNEL_CLOSE frame on the message's channel id; creates no channel object"))
    w.add(Contract(f"{GB}:BaseGateway._local_schedulexec", {"self": REF("BaseGateway"), "channel": REF("Channel"), "sourcetask": BYTES},
                   modifies=lambda a, h: [("BaseGateway", a.self, "$wire_out"), ("Channel", a.channel, "_closed"), ("Event", None, "$set"), ("Queue", None, "$content"),
                                          ("ChannelFactory", G(h, a.self, "_channelfactory"), "_channels"), ("ChannelFactory", G(h, a.self, "_channelfactory"), "_callbacks")],
                   cases=[Case(n_, k_, e_, post=lambda a, h, h2, r: [f for n, f in w.fac_wf_all(h2, G(h, a.self, "_channelfactory")) if n != "has-gateway"]) for n_, k_, e_ in (
                       ("ok", "return", None), ("corrupt-task", "raise", "LoadError"), ("truncated-task", "raise", "EOFError"), ("pool-shutting-down", "raise", "ValueError"), ("cannot-send", "raise", "OSError"))],
                   trusted=True, note="CHANNEL_EXEC scheduling: refused on an initiator gateway (close with 'execution disallowed'), decided for workers in C14/C06"))
    li = w.contracts.pop(f"{GB}:loads_internal")
    w.add(li, variant="channel")
    w.add(Contract(f"{GB}:loads_internal", {"bytestring": BYTES, "channelfactory": REF("BaseGateway"), "strconfig": NONE}, defaults={"strconfig": None},
                   cases=[Case("ok", restype=ANY, post=lambda a, h, h2, r: [r == decode_item(a.bytestring, h.sv("BaseGateway", a.channelfactory, "_strconfig").v[0].v,
                                                                                          h.sv("BaseGateway", a.channelfactory, "_strconfig").v[1].v)]),
                          Case("corrupt", "raise", "LoadError"), Case("truncated", "raise", "EOFError")], trusted=True), variant="gateway")

    is_str_item = z3.Function("is_str_item", U, z3.BoolSort())
    is_pair_item = z3.Function("is_pair_item", U, z3.BoolSort())
    u2cfg1 = z3.Function("u2cfg1", U, z3.BoolSort())
    u2cfg2 = z3.Function("u2cfg2", U, z3.BoolSort())

    def isinstance_any(ex, v, names):
        if names == ["str"]:
            return is_str_item(v.v)
        if names == ["tuple"]:
            return is_pair_item(v.v)
        raise Unsupported(f"isinstance of an item against {names}")

    w.call_hooks[("isinstance", "any")] = isinstance_any

    def co_from_item(val, ty):
        if val.ty.kind == "any" and ty == STRCFG:
            return SV(STRCFG, (SV(BOOL, u2cfg1(val.v)), SV(BOOL, u2cfg2(val.v))))
        if val.ty.kind == "any" and ty == STR:
            return SV(STR, u2err(val.v))
        return None

    co_from_item.__name__ = "co_from_item"
    core.COERCE_HOOKS[:] = [h for h in core.COERCE_HOOKS if getattr(h, "__name__", "") != "co_from_item"] + [co_from_item]

    # ---- Message.received: dispatch through the real _types table --------------------------------------------------
    def rc_post(a, h, h2, r):
        g = a.gateway
        return [G(h2, g, "$handled") == z3.Concat(G(h, g, "$handled"), z3.Unit(M(h, a.self, "msgcode")))]

    RCMOD = lambda a, h: [("BaseGateway", a.gateway, f) for f in ("$wire_out", "$call_fn", "$call_arg", "$warned", "$handled", "_strconfig")] + [
        ("ChannelFactory", G(h, a.gateway, "_channelfactory"), f) for f in ("_channels", "_callbacks", "count")] + [
        ("Channel", None, f) for f in ("_remoteerrors", "_closed", "_strconfig")] + [("Queue", None, "$content"), ("Event", None, "$set")]
    return w


def declare_receiver_thread(w):
    s = w.schema
    H = w.chan_helpers
    chans, cbs, registered, chan_of, has_cb, cb_fn, cb_end, calls, gw_of = (H[k] for k in ("chans", "cbs", "registered", "chan_of", "has_cb", "cb_fn", "cb_end", "calls", "gw_of"))
    ev_set = lambda h, e: h("Event", e, "$set")
    C = lambda h, c, f: h("Channel", c, f)
    F = lambda h, f_, n: h("ChannelFactory", f_, n)
    G = lambda h, g, n: h("BaseGateway", g, n)
    GH = lambda getter: (lambda a, h: {"$gateway": SV(REF("BaseGateway"), getter(a, h))})
    M = lambda h, m, f: h("Message", m, f)
    from pyvc.pybuiltins import unbe32, uns8

    RCMOD = lambda g: (lambda a, h: [("BaseGateway", g(a, h), f) for f in ("$wire_out", "$call_fn", "$call_arg", "$warned", "$handled", "_strconfig")] + [
        ("ChannelFactory", G(h, g(a, h), "_channelfactory"), f) for f in ("_channels", "_callbacks", "count")] + [
        ("Channel", None, f) for f in ("_remoteerrors", "_closed", "_strconfig")] + [("Queue", None, "$content"), ("Event", None, "$set")])

    def gw_wf(h, g):
        f_ = G(h, g, "_channelfactory")
        return [("has-factory", z3.And(f_ != 0, gw_of(h, f_) == g, F(h, f_, "_writelock") != 0)), ("has-model", G(h, g, "execmodel") != 0)] + [x for x in w.fac_wf_all(h, f_) if x[0] != "has-gateway"]

    def wf_cases(cases):
        """every outcome of handling a message, normal or not, leaves the factory well formed (proved for a free id, assumed for all)"""
        for cs in cases:
            cs.post = lambda a, h, h2, r: [f for n, f in w.fac_wf(h2, G(h, a.gateway, "_channelfactory")) if n != "has-gateway"] + [
                G(h2, a.gateway, "_channelfactory") == G(h, a.gateway, "_channelfactory")]
            cs.post_assume = lambda a, h, h2, r: [f for n, f in w.fac_wf_all(h2, G(h, a.gateway, "_channelfactory")) if n != "has-gateway"]
        return cases

    # ---- Message.received -----------------------------------------------------------------------------------------
    def rc_post(a, h, h2, r):
        return [G(h2, a.gateway, "$handled") == z3.Concat(G(h, a.gateway, "$handled"), z3.Unit(M(h, a.self, "msgcode")))]

    def ghost_handled(ex, recv, st):
        pass

    c = w.add(Contract(f"{GB}:Message.received", {"self": REF("Message"), "gateway": REF("BaseGateway")},
                       requires=lambda a, h: [("gateway-not-none", a.gateway != 0), ("channelid-int32", z3.And(M(h, a.self, "channelid") >= I32_MIN, M(h, a.self, "channelid") <= I32_MAX))] + gw_wf(h, a.gateway),
                       modifies=RCMOD(lambda a, h: a.gateway),
                       cases=wf_cases([Case("handled"), Case("terminate", "raise", "GatewayReceivedTerminate", when=lambda a, h: M(h, a.self, "msgcode") == M_TERMINATE),
                                       Case("unknown-code", "raise", "KeyError", when=lambda a, h: z3.Or(M(h, a.self, "msgcode") < 0, M(h, a.self, "msgcode") > 7)),
                                       Case("corrupt-payload", "raise", "LoadError"), Case("truncated-payload", "raise", "EOFError"), Case("bad-reconfigure", "raise", "AssertionError"),
                                       Case("cannot-send", "raise", "OSError"), Case("pool-shutting-down", "raise", "ValueError"), _interrupt()]),
                       props=["C02", "C03", "C04", "C07"]))
    c.ghost_init = GH(lambda a, h: a.gateway)
    c.held_on_entry = lambda a, h: [G(h, a.gateway, "_receivelock")]     # handlers run inside `with self._receivelock` of the receiver thread
    c.requires = (lambda old: lambda a, h: old(a, h) + [("receivelock-held", h.holds(G(h, a.gateway, "_receivelock")))])(c.requires)

    # ---- from_io / IO closing (C08 decides from_io; OS contract for closing) ------------------------------------------
    def hdr(u):
        return uns8(z3.SubSeq(u, 0, 1)), unbe32(z3.SubSeq(u, 1, 4)), unbe32(z3.SubSeq(u, 5, 4))

    def complete(a, h):
        u = h("IO", a.io, "unread")
        return z3.And(slen(u) >= 9, slen(u) >= 9 + hdr(u)[2])

    w.add(Contract(f"{GB}:Message.from_io", {"io": REF("IO")}, modifies=lambda a, h: [("IO", a.io, "unread")],
                   cases=[Case("ok", restype=REF("Message"), when=complete,
                               post=lambda a, h, h2, r: [r != 0, M(h2, r, "msgcode") == hdr(h("IO", a.io, "unread"))[0], M(h2, r, "channelid") == hdr(h("IO", a.io, "unread"))[1],
                                                         slen(h2("IO", a.io, "unread")) < slen(h("IO", a.io, "unread"))]),
                          Case("eof", "raise", "EOFError", when=lambda a, h: z3.Not(complete(a, h)), post=lambda a, h, h2, e: [slen(h2("IO", a.io, "unread")) == 0])],
                   trusted=True, allocates=True, note="verified in C08: a complete frame yields its message; a stream that ends inside (or before) a frame raises EOFError"))
    for nm, fld in (("close_read", "$read_closed"), ("close_write", "$write_closed")):
        w.add(Contract(f"model:IO.{nm}", {"self": REF("IO")}, modifies=(lambda fld: lambda a, h: [("IO", a.self, fld)])(fld),
                       cases=[Case("ok", post=(lambda fld: lambda a, h, h2, r: [h2("IO", a.self, fld)])(fld))], trusted=True,
                       note="IO contract (C16): close_read/close_write do not raise"))
    w.add(Contract(f"{GB}:BaseGateway._terminate_execution", {"self": REF("BaseGateway")}, modifies=lambda a, h: [("BaseGateway", a.self, "$terminated_execution")],
                   cases=[Case("ok", post=lambda a, h, h2, r: [G(h2, a.self, "$terminated_execution")])], trusted=True,
                   note="behavioural supertype of WorkerGateway._terminate_execution (C11): returns (or the process has exited)"))
    w.add(Contract(f"{GB}:WorkerPool.trigger_shutdown", {"self": REF("WorkerPool")}, modifies=lambda a, h: [("WorkerPool", a.self, "_shuttingdown")],
                   cases=[Case("ok", post=lambda a, h, h2, r: [h2("WorkerPool", a.self, "_shuttingdown")])], trusted=True, note="C09"))

    def set_error(ex, recv, attr, v, st, sink):
        r = ex.allocate(st, "ExcObj")
        st.heap.set(r, "$cls", SV(INT, z3.IntVal(EXC_EOF)))
        ex.set_field(st, recv, "_error", r)
        ex.set_field(st, recv, "$has_error", mk_bool(True))
        return [st]

    w.call_hooks[("setattr", "ref:BaseGateway._error")] = set_error

    # ---- _thread_receiver ----------------------------------------------------------------------------------------------
    J = z3.Int("Jf")

    def tr_post(a, h, h2, r):
        g = a.self
        f_ = G(h, g, "_channelfactory")
        io = G(h, g, "_io")
        return [F(h2, f_, "finished"), z3.Not(registered(h2, f_, J)), z3.Not(has_cb(h2, f_, J)),          # every channel and callback was swept
                G(h2, g, "$terminated_execution"), h2("IO", io, "$read_closed"), h2("IO", io, "$write_closed"),
                h2("WorkerPool", G(h, g, "_receivepool"), "_shuttingdown")]

    TRMOD = lambda a, h: RCMOD(lambda a, h: a.self)(a, h) + [("BaseGateway", a.self, f) for f in ("_error", "$has_error", "$terminated_execution")] + [
        ("IO", G(h, a.self, "_io"), f) for f in ("unread", "$read_closed", "$write_closed")] + [("ChannelFactory", G(h, a.self, "_channelfactory"), "finished"),
                                                                                               ("WorkerPool", G(h, a.self, "_receivepool"), "_shuttingdown"), ("ExcObj", None, "$cls"),
                                                                                               ("Message", None, "msgcode"), ("Message", None, "channelid"), ("Message", None, "data")]
    c = w.add(Contract(f"{GB}:BaseGateway._thread_receiver", {"self": REF("BaseGateway")},
                       requires=lambda a, h: gw_wf(h, a.self) + [("has-io", G(h, a.self, "_io") != 0), ("has-receivelock", G(h, a.self, "_receivelock") != 0),
                                                                  ("has-receivepool", G(h, a.self, "_receivepool") != 0)],
                       modifies=TRMOD, cases=[Case("ended", post=tr_post), _interrupt()], props=["C04", "C02", "C11", "C07"]))
    c.ghost_init = GH(lambda a, h: a.self)

    # order in the epilogue: the waiters are woken (sweep) and the execution is told to stop BEFORE the connection objects are closed - closing a buffered pipe
    # flushes what a failed send left behind and can itself fail; whatever happens there must not keep receive()/waitclose() callers from their EOFError
    def at_close(a, h0, call, hnow, loc=None):
        f_ = G(h0, a.self, "_channelfactory")
        return [("waiters-woken-and-execution-stopped-before-the-connection-is-closed",
                 z3.Implies(call.self == G(h0, a.self, "_io"), z3.And(F(hnow, f_, "finished"), G(hnow, a.self, "$terminated_execution"))))]

    # ... and the epilogue does not take the receive lock: user callbacks run under it for as long as they like (setcallback replays the backlog in the caller's
    # thread while holding it), and the sweep and the shutdown ladder must not wait for them (C11: bounded time from end of stream)
    def not_locked(a, h0, call, hnow, loc=None):
        return [("epilogue-does-not-hold-the-receive-lock", z3.Not(hnow.holds(G(h0, a.self, "_receivelock"))))]

    c.at_call = {"model:IO.close_read": at_close, "model:IO.close_write": at_close,
                 f"{GB}:ChannelFactory._finished_receiving": not_locked, f"{GB}:BaseGateway._terminate_execution": not_locked}

    def tr_inv(L):
        g = L.inp("self")
        return [("params", z3.And(L.self == g, L.io == G(L.old, g, "_io"))),
                ("stable", z3.And(G(L.h, g, "_channelfactory") == G(L.old, g, "_channelfactory"), G(L.h, g, "_io") == G(L.old, g, "_io"), G(L.h, g, "_receivelock") == G(L.old, g, "_receivelock"),
                                  G(L.h, g, "_receivepool") == G(L.old, g, "_receivepool"), G(L.h, g, "execmodel") == G(L.old, g, "execmodel"),
                                  gw_of(L.h, G(L.old, g, "_channelfactory")) == g, F(L.h, G(L.old, g, "_channelfactory"), "_writelock") == F(L.old, G(L.old, g, "_channelfactory"), "_writelock"))),
                ] + [x for x in w.fac_wf(L.h, G(L.old, g, "_channelfactory")) if x[0] != "has-gateway"]

    w.add_loop(LoopSpec(f"{GB}:BaseGateway._thread_receiver", 0, invariant=tr_inv,
                        variant=lambda L: slen(L.h("IO", G(L.old, L.inp("self"), "_io"), "unread")),    # every handled frame consumes input: the loop ends when the stream does
                        havoc_cells=lambda L: [("BaseGateway", L.inp("self"), f) for f in ("$wire_out", "$call_fn", "$call_arg", "$warned", "$handled", "_strconfig")] + [
                            ("ChannelFactory", G(L.old, L.inp("self"), "_channelfactory"), f) for f in ("_channels", "_callbacks", "count")] + [("IO", G(L.old, L.inp("self"), "_io"), "unread")],
                        havoc_fields=["Channel._remoteerrors", "Channel._closed", "Channel._strconfig", "Queue.$content", "Event.$set", "Message.msgcode", "Message.channelid", "Message.data"],
                        props=["C04", "C02"]))
    w.loops[(f"{GB}:BaseGateway._thread_receiver", 0)].invariant_assume = lambda L: [f for n, f in w.fac_wf_all(L.h, G(L.old, L.inp("self"), "_channelfactory")) if n != "has-gateway"]
    return w


# ---------------------------------------------------------------------------------------------------------------------------------
# world `mr`: Message.received as a decision table - which handler runs for which frame, with which arguments
# ---------------------------------------------------------------------------------------------------------------------------------
hc = z3.Function("hc", z3.IntSort(), z3.IntSort(), z3.StringSort(), z3.BoolSort(), z3.BoolSort(), z3.StringSort(), U)   # (what, channel id, payload, sendonly, has error, error text)
K_RECV, K_CLOSE, K_NEW, K_EXEC, K_STATUS = 1, 2, 3, 4, 5
M_STATUS, M_RECONFIGURE, M_TERMINATE_, M_EXEC, M_DATA, M_CLOSE, M_CLOSE_ERROR, M_LAST = range(8)


def declare_dispatch(w):
    """The channel world, with the callees of the message handlers extended by a history variable ($hcalls on the gateway).  Message.received is then verified against
    the protocol's decision table: a frame of type T for channel id with payload p runs exactly the calls the protocol prescribes for T, with exactly those arguments
    (in particular: which string coercion pair decodes a payload, and whether a close is a half close)."""
    from .base import with_history

    declare(w)
    s = w.schema
    s.declare("BaseGateway", "$hcalls", SEQ(ANY), ghost=True)
    G = lambda h, g, n: h("BaseGateway", g, n)
    M = lambda h, m, f: h("Message", m, f)
    gw_of = w.chan_helpers["gw_of"]
    chan_of = w.chan_helpers["chan_of"]
    E = z3.StringVal("")
    F_, T_ = z3.BoolVal(False), z3.BoolVal(True)
    u2cfg1 = z3.Function("u2cfg1", U, z3.BoolSort())
    u2cfg2 = z3.Function("u2cfg2", U, z3.BoolSort())
    fac_cell = lambda a, h: ("BaseGateway", gw_of(h, a.self), "$hcalls")
    with_history(w, f"{GB}:ChannelFactory._local_receive", fac_cell, lambda a, h: hc(z3.IntVal(K_RECV), a.id, a.data, F_, F_, E))
    with_history(w, f"{GB}:ChannelFactory._local_close", fac_cell,
                 lambda a, h: hc(z3.IntVal(K_CLOSE), a.id, E, a.sendonly, a.remoteerror != 0, z3.If(a.remoteerror != 0, h("RemoteError", a.remoteerror, "formatted"), E)))
    with_history(w, f"{GB}:ChannelFactory.new", fac_cell, lambda a, h: hc(z3.IntVal(K_NEW), z3.If(a.sv("id").v[0], -1, a.sv("id").v[1].v), E, F_, F_, E))
    with_history(w, f"{GB}:BaseGateway._local_schedulexec", lambda a, h: ("BaseGateway", a.self, "$hcalls"), lambda a, h: hc(z3.IntVal(K_EXEC), h("Channel", a.channel, "id"), a.sourcetask, F_, F_, E))
    with_history(w, f"{GB}:Message._status", lambda a, h: ("BaseGateway", a.gateway, "$hcalls"), lambda a, h: hc(z3.IntVal(K_STATUS), h("Message", a.message, "channelid"), E, F_, F_, E))

    real = w.contracts[f"{GB}:Message.received"]

    def table(a, h, h2):
        g = a.gateway
        code, cid, data = M(h, a.self, "msgcode"), M(h, a.self, "channelid"), M(h, a.self, "data")
        H0, H2 = G(h, g, "$hcalls"), G(h2, g, "$hcalls")
        gcfg = h.sv("BaseGateway", g, "_strconfig")
        one = lambda e: H2 == z3.Concat(H0, z3.Unit(e))
        cfg_item = decode_item(data, gcfg.v[0].v, gcfg.v[1].v)          # RECONFIGURE payloads are decoded with the gateway's own pair
        newcfg = (u2cfg1(cfg_item), u2cfg2(cfg_item))
        g2cfg = h2.sv("BaseGateway", g, "_strconfig")
        ch2 = chan_of(h2, G(h, g, "_channelfactory"), cid)
        c2cfg = h2.sv("Channel", ch2, "_strconfig")
        errtext = u2err(decode_item(data, T_, F_))                     # an error text is always decoded with the class defaults, whatever the gateway is configured to
        return [
            z3.Implies(code == M_STATUS, one(hc(z3.IntVal(K_STATUS), cid, E, F_, F_, E))),
            z3.Implies(z3.And(code == M_RECONFIGURE, cid == 0), z3.And(H2 == H0, g2cfg.v[0].v == newcfg[0], g2cfg.v[1].v == newcfg[1])),
            z3.Implies(z3.And(code == M_RECONFIGURE, cid != 0), z3.And(one(hc(z3.IntVal(K_NEW), cid, E, F_, F_, E)), c2cfg.v[0].v == newcfg[0], c2cfg.v[1].v == newcfg[1],
                                                                      core.eq_sv(g2cfg, gcfg))),
            z3.Implies(code == M_EXEC, H2 == z3.Concat(H0, z3.Unit(hc(z3.IntVal(K_NEW), cid, E, F_, F_, E)), z3.Unit(hc(z3.IntVal(K_EXEC), cid, data, F_, F_, E)))),
            z3.Implies(code == M_DATA, one(hc(z3.IntVal(K_RECV), cid, data, F_, F_, E))),
            z3.Implies(code == M_CLOSE, one(hc(z3.IntVal(K_CLOSE), cid, E, F_, F_, E))),                       # a full close, no error
            z3.Implies(code == M_CLOSE_ERROR, one(hc(z3.IntVal(K_CLOSE), cid, E, F_, T_, errtext))),           # a full close carrying the peer's error text
            z3.Implies(code == M_LAST, one(hc(z3.IntVal(K_CLOSE), cid, E, T_, F_, E))),                        # half close: this side may still send
            z3.Implies(z3.And(code != M_RECONFIGURE), core.eq_sv(g2cfg, gcfg)),
        ]

    for cs in real.cases:
        if cs.kind == "return":
            cs.post = (lambda old: lambda a, h, h2, r: list(old(a, h, h2, r)) + table(a, h, h2))(cs.post)
    real.modifies = (lambda old: lambda a, h: list(old(a, h)) + [("BaseGateway", a.gateway, "$hcalls")])(real.modifies)
    real.split_post = True
    return w
