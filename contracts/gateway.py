"""Contracts for Gateway.remote_exec, _source_of_function, Message._channel_exec, init_popen_io (C06)."""
from __future__ import annotations

import z3

from pyvc import core
from pyvc.contracts import Case, Contract, LoopSpec
from pyvc.core import ANY, BOOL, BYTES, FUNCT, INT, MAP, NONE, NONEV, OPT, REF, SEQ, STR, SV, TUP, ExcV, U, Unsupported, mk_bool, mk_int, mk_str
from pyvc.pybuiltins import repeat
from pyvc.symexec import ExternD, ModuleD

from .base import GB, GW, slen
from .channel import M_EXEC, enc_item, item_ok
from .io import frame

TASKT = TUP(STR, OPT(STR), OPT(STR), ANY)
task2u = z3.Function("task2u", z3.StringSort(), z3.BoolSort(), z3.StringSort(), z3.BoolSort(), z3.StringSort(), U, U)   # the CHANNEL_EXEC payload tuple as an item
dedent = z3.Function("dedent", z3.StringSort(), z3.StringSort())
nlines = z3.Function("nlines", z3.StringSort(), z3.IntSort())


def ax_dedent(t):
    return [nlines(t) == nlines(t.arg(0))]    # textwrap.dedent keeps the number of lines


ax_dedent.names = ["dedent"]


def declare(w):
    """requires contracts.channel.declare(w) first."""
    s = w.schema
    w.axiom_providers.append(ax_dedent)
    G = lambda h, g, n: h("BaseGateway", g, n)
    C = lambda h, c, f: h("Channel", c, f)
    wire = lambda h, g: G(h, g, "$wire_out")
    s.declare("Function", "__name__", STR)
    s.declare("Function", "__qualname__", STR)      # the dotted path of the definition: equals __name__ only for module-level definitions ("f.<locals>.<lambda>" for a nested lambda)
    s.declare("Function", "$has_closure", BOOL, ghost=True)
    s.declare("Function", "$first_arg", OPT(STR), ghost=True)       # name of the first positional parameter, if any
    s.declare("Function", "$source", OPT(STR), ghost=True)          # inspect.getsource(f), None if unavailable
    s.declare("Function", "$firstlineno", INT, ghost=True)
    s.declare("Function", "$nonbuiltin_globals", BOOL, ghost=True)  # _find_non_builtin_globals(dedent(source), code) is non-empty
    s.declare("Function", "$sourcefile", OPT(STR), ghost=True)
    s.set_bases("Function", ["object"])

    def co_task(val, ty):
        if ty == ANY and val.ty.kind == "tuple" and len(val.v) == 4 and val.v[0].ty.kind == "str":
            f = lambda o: (o.v[0] if o.ty.kind == "opt" else z3.BoolVal(o.ty.kind == "none"), (o.v[1].v if o.ty.kind == "opt" else (o.v if o.ty.kind == "str" else z3.StringVal(""))))
            (n1, s1), (n2, s2) = f(val.v[1]), f(val.v[2])
            return SV(ANY, task2u(val.v[0].v, n1, s1, n2, s2, core.coerce(val.v[3], ANY).v))
        return None

    co_task.__name__ = "co_task"
    core.COERCE_HOOKS[:] = [h for h in core.COERCE_HOOKS if getattr(h, "__name__", "") != "co_task"] + [co_task]

    # ---- newchannel / the pieces of inspect & textwrap (trusted) ---------------------------------------------------
    w.add(Contract(f"{GB}:BaseGateway.newchannel", {"self": REF("BaseGateway")},
                   modifies=lambda a, h: [("ChannelFactory", G(h, a.self, "_channelfactory"), "_channels"), ("ChannelFactory", G(h, a.self, "_channelfactory"), "count")],
                   cases=[Case("ok", restype=REF("Channel"), post=lambda a, h, h2, r: [r != 0, C(h2, r, "gateway") == a.self, C(h2, r, "id") >= -2**31, C(h2, r, "id") <= 2**31 - 1,
                                                                                      z3.Not(h("object", r, "$alloc"))]),
                          Case("connection-closed", "raise", "OSError")], trusted=True, allocates=True, note="ChannelFactory.new() without id (C18); ids fit the frame header (count < 2**31 assumed)"))
    w.externals["textwrap.dedent"] = lambda ex, args, kwargs, st, sink, node: iter([(st, SV(STR, dedent(args[0].v)))])
    w.externals["textwrap"] = None
    w.externals["inspect.getsourcefile"] = lambda ex, args, kwargs, st, sink, node: iter([(st, st.heap.get(args[0], "$sourcefile"))])

    def getsource(ex, args, kwargs, st, sink, node):
        src = st.heap.get(args[0], "$source")
        for s2, none in ex.fork(st, src.v[0]):
            if none:
                ex.raise_(s2, sink, "OSError", origin="inspect.getsource")
            else:
                yield s2, src.v[1]

    w.externals["inspect.getsource"] = getsource

    def getfullargspec(ex, args, kwargs, st, sink, node):
        yield st, SV(REF("ArgSpec"), args[0].v)   # the spec of f is represented by f itself

    w.externals["inspect.getfullargspec"] = getfullargspec
    s.set_bases("ArgSpec", ["object"])

    more_params = z3.Function("more_params", z3.IntSort(), z3.SeqSort(z3.StringSort()))   # the parameter names after the first one (any)

    def argspec_args(ex, st, recv):
        fa = st.heap.get(SV(REF("Function"), recv.v), "$first_arg")
        return SV(SEQ(STR), z3.If(fa.v[0], z3.Empty(z3.SeqSort(z3.StringSort())), z3.Concat(z3.Unit(fa.v[1].v), more_params(recv.v))))

    w.attr_hooks[("ArgSpec", "args")] = argspec_args
    # inspect.signature(f).parameters: the same names, as a mapping (only membership and order are modelled)
    w.externals["inspect.signature"] = getfullargspec
    w.attr_hooks[("ArgSpec", "parameters")] = argspec_args
    w.attr_hooks[("Function", "__closure__")] = lambda ex, st, recv: SV(OPT(INT), (z3.Not(st.heap.get(recv, "$has_closure").v), core.mk_int(1)))
    w.attr_hooks[("Function", "__code__")] = lambda ex, st, recv: SV(REF("Code"), recv.v)
    s.set_bases("Code", ["object"])
    # co_names: the names the OUTER code object refers to - says nothing about nested defs / lambdas / class bodies (any tuple of names)
    w.attr_hooks[("Code", "co_names")] = lambda ex, st, recv: SV(SEQ(STR), z3.Function("co_names", z3.IntSort(), z3.SeqSort(z3.StringSort()))(recv.v))
    w.attr_hooks[("Code", "co_firstlineno")] = lambda ex, st, recv: st.heap.get(SV(REF("Function"), recv.v), "$firstlineno")

    w.add(Contract(f"{GW}:_find_non_builtin_globals", {"source": STR, "codeobj": REF("Code")},
                   cases=[Case("ok", restype=SEQ(STR), post=lambda a, h, h2, r: [(slen(r) > 0) == h("Function", a.codeobj, "$nonbuiltin_globals")])], trusted=True,
                   note="purity analysis: its soundness for all programs is NOT decided (needs a formal semantics of Python scoping); bounded enumeration stand-in"))

    # ---- _source_of_function ---------------------------------------------------------------------------------------------
    Fn = lambda h, f, n: h("Function", f, n)
    LAMBDA = z3.StringVal("<lambda>")
    CH = z3.StringVal("channel")

    def rejected(a, h):
        f = a.function
        fa = h.sv("Function", f, "$first_arg")
        src = h.sv("Function", f, "$source")
        return z3.Or(Fn(h, f, "__name__") == LAMBDA, fa.v[0], fa.v[1].v != CH, Fn(h, f, "$has_closure"), src.v[0], Fn(h, f, "$nonbuiltin_globals"))

    def sof_post(a, h, h2, r):
        f = a.function
        src = h.sv("Function", f, "$source")
        # the def line of the shipped text gets line number co_firstlineno: that many - 1 newlines are put in front
        return [r == z3.Concat(repeat(z3.StringVal("\n"), Fn(h, f, "$firstlineno") - 1), dedent(src.v[1].v))]

    w.add(Contract(f"{GW}:_source_of_function", {"function": REF("Function")},
                   requires=lambda a, h: [("function-not-none", a.function != 0)],
                   cases=[Case("ok", restype=STR, when=lambda a, h: z3.Not(rejected(a, h)), post=sof_post),
                          Case("rejected", "raise", "ValueError", when=rejected)], props=["C06"]))
    declare_remote_exec(w)
    declare_init_popen_io(w)
    return w


def declare_remote_exec(w):
    s = w.schema
    G = lambda h, g, n: h("BaseGateway", g, n)
    C = lambda h, c, f: h("Channel", c, f)
    wire = lambda h, g: G(h, g, "$wire_out")
    Fn = lambda h, f, n: h("Function", f, n)
    s.set_bases("Gateway", ["BaseGateway", "object"])
    kwargs_empty = z3.Function("kwargs_empty", U, z3.BoolSort())
    w.call_hooks[("truth", "any")] = None

    # isinstance(source, types.ModuleType / types.FunctionType) for the two kinds of `source` we verify
    def isinstance_ref(ex, v, names):
        if v.ty.cls == "Function":
            return z3.And(v.v != 0, z3.BoolVal("types.FunctionType" in names))
        if v.ty.cls == "PyModule":
            return z3.And(v.v != 0, z3.BoolVal("types.ModuleType" in names))
        return None

    w.call_hooks[("isinstance", "ref")] = isinstance_ref
    w.externals["types.ModuleType"] = SV(FUNCT, ExternD("types.ModuleType"))
    w.externals["types.FunctionType"] = SV(FUNCT, ExternD("types.FunctionType"))
    from pyvc.symexec import truthy_any

    def exec_frame(g, cid, source, fname_none, fname, cname_none, cname, kw):
        return frame(z3.IntVal(M_EXEC), cid, enc_item(task2u(source, fname_none, fname, cname_none, cname, kw)))

    def sent_one(a, h, h2, r, payload):
        g = a.self
        return [r != 0, C(h2, r, "gateway") == g, z3.Not(h("object", r, "$alloc")),
                wire(h2, g) == z3.Concat(wire(h, g), z3.Unit(frame(z3.IntVal(M_EXEC), C(h2, r, "id"), payload)))]    # exactly one CHANNEL_EXEC frame, for the returned channel's id

    nothing_sent = lambda a, h, h2, e: [wire(h2, a.self) == wire(h, a.self)]
    REMOD = lambda a, h: [("BaseGateway", a.self, "$wire_out"), ("ChannelFactory", G(h, a.self, "_channelfactory"), "_channels"), ("ChannelFactory", G(h, a.self, "_channelfactory"), "count")]

    # source is a string
    def str_payload(a, h):
        return enc_item(task2u(dedent(a.source), z3.BoolVal(True), z3.StringVal(""), z3.BoolVal(True), z3.StringVal(""), a.kwargs))

    w.add(Contract(f"{GW}:Gateway.remote_exec", {"self": REF("Gateway"), "source": STR},
                   cases=[Case("sent", restype=REF("Channel"), when=lambda a, h: z3.And(z3.Not(truthy_any(a.kwargs)), item_ok(task2u(dedent(a.source), z3.BoolVal(True), z3.StringVal(""), z3.BoolVal(True), z3.StringVal(""), a.kwargs))),
                               post=lambda a, h, h2, r: sent_one(a, h, h2, r, str_payload(a, h))),
                          Case("kwargs-without-function", "raise", "TypeError", when=lambda a, h: truthy_any(a.kwargs), post=nothing_sent),
                          Case("unserialisable", "raise", "DumpError", post=nothing_sent),
                          Case("connection-closed", "raise", "OSError", post=nothing_sent)],     # from newchannel or from _send: in both cases nothing was appended
                   modifies=REMOD, props=["C06"], allocates=True), variant="string")

    # source is a (pure) function
    def fn_rejected(a, h):
        f = a.source
        fa = h.sv("Function", f, "$first_arg")
        src = h.sv("Function", f, "$source")
        return z3.Or(Fn(h, f, "__name__") == z3.StringVal("<lambda>"), fa.v[0], fa.v[1].v != z3.StringVal("channel"), Fn(h, f, "$has_closure"), src.v[0], Fn(h, f, "$nonbuiltin_globals"))

    def fn_payload(a, h):
        f = a.source
        src = h.sv("Function", f, "$source")
        text = z3.Concat(repeat(z3.StringVal("\n"), Fn(h, f, "$firstlineno") - 1), dedent(src.v[1].v))
        sf = h.sv("Function", f, "$sourcefile")
        return enc_item(task2u(text, sf.v[0], sf.v[1].v, z3.BoolVal(False), Fn(h, f, "__name__"), a.kwargs))

    w.add(Contract(f"{GW}:Gateway.remote_exec", {"self": REF("Gateway"), "source": REF("Function")},
                   requires=lambda a, h: [("function-not-none", a.source != 0), ("function-has-a-name", slen(Fn(h, a.source, "__name__")) > 0)],
                   cases=[Case("sent", restype=REF("Channel"), when=lambda a, h: z3.Not(fn_rejected(a, h)), post=lambda a, h, h2, r: sent_one(a, h, h2, r, fn_payload(a, h))),
                          # closures, non-builtin globals, lambdas, wrong first parameter, no source: refused locally, before anything is sent
                          Case("not-a-pure-function", "raise", "ValueError", when=fn_rejected, post=nothing_sent),
                          Case("unserialisable-kwargs", "raise", "DumpError", post=nothing_sent),
                          Case("connection-closed", "raise", "OSError", post=nothing_sent)],
                   modifies=REMOD, props=["C06"], allocates=True), variant="function")

    # Gateway.reconfigure: the gateway-wide coercion pair is recorded and announced with channel id 0 (C12)
    from .channel import M_RECONFIGURE, cfg2u

    def grc_post(a, h, h2, r):
        cfg = h2.sv("BaseGateway", a.self, "_strconfig")
        return [cfg.v[0].v == a.py2str_as_py3str, cfg.v[1].v == a.py3str_as_py2str,
                wire(h2, a.self) == z3.Concat(wire(h, a.self), z3.Unit(frame(z3.IntVal(M_RECONFIGURE), z3.IntVal(0), enc_item(cfg2u(a.py2str_as_py3str, a.py3str_as_py2str)))))]

    w.add(Contract(f"{GW}:Gateway.reconfigure", {"self": REF("Gateway"), "py2str_as_py3str": BOOL, "py3str_as_py2str": BOOL}, defaults={"py2str_as_py3str": True, "py3str_as_py2str": False},
                   modifies=lambda a, h: [("BaseGateway", a.self, "_strconfig"), ("BaseGateway", a.self, "$wire_out")],
                   cases=[Case("ok", post=grc_post), Case("cannot-send", "raise", "OSError", post=lambda a, h, h2, e: [wire(h2, a.self) == wire(h, a.self)])], props=["C12"]))

    # source is a module: the text that is sent is the CURRENT content of its file, also when an older version of that file was run before.
    # linecache (ghost object LC, one per process): text cached per file name, and whether the cached size/mtime still equal the file's
    s.set_bases("PyModule", ["object"])
    s.set_bases("LineCache", ["object"])
    s.declare("PyModule", "$sourcefile", STR, ghost=True)
    s.declare("LineCache", "$cached", MAP(STR, STR), ghost=True)        # file name -> text held by linecache (present = there is an entry)
    s.declare("LineCache", "$statsame", MAP(STR, BOOL), ghost=True)     # the entry's recorded size and mtime equal those of the file now
    s.declare("LineCache", "$file", MAP(STR, STR), ghost=True)          # the file's content now
    LC = SV(REF("LineCache"), z3.IntVal(1))
    lc = lambda h, f: h.sv("LineCache", z3.IntVal(1), f)
    cached_p = lambda h, fn: z3.Select(lc(h, "$cached").v[0], fn)
    cached_t = lambda h, fn: z3.Select(lc(h, "$cached").v[1][0], fn)
    statsame = lambda h, fn: z3.Select(lc(h, "$statsame").v[1][0], fn)
    filetext = lambda h, fn: z3.Select(lc(h, "$file").v[1][0], fn)

    def lc_set(ex, st, present_fn, text_fn):
        m = st.heap.get(LC, "$cached")
        ex.set_field(st, LC, "$cached", SV(m.ty, (present_fn(m.v[0]), [text_fn(m.v[1][0])])))

    def updatecache(ex, args, kwargs, st, sink, node):
        fn = core.coerce(args[0], STR).v
        from pyvc.contracts import HeapView
        hv = HeapView(st.heap, st.held)
        ft = filetext(hv, fn)
        lc_set(ex, st, lambda p: z3.Store(p, fn, True), lambda t: z3.Store(t, fn, ft))      # re-reads the file unconditionally
        ss = st.heap.get(LC, "$statsame")
        ex.set_field(st, LC, "$statsame", SV(ss.ty, (ss.v[0], [z3.Store(ss.v[1][0], fn, True)])))
        yield st, core.fresh(ANY, "lines")

    def checkcache(ex, args, kwargs, st, sink, node):
        fn = core.coerce(args[0], STR).v
        from pyvc.contracts import HeapView
        hv = HeapView(st.heap, st.held)
        same = statsame(hv, fn)
        lc_set(ex, st, lambda p: z3.Store(p, fn, z3.And(z3.Select(p, fn), same)), lambda t: t)   # drops the entry only when size or mtime changed
        yield st, NONEV

    def getsource_any(ex, args, kwargs, st, sink, node):
        v = args[0]
        if v.ty.kind == "ref" and v.ty.cls == "PyModule":
            from pyvc.contracts import HeapView
            hv = HeapView(st.heap, st.held)
            fn = st.heap.get(v, "$sourcefile").v
            # inspect.getsource -> linecache.getlines: checkcache first, then the cached text if there still is an entry, else the file
            use_cache = z3.And(cached_p(hv, fn), statsame(hv, fn))
            yield st, SV(STR, z3.If(use_cache, cached_t(hv, fn), filetext(hv, fn)))
            return
        yield from getsource(ex, args, kwargs, st, sink, node)

    getsource = w.externals["inspect.getsource"]
    w.externals["inspect.getsource"] = getsource_any
    old_gsf = w.externals["inspect.getsourcefile"]
    w.externals["inspect.getsourcefile"] = lambda ex, args, kwargs, st, sink, node: (iter([(st, SV(STR, st.heap.get(args[0], "$sourcefile").v))]) if args[0].ty.kind == "ref" and args[0].ty.cls == "PyModule"
                                                                                     else old_gsf(ex, args, kwargs, st, sink, node))
    w.externals["linecache.updatecache"] = updatecache
    w.externals["linecache.checkcache"] = checkcache

    def mod_payload(a, h):
        fn = h("PyModule", a.source, "$sourcefile")
        return enc_item(task2u(filetext(h, fn), z3.BoolVal(False), fn, z3.BoolVal(True), z3.StringVal(""), a.kwargs))

    w.add(Contract(f"{GW}:Gateway.remote_exec", {"self": REF("Gateway"), "source": REF("PyModule")},
                   requires=lambda a, h: [("module-not-none", a.source != 0)],
                   cases=[Case("sent", restype=REF("Channel"), when=lambda a, h: z3.Not(truthy_any(a.kwargs)), post=lambda a, h, h2, r: sent_one(a, h, h2, r, mod_payload(a, h))),
                          Case("kwargs-without-function", "raise", "TypeError", when=lambda a, h: truthy_any(a.kwargs), post=nothing_sent),
                          Case("unserialisable", "raise", "DumpError", post=nothing_sent),
                          Case("connection-closed", "raise", "OSError", post=nothing_sent)],
                   modifies=lambda a, h: REMOD(a, h) + [("LineCache", z3.IntVal(1), "$cached"), ("LineCache", z3.IntVal(1), "$statsame")], props=["C06"], allocates=True), variant="module")
    return w


def declare_init_popen_io(w):
    """init_popen_io over an abstract file-descriptor table (ghost state of the process)."""
    s = w.schema
    s.set_bases("Proc", ["object"])
    s.set_bases("File", ["object"])
    s.set_bases("Desc", ["object"])
    s.declare("Proc", "$fdtable", MAP(INT, INT), ghost=True)     # fd -> open file description
    s.declare("Proc", "$devnull", core.SETT(INT), ghost=True)    # descriptions that are os.devnull
    s.declare("Proc", "$sys_stdin", REF("File"), ghost=True)
    s.declare("Proc", "$sys_stdout", REF("File"), ghost=True)
    s.declare("File", "$fd", INT, ghost=True)
    s.declare("File", "$desc", INT, ghost=True)                  # the description the file object reads/writes
    s.declare("File", "$closefd", BOOL, ghost=True)
    s.declare("Popen2IO", "infile", REF("File"))
    s.declare("Popen2IO", "outfile", REF("File"))
    s.declare("Popen2IO", "execmodel", REF("ExecModel"))
    PROC = SV(REF("Proc"), z3.IntVal(1))   # the one process
    w.alloc_base = 2

    def table(st):
        return st.heap.get(PROC, "$fdtable")

    def set_table(ex, st, pres, vals):
        t = table(st)
        ex.set_field(st, PROC, "$fdtable", SV(t.ty, (pres, [vals])))

    def os_dup(ex, args, kwargs, st, sink, node):
        fd = core.coerce(args[0], INT).v
        t = table(st)
        for s2, ok in ex.fork(st, z3.Select(t.v[0], fd)):
            if not ok:
                ex.raise_(s2, sink, "OSError", origin="os.dup(bad fd)")
                continue
            n = z3.Int(core.fresh_name("newfd"))
            t2 = table(s2)
            s2.assume(n >= 3, z3.Not(z3.Select(t2.v[0], n)))     # a descriptor that was not in use (0, 1, 2 are in use: precondition)
            set_table(ex, s2, z3.Store(t2.v[0], n, True), z3.Store(t2.v[1][0], n, z3.Select(t2.v[1][0], fd)))
            yield s2, mk_int(n)

    def os_open(ex, args, kwargs, st, sink, node):
        t = table(st)
        n = z3.Int(core.fresh_name("newfd"))
        d = ex.allocate(st, "Desc").v     # a new open file description, distinct from every existing one
        st.assume(n >= 3, z3.Not(z3.Select(t.v[0], n)))
        dn = st.heap.get(PROC, "$devnull")
        ex.set_field(st, PROC, "$devnull", SV(dn.ty, z3.Store(dn.v, d, True)))   # the path is os.devnull (checked by the caller of this model)
        set_table(ex, st, z3.Store(t.v[0], n, True), z3.Store(t.v[1][0], n, d))
        yield st, mk_int(n)

    def os_dup2(ex, args, kwargs, st, sink, node):
        a, b = core.coerce(args[0], INT).v, core.coerce(args[1], INT).v
        t = table(st)
        set_table(ex, st, z3.Store(t.v[0], b, True), z3.Store(t.v[1][0], b, z3.Select(t.v[1][0], a)))
        yield st, NONEV

    def os_close(ex, args, kwargs, st, sink, node):
        a = core.coerce(args[0], INT).v
        t = table(st)
        set_table(ex, st, z3.Store(t.v[0], a, False), t.v[1][0])
        yield st, NONEV

    def fdopen(ex, args, kwargs, st, sink, node):
        em, fd = args[0], core.coerce(args[1], INT).v
        f = ex.allocate(st, "File")
        t = table(st)
        ex.set_field(st, f, "$fd", mk_int(fd))
        ex.set_field(st, f, "$desc", mk_int(z3.Select(t.v[1][0], fd)))
        ex.set_field(st, f, "$closefd", kwargs.get("closefd", mk_bool(True)))
        yield st, f

    w.externals.update({"os.dup": os_dup, "os.open": os_open, "os.dup2": os_dup2, "os.close": os_close, "os.devnull": mk_str("/dev/null"),
                        "os.O_RDONLY": mk_int(0), "os.O_WRONLY": mk_int(1), "execmodel.fdopen": fdopen})
    w.attr_hooks[("ExecModel", "fdopen")] = lambda ex, st, recv: SV(FUNCT, ExternD("execmodel.fdopen", bound=recv))

    def set_sys(ex, recv, attr, v, st, sink):
        if isinstance(recv.v, ModuleD) and recv.v.name == "sys" and attr in ("stdin", "stdout"):
            ex.set_field(st, PROC, "$sys_" + attr, v)
            return [st]
        raise Unsupported(f"assignment to {attr} of a module")

    w.call_hooks[("setattr", "func")] = set_sys

    def ipi_post(a, h, h2, r):
        t0, t2 = h.sv("Proc", 1, "$fdtable"), h2.sv("Proc", 1, "$fdtable")
        d = lambda t, fd: z3.Select(t.v[1][0], fd)
        dn2 = h2("Proc", 1, "$devnull")
        return [r != 0,
                # the protocol reads the ORIGINAL fd 0 and writes the ORIGINAL fd 1 (through duplicates)
                h2("File", h2("Popen2IO", r, "infile"), "$desc") == d(t0, 0), h2("File", h2("Popen2IO", r, "outfile"), "$desc") == d(t0, 1),
                h2("File", h2("Popen2IO", r, "infile"), "$fd") >= 3, h2("File", h2("Popen2IO", r, "outfile"), "$fd") >= 3,
                # fds 0 and 1 now refer to os.devnull: nothing the remote code prints or reads touches the protocol
                z3.Select(t2.v[0], 0), z3.Select(t2.v[0], 1), z3.Select(dn2, d(t2, 0)), z3.Select(dn2, d(t2, 1)),
                d(t2, 0) != d(t0, 0), d(t2, 1) != d(t0, 1),
                # stderr untouched
                z3.Select(t2.v[0], 2), d(t2, 2) == d(t0, 2),
                # sys.stdin / sys.stdout wrap fds 0 / 1 without owning them
                h2("File", h2("Proc", 1, "$sys_stdin"), "$fd") == 0, h2("File", h2("Proc", 1, "$sys_stdout"), "$fd") == 1,
                z3.Not(h2("File", h2("Proc", 1, "$sys_stdin"), "$closefd")), z3.Not(h2("File", h2("Proc", 1, "$sys_stdout"), "$closefd"))]

    def ipi_req(a, h):
        t0 = h.sv("Proc", 1, "$fdtable")
        dn = h("Proc", 1, "$devnull")
        d = lambda fd: z3.Select(t0.v[1][0], fd)
        return [("model-not-none", a.execmodel != 0), ("std-fds-open", z3.And(z3.Select(t0.v[0], 0), z3.Select(t0.v[0], 1), z3.Select(t0.v[0], 2))),
                ("protocol-pipes-are-not-devnull", z3.And(z3.Not(z3.Select(dn, d(0))), z3.Not(z3.Select(dn, d(1))))),
                ("proc-object", h("object", 1, "$alloc")),
                ("existing-descriptions-exist", z3.And(h("object", d(0), "$alloc"), h("object", d(1), "$alloc"), h("object", d(2), "$alloc")))]

    w.add(Contract(f"{GB}:Popen2IO.__init__", {"self": REF("Popen2IO"), "outfile": REF("File"), "infile": REF("File"), "execmodel": REF("ExecModel")},
                   modifies=lambda a, h: [("Popen2IO", a.self, f) for f in ("infile", "outfile", "execmodel")],
                   cases=[Case("ok", post=lambda a, h, h2, r: [h2("Popen2IO", a.self, "infile") == a.infile, h2("Popen2IO", a.self, "outfile") == a.outfile])], trusted=True,
                   note="Popen2IO.__init__ stores the two files (and binds _read/_write: static obligation in C08)"))
    w.add(Contract(f"{GB}:init_popen_io", {"execmodel": REF("ExecModel")}, requires=ipi_req,
                   modifies=lambda a, h: [("Proc", z3.IntVal(1), f) for f in ("$fdtable", "$devnull", "$sys_stdin", "$sys_stdout")],
                   cases=[Case("ok", restype=REF("Popen2IO"), post=ipi_post), Case("os-error", "raise", "OSError")], props=["C06"], allocates=True,
                   probes=None))
    return w
