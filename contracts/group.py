"""Contracts on the terminate path (C05): safe_terminate and its termkill closure, Group.terminate and its join_wait/kill closures,
Gateway.exit, Group._unregister, Popen2IOMaster.wait/kill, the control requests of ProxyIO, and the failure paths of Group.makegateway.

Time is a ghost clock (contracts.terminate.declare_clock): a wait with a numeric timeout t advances it by at most t, a wait without
time bound sets $unbounded; non-blocking code costs nothing (epsilon, assumption).  Tasks spawned into a WorkerPool run concurrently:
a Reply carries the absolute ghost deadline by which its task has finished when that is known (termkill: spawn time + timeout when its
killfunc is prompt).  A callable is a ghost object Fn with monotone flags $returned (it returned normally at least once) and $called.
"""
from __future__ import annotations

import z3

from pyvc import core
from pyvc.contracts import Args, Case, Contract, LoopSpec
from pyvc.core import ANY, BOOL, BYTES, FUNCT, INT, NONE, NONEV, OPT, REF, SEQ, STR, SV, TUP, ExcV, U, Unsupported, mk_bool, mk_int, mk_str
from pyvc.symexec import ExternD, FuncD

from .base import GB, GIO, GW, MULTI, slen
from .terminate import PROC, clock, declare_clock

fnobj = z3.Function("fnobj", U, z3.IntSort())       # the ghost Fn object of a callable value
ST = f"{MULTI}:safe_terminate"
J5 = z3.Int("J5")                                    # an arbitrary but fixed position in a list of pairs / gateways
CLK = [("Proc", PROC, "$clock"), ("Proc", PROC, "$unbounded")]


def unb(h):
    return h("Proc", PROC, "$unbounded")


def numeric(t):
    """t: SV of OPT(INT) -> (is a number, its value)"""
    return z3.Not(t.v[0]), t.v[1].v


def declare_fn(w):
    s = w.schema
    declare_clock(w)
    s.set_bases("Fn", ["object"])
    s.declare("Fn", "$returned", BOOL, ghost=True)
    s.declare("Fn", "$called", BOOL, ghost=True)
    s.declare("Fn", "$prompt", BOOL, ghost=True)     # a call returns or raises without blocking (immutable)
    s.declare("Reply", "$func", ANY, ghost=True)
    s.declare("Reply", "$a1", ANY, ghost=True)
    s.declare("Reply", "$a2", ANY, ghost=True)
    s.declare("Reply", "$kind", INT, ghost=True)          # 0: plain task, 1: termkill(a1, a2)
    s.declare("Reply", "$has_deadline", BOOL, ghost=True)
    s.declare("Reply", "$deadline", INT, ghost=True)
    s.declare("Reply", "$finished", BOOL, ghost=True)     # known to have finished (observed by a wait)
    s.declare("WorkerPool", "execmodel", REF("ExecModel"))
    s.declare("WorkerPool", "$timeout", OPT(INT), ghost=True)   # safe_terminate's timeout as seen by the termkill tasks of this pool
    s.declare("WorkerPool", "$all_deadlines", BOOL, ghost=True)  # every task spawned so far has a deadline ...
    s.declare("WorkerPool", "$maxdeadline", INT, ghost=True)     # ... no later than this
    return w


FN = lambda h, u, f: h("Fn", fnobj(u), f)


def mono(h, h2):
    """interference by the concurrently running tasks: flags of callables only ever become true (for the fixed callable objects Q1, Q2)"""
    out = []
    for q in (z3.Int("Q1"), z3.Int("Q2")):
        out += [z3.Implies(h("Fn", q, "$returned"), h2("Fn", q, "$returned")), z3.Implies(h("Fn", q, "$called"), h2("Fn", q, "$called"))]
    return out


def mono_all(h, h2):
    q = z3.Int("qf")
    return [z3.ForAll([q], z3.And(z3.Implies(h("Fn", q, "$returned"), h2("Fn", q, "$returned")), z3.Implies(h("Fn", q, "$called"), h2("Fn", q, "$called"))),
                      patterns=[h2("Fn", q, "$returned"), h2("Fn", q, "$called")])]


def both(fn):
    """post and post_assume of a case from one function fn(a, h, h2, res, M): M is mono (fixed Q1, Q2: proved) or mono_all (quantified: assumed at call sites)"""
    return dict(post=lambda a, h, h2, r: fn(a, h, h2, r, mono), post_assume=lambda a, h, h2, r: fn(a, h, h2, r, mono_all))


def declare_termkill(w):
    """safe_terminate.termkill(termfunc, killfunc): closure over workerpool and timeout."""
    declare_fn(w)
    s = w.schema
    FNMOD = [("Fn", None, "$returned"), ("Fn", None, "$called")]

    # workerpool.spawn(func, *args): *args cannot be bound mechanically, the call is modelled (C09 decides the pool)
    def spawn_call(ex, args, kwargs, st, sink, node):
        pool, func, *rest = args
        from pyvc.contracts import HeapView
        h0 = HeapView(st.heap.copy(), st.held)
        r = ex.allocate(st, "Reply")
        fu = core.coerce(func, ANY) if func.ty.kind != "func" else SV(ANY, z3.Const(core.fresh_name("fnval_" + getattr(func.v, "qualname", "f").split(".")[-1]), U))
        st.heap.set(r, "$func", fu)
        st.heap.set(r, "$finished", mk_bool(False))
        is_tk = func.ty.kind == "func" and getattr(func.v, "qualname", "") == "safe_terminate.termkill"
        st.heap.set(r, "$kind", mk_int(1 if is_tk else 0))
        if is_tk:
            a1, a2 = (core.coerce(x, ANY) for x in rest)
            st.heap.set(r, "$a1", a1)
            st.heap.set(r, "$a2", a2)
            t = st.heap.get(pool, "$timeout")
            isnum, tv = numeric(t)
            has = z3.And(isnum, h0("Fn", fnobj(a2.v), "$prompt"))
            st.heap.set(r, "$has_deadline", SV(BOOL, has))
            st.heap.set(r, "$deadline", SV(INT, clock(h0) + tv))
        else:
            st.heap.set(r, "$has_deadline", mk_bool(False))
        hd, dl = st.heap.get(r, "$has_deadline").v, st.heap.get(r, "$deadline").v
        st.heap.set(pool, "$all_deadlines", SV(BOOL, z3.And(h0("WorkerPool", pool.v, "$all_deadlines"), hd)))
        st.heap.set(pool, "$maxdeadline", SV(INT, z3.If(z3.And(hd, dl > h0("WorkerPool", pool.v, "$maxdeadline")), dl, h0("WorkerPool", pool.v, "$maxdeadline"))))
        yield st, r

    w.externals["c05.spawn"] = spawn_call
    w.attr_hooks[("WorkerPool", "spawn")] = lambda ex, st, recv: SV(FUNCT, ExternD("c05.spawn", bound=recv))

    # Reply.get(timeout) / Reply.waitfinish(timeout): C09; timing per the ghost deadline
    def waited(a, h, h2, bound_by_deadline=True):
        t = a.sv("timeout")
        isnum, tv = numeric(t)
        dl, has = h("Reply", a.self, "$deadline"), h("Reply", a.self, "$has_deadline")
        fin = h("Reply", a.self, "$finished")
        return [clock(h2) >= clock(h),
                z3.Implies(fin, z3.And(clock(h2) == clock(h), unb(h2) == unb(h))),
                z3.Implies(z3.And(z3.Not(fin), isnum), z3.And(clock(h2) <= clock(h) + tv, unb(h2) == unb(h))),
                z3.Implies(z3.And(z3.Not(fin), has), z3.And(clock(h2) <= z3.If(dl > clock(h), dl, clock(h)), unb(h2) == unb(h))),
                z3.Implies(z3.And(z3.Not(fin), z3.Not(isnum), z3.Not(has)), unb(h2))]

    def task_effect(a, h, h2):
        """what a finished task has done: a termkill task saw its termfunc return or called its killfunc"""
        r = a.self
        return z3.Implies(h("Reply", r, "$kind") == 1,
                          z3.Or(FN(h2, h("Reply", r, "$a1"), "$returned"), FN(h2, h("Reply", r, "$a2"), "$called")))

    def timed_out(a, h):
        t = a.sv("timeout")
        isnum, tv = numeric(t)
        dl, has = h("Reply", a.self, "$deadline"), h("Reply", a.self, "$has_deadline")
        # a timeout needs a number, an unfinished task, and no deadline that falls inside the wait
        return z3.And(isnum, z3.Not(h("Reply", a.self, "$finished")), z3.Not(z3.And(has, dl <= clock(h) + tv)))

    RMOD = lambda a, h: CLK + FNMOD + [("Reply", a.self, "$finished")]
    plain_done = lambda a, h, h2: z3.Implies(h("Reply", a.self, "$kind") == 0, FN(h2, h("Reply", a.self, "$func"), "$returned"))
    for name in ("get", "waitfinish"):
        cases = [Case("finished", **both(lambda a, h, h2, r, M: waited(a, h, h2) + M(h, h2) + [h2("Reply", a.self, "$finished"), plain_done(a, h, h2)])),
                 Case("timeout", "raise", "OSError", when=timed_out,
                      **both(lambda a, h, h2, e, M: waited(a, h, h2) + M(h, h2) + [h2("Reply", a.self, "$finished") == h("Reply", a.self, "$finished")]))]
        if name == "get":
            cases[0] = Case("result", restype=ANY, **both(lambda a, h, h2, r, M: waited(a, h, h2) + M(h, h2) + [h2("Reply", a.self, "$finished"), task_effect(a, h, h2), plain_done(a, h, h2)]))
            cases += [Case("task-raised-oserror", "raise", "OSError", **both(lambda a, h, h2, e, M: waited(a, h, h2) + M(h, h2) + [h2("Reply", a.self, "$finished")])),
                      Case("task-raised", "raise", "BaseException", excluding=("OSError",), **both(lambda a, h, h2, e, M: waited(a, h, h2) + M(h, h2) + [h2("Reply", a.self, "$finished")]))]
        w.add(Contract(f"{GB}:Reply.{name}", {"self": REF("Reply"), "timeout": OPT(INT)}, defaults={"timeout": None}, modifies=RMOD, cases=cases, trusted=True,
                       note="C09: get()/waitfinish() return once the task has finished, raise OSError('timeout...') after a numeric timeout, get() re-raises the task's exception; "
                            "timing by the ghost deadline of the task; flags of callables are monotone under the concurrently running tasks"))

    # calling an opaque callable value
    def call_post(a, h, h2, r, M):
        f = fnobj(a.f)
        return [h2("Fn", f, "$called"), h2("Fn", f, "$returned"), clock(h2) >= clock(h),
                z3.If(h("Fn", f, "$prompt"), z3.And(clock(h2) == clock(h), unb(h2) == unb(h)), unb(h2))] + M(h, h2)

    def call_raise(a, h, h2, e, M):
        f = fnobj(a.f)
        return [h2("Fn", f, "$called"), clock(h2) >= clock(h), z3.If(h("Fn", f, "$prompt"), z3.And(clock(h2) == clock(h), unb(h2) == unb(h)), unb(h2))] + M(h, h2)

    w.add(Contract("model:call-opaque", {"f": ANY}, modifies=lambda a, h: CLK + FNMOD,
                   cases=[Case("returns", restype=ANY, **both(call_post)), Case("raises", "raise", "BaseException", **both(call_raise))], trusted=True,
                   note="an opaque callable (termfunc/killfunc of a pair): may do anything to its own objects; takes no time iff its ghost $prompt holds"))
    w.call_hooks[("call", "any")] = lambda ex, callee, args, kwargs, st, sink, node: ex.apply_contract(w.contracts["model:call-opaque"], [callee], {}, st, sink, node)

    def tk_post(a, h, h2, r, M):
        isnum, tv = numeric(a.sv("timeout"))
        return [z3.Or(FN(h2, a.termfunc, "$returned"), FN(h2, a.killfunc, "$called")),
                z3.Implies(z3.And(isnum, FN(h, a.killfunc, "$prompt")), z3.And(clock(h2) <= clock(h) + tv, unb(h2) == unb(h)))] + M(h, h2)

    def tk_raise(a, h, h2, e, M):
        isnum, tv = numeric(a.sv("timeout"))
        return [z3.Implies(z3.And(isnum, FN(h, a.killfunc, "$prompt")), z3.And(clock(h2) <= clock(h) + tv, unb(h2) == unb(h)))] + M(h, h2)

    c = w.add(Contract(f"{ST}.termkill", {"termfunc": ANY, "killfunc": ANY},
                       requires=lambda a, h: [("pool", a.workerpool != 0), ("pool-timeout-is-the-closure-timeout", core.eq_sv(h.sv("WorkerPool", a.workerpool, "$timeout"), a.sv("timeout")))],
                       modifies=lambda a, h: CLK + FNMOD + [("WorkerPool", a.workerpool, "$all_deadlines"), ("WorkerPool", a.workerpool, "$maxdeadline")],
                       cases=[Case("ok", **both(tk_post)), Case("worker-exception", "raise", "BaseException", **both(tk_raise))],
                       props=["C05"], allocates=True))
    c.closure = {"workerpool": REF("WorkerPool"), "timeout": OPT(INT)}
    return w


def declare_safe_terminate(w):
    """safe_terminate(execmodel, timeout, pairs): two contracts - for arbitrary pairs, and for pairs whose killfuncs are all prompt."""
    declare_termkill(w)
    s = w.schema
    FNMOD = [("Fn", None, "$returned"), ("Fn", None, "$called")]
    PAIRS = SEQ(ANY)     # each element an opaque 2-tuple value (TermKillPair, annotation taken at its word) with projections pair_t / pair_k
    pair_t, pair_k = z3.Function("pair_t", U, U), z3.Function("pair_k", U, U)

    def unpack_pair(ex, tgt, v, st, sink):
        if len(tgt.elts) != 2:
            raise Unsupported("unpacking an opaque pair into other than two names")
        cur = [st]
        for t, x in zip(tgt.elts, (SV(ANY, pair_t(v.v)), SV(ANY, pair_k(v.v)))):
            nxt = []
            for s_ in cur:
                nxt.extend(ex.assign(t, x, s_, sink))
            cur = nxt
        return cur

    w.call_hooks[("unpack", "any")] = unpack_pair

    def pool_ghost(ex, st, r):
        if ex.frame is not None and ex.frame.qualname == "safe_terminate" and "timeout" in st.locals:
            from pyvc.contracts import HeapView
            st.heap.set(r, "$timeout", core.coerce(st.locals["timeout"], OPT(INT)))
            st.heap.set(r, "$all_deadlines", mk_bool(True))
            st.heap.set(r, "$maxdeadline", SV(INT, clock(HeapView(st.heap, st.held))))

    w.alloc_hooks = dict(getattr(w, "alloc_hooks", {}), WorkerPool=pool_ghost)
    w.add(Contract(f"{GB}:WorkerPool.__init__", {"self": REF("WorkerPool"), "execmodel": REF("ExecModel"), "hasprimary": BOOL}, defaults={"hasprimary": False},
                   modifies=lambda a, h: [("WorkerPool", a.self, "execmodel")], cases=[Case("ok", post=lambda a, h, h2, r: [h2("WorkerPool", a.self, "execmodel") == a.execmodel])], trusted=True, note="C09"))

    def waitall_post(a, h, h2, r, M):
        isnum, tv = numeric(a.sv("timeout"))
        alld, mx = h("WorkerPool", a.self, "$all_deadlines"), h("WorkerPool", a.self, "$maxdeadline")
        return [clock(h2) >= clock(h), z3.Implies(isnum, z3.And(clock(h2) <= clock(h) + tv, unb(h2) == unb(h))),
                z3.Implies(z3.And(z3.Not(isnum), z3.Not(alld)), unb(h2))] + M(h, h2)

    w.add(Contract(f"{GB}:WorkerPool.waitall", {"self": REF("WorkerPool"), "timeout": OPT(INT)}, defaults={"timeout": None}, modifies=lambda a, h: CLK + FNMOD,
                   cases=[Case("ok", restype=BOOL, **both(waitall_post))], trusted=True, note="C09: a timed waitall takes at most its timeout"))

    tk = w.contracts[f"{ST}.termkill"]

    def pair(a, j):
        p = a.list_of_paired_functions[j]
        return pair_t(p), pair_k(p)

    def in_range(a, j):
        return z3.And(j >= 0, j < slen(a.list_of_paired_functions))

    def all_prompt(a, h):
        q = z3.Int("qp")
        return z3.ForAll([q], z3.Implies(in_range(a, q), h("Fn", fnobj(pair(a, q)[1]), "$prompt")), patterns=[a.list_of_paired_functions[q]])

    def effect_at(a, h2, j):
        t, k = pair(a, j)
        return z3.Implies(in_range(a, j), z3.Or(FN(h2, t, "$returned"), FN(h2, k, "$called")))

    def st_post(variant):
        def post(a, h, h2, r, M):
            isnum, tv = numeric(a.sv("timeout"))
            N = slen(a.list_of_paired_functions)
            out = [clock(h2) >= clock(h)] + M(h, h2)
            if variant == "prompt-kills":
                # every pair: the termfunc returned or the killfunc was called; at most timeout for the pairs plus 2*timeout for the final waitall
                out += [effect_at(a, h2, J5), z3.Implies(isnum, z3.And(clock(h2) <= clock(h) + 3 * tv, unb(h2) == unb(h)))]
            else:
                out += [z3.Implies(isnum, z3.And(clock(h2) <= clock(h) + (2 * N + 2) * tv, unb(h2) == unb(h))),
                        z3.Implies(z3.Not(isnum), effect_at(a, h2, J5))]      # without a timeout nothing is given up on
            return out
        return post

    def st_raise(variant):
        def post(a, h, h2, e, M):
            isnum, tv = numeric(a.sv("timeout"))
            N = slen(a.list_of_paired_functions)
            bound = 3 * tv if variant == "prompt-kills" else (2 * N + 2) * tv
            return [z3.Implies(isnum, z3.And(clock(h2) <= clock(h) + bound, unb(h2) == unb(h)))] + M(h, h2)
        return post

    for variant in ("any", "prompt-kills"):
        req = [("execmodel", lambda a, h: a.execmodel != 0), ("timeout-not-negative", lambda a, h: z3.Or(a.sv("timeout").v[0], a.sv("timeout").v[1].v >= 0))]
        if variant == "prompt-kills":
            req.append(("every-killfunc-is-prompt", all_prompt))
        w.add(Contract(ST, {"execmodel": REF("ExecModel"), "timeout": OPT(INT), "list_of_paired_functions": PAIRS},
                       requires=(lambda req: lambda a, h: [(n, f(a, h)) for n, f in req])(req),
                       modifies=lambda a, h: CLK + FNMOD + [("Reply", None, f) for f in ("$func", "$a1", "$a2", "$kind", "$has_deadline", "$deadline", "$finished")],
                       cases=[Case("ok", **both(st_post(variant))), Case("worker-exception", "raise", "BaseException", **both(st_raise(variant)))],
                       props=["C05"], allocates=True), variant=variant)

    # the comprehension that spawns one termkill task per pair
    def comp_inv(L):
        a = Args(L.ex.inputs)
        h, pre = L.h, L.pre
        pool = L.workerpool
        rl = L.sv("$comp0").v
        isnum, tv = numeric(L.ex.inputs["timeout"])
        rj = rl[J5]
        t, k = pair(a, J5)
        out = [("one-reply-per-pair", slen(rl) == L.k),
               ("reply-J", z3.Implies(z3.And(J5 >= 0, J5 < L.k), z3.And(rj != 0, h("Reply", rj, "$kind") == 1, h("Reply", rj, "$a1") == t, h("Reply", rj, "$a2") == k,
                                                                         z3.Not(h("Reply", rj, "$finished")), h("Reply", rj, "$has_deadline") == z3.And(isnum, pre("Fn", fnobj(k), "$prompt")),
                                                                         h("Reply", rj, "$deadline") == clock(pre) + tv))),
               ("no-time-passes", z3.And(clock(h) == clock(pre), unb(h) == unb(pre))),
               ("pool", z3.And(pool != 0, core.eq_sv(L.h.sv("WorkerPool", pool, "$timeout"), L.ex.inputs["timeout"]), h("WorkerPool", pool, "$maxdeadline") <= clock(pre) + z3.If(isnum, tv, 0))),
               ("params", z3.And(L.list_of_paired_functions == a.list_of_paired_functions, core.eq_sv(L.sv("timeout"), L.ex.inputs["timeout"])))]
        if L.ex.cur_contract is not None and getattr(L.ex.cur_contract, "variant_name", "") == "prompt-kills":
            out.append(("all-deadlines", z3.Implies(isnum, h("WorkerPool", pool, "$all_deadlines"))))
        return out

    ls = LoopSpec(ST, "comp0", invariant=comp_inv, havoc_cells=lambda L: [("WorkerPool", L.workerpool, "$all_deadlines"), ("WorkerPool", L.workerpool, "$maxdeadline")],
                  havoc_fields=["Reply.$func", "Reply.$a1", "Reply.$a2", "Reply.$kind", "Reply.$has_deadline", "Reply.$deadline", "Reply.$finished"], props=["C05"])
    ls.elem = REF("Reply")
    w.add_loop(ls)
    return w


def declare_safe_terminate_loop(w):
    declare_safe_terminate(w)
    pair_t, pair_k = z3.Function("pair_t", U, U), z3.Function("pair_k", U, U)

    def facts(L, j, a, pre_prompt):
        h = L.h
        rl = L.replylist
        isnum, tv = numeric(L.ex.inputs["timeout"])
        rj = rl[j]
        p = a.list_of_paired_functions[j]
        t, k = pair_t(p), pair_k(p)
        return z3.Implies(z3.And(j >= 0, j < slen(rl)),
                          z3.And(rj != 0, h("Reply", rj, "$kind") == 1, h("Reply", rj, "$a1") == t, h("Reply", rj, "$a2") == k,
                                 h("Reply", rj, "$has_deadline") == z3.And(isnum, pre_prompt(fnobj(k))), h("Reply", rj, "$deadline") == clock(L.old) + tv))

    def effect(L, j, a):
        p = a.list_of_paired_functions[j]
        return z3.Or(FN(L.h, pair_t(p), "$returned"), FN(L.h, pair_k(p), "$called"))

    def variant_of(L):
        return getattr(L.ex.cur_contract, "variant_name", "any")

    def inv(L, gen=False):
        a = Args(L.ex.inputs)
        h, old = L.h, L.old
        isnum, tv = numeric(L.ex.inputs["timeout"])
        pool = L.workerpool
        prompt0 = lambda f: old("Fn", f, "$prompt")
        wt = core.coerce(L.sv("wait_timeout"), OPT(INT))
        N = slen(a.list_of_paired_functions)
        j = z3.Int("qj") if gen else J5
        wrap = (lambda f: z3.ForAll([j], f, patterns=[L.replylist[j]])) if gen else (lambda f: f)
        M = mono_all if gen else mono
        out = [("replies", wrap(facts(L, j, a, prompt0))),
               ("one-reply-per-pair", z3.And(slen(L.replylist) == N, L.k >= 0)),
               ("wait-timeout", z3.And(wt.v[0] == z3.Not(isnum), z3.Implies(isnum, wt.v[1].v == 2 * tv))),
               ("monotone-flags", z3.And(*M(old, h))),
               ("clock-moves-forward", clock(h) >= clock(old)),
               ("pool", z3.And(pool != 0, h("WorkerPool", pool, "$maxdeadline") <= clock(old) + z3.If(isnum, tv, 0))),
               ("params", z3.And(L.list_of_paired_functions == a.list_of_paired_functions, core.eq_sv(L.sv("timeout"), L.ex.inputs["timeout"]), z3.Implies(isnum, tv >= 0)))]
        done = lambda jj: z3.Implies(z3.And(jj >= 0, jj < L.k), effect(L, jj, a))
        if variant_of(L) == "prompt-kills":
            out += [("time", z3.Implies(isnum, z3.And(clock(h) <= clock(old) + tv, unb(h) == unb(old)))),
                    ("every-pair-so-far-settled", wrap(done(j)))]
        else:
            out += [("time", z3.Implies(isnum, z3.And(clock(h) <= clock(old) + 2 * L.k * tv, unb(h) == unb(old)))),
                    ("every-pair-so-far-settled", z3.Implies(z3.Not(isnum), wrap(done(j))))]
        return out

    ls = LoopSpec(ST, 0, invariant=lambda L: inv(L), havoc_cells=lambda L: CLK,
                  havoc_fields=["Reply.$finished", "Fn.$returned", "Fn.$called"], props=["C05"])
    ls.invariant_assume = lambda L: [f for _, f in inv(L, gen=True)]
    w.add_loop(ls)
    return w


# ---------------------------------------------------------------------------------------------------------------------------------
# gateway level: IO control requests, Gateway.exit, Group._unregister, the join_wait / kill closures
# ---------------------------------------------------------------------------------------------------------------------------------
def IOF(h, io, f):
    return h("IO", io, f)


def declare_gateway_level(w):
    declare_clock(w)
    s = w.schema
    s.set_bases("IO", ["object"])
    s.declare("IO", "$local_child", BOOL, ghost=True)    # a subprocess started by this process (Popen2IOMaster); immutable
    s.declare("IO", "$prompt_ctl", BOOL, ghost=True)     # close_write / kill return without waiting for a peer (pipes, sockets; NOT ProxyIO); immutable
    s.declare("IO", "$waited", BOOL, ghost=True)         # wait() returned: the child has exited
    s.declare("IO", "$killed", BOOL, ghost=True)         # kill() was delivered
    s.declare("IO", "$write_closed", BOOL, ghost=True)
    s.declare("IO", "$term_sent", BOOL, ghost=True)      # a GATEWAY_TERMINATE frame was written
    s.declare("Gateway", "_io", REF("IO"))
    s.declare("Gateway", "_group", REF("Group"))
    s.declare("Gateway", "id", STR)
    from contracts.base import GB as GB__
    w.add(Contract(f"{GB__}:BaseGateway.hasreceiver", {"self": REF("Gateway")}, cases=[Case("ok", restype=BOOL)], trusted=True,
                   note="whether the receiver thread still runs: says that the CONNECTION has ended, nothing about whether the child PROCESS has exited "
                        "(a worker with a leftover non-daemon thread closes the connection and lives on)"))
    s.declare("Gateway", "spec", REF("XSpec"))
    s.declare("XSpec", "via", OPT(STR))
    s.declare("Group", "_gateways", SEQ(REF("Gateway")))
    s.declare("Group", "_gateways_to_join", SEQ(REF("Gateway")))
    s.declare("Group", "execmodel", REF("ExecModel"))
    s.set_bases("Gateway", ["BaseGateway", "object"])
    io = lambda h, gw: h("Gateway", gw, "_io")
    from pyvc import extract
    GT = extract.load(GB).class_consts.get("Message", {}).get("GATEWAY_TERMINATE")   # the code the worker's receiver answers by terminating (C11)
    if not isinstance(GT, int):
        raise Unsupported("Message.GATEWAY_TERMINATE is not an int constant in the current tree")

    def ctl_time(a, h, h2, ioref):
        return [clock(h2) >= clock(h), z3.If(IOF(h, ioref, "$prompt_ctl"), z3.And(clock(h2) == clock(h), unb(h2) == unb(h)), unb(h2))]

    # IO protocol as seen from the terminate path (Popen2IOMaster is verified against it below; ProxyIO fails the time clause)
    w.add(Contract("model:IO.wait", {"self": REF("IO")}, modifies=lambda a, h: CLK + [("IO", a.self, "$waited")],
                   cases=[Case("exited", restype=OPT(INT), post=lambda a, h, h2, r: [IOF(h2, a.self, "$waited"), clock(h2) >= clock(h),
                                                                                    z3.If(z3.And(IOF(h, a.self, "$killed"), IOF(h, a.self, "$local_child")), z3.And(clock(h2) == clock(h), unb(h2) == unb(h)), unb(h2))]),
                          Case("cannot-ask", "raise", "OSError", when=lambda a, h: z3.Not(IOF(h, a.self, "$local_child")),
                               post=lambda a, h, h2, e: [IOF(h2, a.self, "$waited") == IOF(h, a.self, "$waited")] + ctl_time(a, h, h2, a.self)),
                          Case("via-gateway-lost", "raise", "EOFError", when=lambda a, h: z3.Not(IOF(h, a.self, "$local_child")),
                               post=lambda a, h, h2, e: [IOF(h2, a.self, "$waited") == IOF(h, a.self, "$waited"), clock(h2) >= clock(h)])], trusted=True,
                   note="wait() returns when the child has exited: unbounded, except after kill() of a local child (SIGKILL terminates a process and wait() then returns); a proxied wait may fail with OSError"))
    w.add(Contract("model:IO.kill", {"self": REF("IO")}, modifies=lambda a, h: CLK + [("IO", a.self, "$killed")],
                   cases=[Case("ok", post=lambda a, h, h2, r: [IOF(h2, a.self, "$killed")] + ctl_time(a, h, h2, a.self)),
                          Case("cannot-ask", "raise", "OSError", when=lambda a, h: z3.Not(IOF(h, a.self, "$local_child")),
                               post=lambda a, h, h2, e: [IOF(h2, a.self, "$killed") == IOF(h, a.self, "$killed")] + ctl_time(a, h, h2, a.self)),
                          Case("via-gateway-lost", "raise", "EOFError", when=lambda a, h: z3.Not(IOF(h, a.self, "$local_child")),
                               post=lambda a, h, h2, e: [IOF(h2, a.self, "$killed") == IOF(h, a.self, "$killed")] + ctl_time(a, h, h2, a.self))], trusted=True,
                   note="kill of a local child never raises (Popen2IOMaster.kill, verified) and does not block; a proxied kill is a control request (send + receive without timeout) and may raise OSError"))
    w.add(Contract("model:IO.close_write", {"self": REF("IO")}, modifies=lambda a, h: CLK + [("IO", a.self, "$write_closed")],
                   cases=[Case("ok", post=lambda a, h, h2, r: [IOF(h2, a.self, "$write_closed")] + ctl_time(a, h, h2, a.self)),
                          Case("oserror", "raise", "OSError", post=lambda a, h, h2, e: ctl_time(a, h, h2, a.self) + [IOF(h2, a.self, "$write_closed") == IOF(h, a.self, "$write_closed")]),
                          Case("closed", "raise", "ValueError", post=lambda a, h, h2, e: ctl_time(a, h, h2, a.self) + [IOF(h2, a.self, "$write_closed") == IOF(h, a.self, "$write_closed")]),
                          Case("eof", "raise", "EOFError", post=lambda a, h, h2, e: ctl_time(a, h, h2, a.self) + [IOF(h2, a.self, "$write_closed") == IOF(h, a.self, "$write_closed")])], trusted=True, note="C08 / C16"))
    w.add(Contract(f"{GB}:BaseGateway._send", {"self": REF("BaseGateway"), "msgcode": INT, "channelid": INT, "data": BYTES}, defaults={"channelid": 0, "data": b""},
                   modifies=lambda a, h: [("IO", io(h, a.self), "$term_sent")],
                   cases=[Case("ok", post=lambda a, h, h2, r: [z3.Implies(a.msgcode == GT, IOF(h2, io(h, a.self), "$term_sent"))]),
                          Case("oserror", "raise", "OSError", post=lambda a, h, h2, e: [IOF(h2, io(h, a.self), "$term_sent") == IOF(h, io(h, a.self), "$term_sent")])], trusted=True,
                   note="C08: one frame written under the send lock, OSError when the connection is closed; a 9-byte frame does not block (pipe not full: assumption)"))
    w.add(Contract(f"{GB}:BaseGateway.join", {"self": REF("BaseGateway"), "timeout": OPT(INT)}, defaults={"timeout": None}, modifies=lambda a, h: CLK,
                   cases=[Case("ok", post=lambda a, h, h2, r: [clock(h2) >= clock(h), z3.Implies(z3.Not(a.sv("timeout").v[0]), z3.And(clock(h2) <= clock(h) + a.sv("timeout").v[1].v, unb(h2) == unb(h)))])],
                   trusted=True, note="waitall on the receive pool (C09): unbounded without timeout"))
    w.class_consts = getattr(w, "class_consts", {})

    # ---- Group.__contains__(gateway) / _unregister ----------------------------------------------------------------
    gws = lambda h, g: h("Group", g, "_gateways")
    tj = lambda h, g: h("Group", g, "_gateways_to_join")
    w.add(Contract(f"{MULTI}:Group.__contains__", {"self": REF("Group"), "key": REF("Gateway")},
                   cases=[Case("ok", restype=BOOL, post=lambda a, h, h2, r: [r == z3.Contains(gws(h, a.self), z3.Unit(a.key))])], trusted=True,
                   note="C20 verifies __getitem__/__contains__ for str keys; with a Gateway key the same loop compares identities (Gateway defines no __eq__)"))

    def membership(gen, L, L2, T, T2, who):
        """the same move in membership form, for an arbitrary fixed gateway Q5 (generalised at call sites): nobody else leaves or joins either list"""
        q = z3.Int("qm") if gen else Q5
        f = z3.And(z3.Implies(q != who, z3.Contains(L2, z3.Unit(q)) == z3.Contains(L, z3.Unit(q))),
                   z3.Contains(T2, z3.Unit(q)) == z3.Or(z3.Contains(T, z3.Unit(q)), q == who))
        return z3.ForAll([q], f, patterns=[z3.Contains(L2, z3.Unit(q)), z3.Contains(T2, z3.Unit(q))]) if gen else f

    def unreg_post(a, h, h2, r, gen=False):
        L = gws(h, a.self)
        i = z3.IndexOf(L, z3.Unit(a.gateway), 0)
        return [gws(h2, a.self) == z3.Concat(z3.SubSeq(L, 0, i), z3.SubSeq(L, i + 1, slen(L) - i - 1)), tj(h2, a.self) == z3.Concat(tj(h, a.self), z3.Unit(a.gateway)),
                membership(gen, L, gws(h2, a.self), tj(h, a.self), tj(h2, a.self), a.gateway)]

    w.add(Contract(f"{MULTI}:Group._unregister", {"self": REF("Group"), "gateway": REF("Gateway")},
                   modifies=lambda a, h: [("Group", a.self, "_gateways"), ("Group", a.self, "_gateways_to_join")],
                   cases=[Case("ok", when=lambda a, h: z3.Contains(gws(h, a.self), z3.Unit(a.gateway)), post=unreg_post, post_assume=lambda a, h, h2, r: unreg_post(a, h, h2, r, gen=True)),
                          Case("not-a-member", "raise", "ValueError", when=lambda a, h: z3.Not(z3.Contains(gws(h, a.self), z3.Unit(a.gateway))),
                               post=lambda a, h, h2, e: [gws(h2, a.self) == gws(h, a.self), tj(h2, a.self) == tj(h, a.self)])], props=["C05"]))

    # ---- Gateway.exit -----------------------------------------------------------------------------------------------------------
    def exit_post(a, h, h2, r, gen=False):
        g = h("Gateway", a.self, "_group")
        L = gws(h, g)
        i = z3.IndexOf(L, z3.Unit(a.self), 0)
        member = z3.Contains(L, z3.Unit(a.self))
        ioref = io(h, a.self)
        same = lambda f: IOF(h2, ioref, f) == IOF(h, ioref, f)
        return [z3.If(member,
                      z3.And(gws(h2, g) == z3.Concat(z3.SubSeq(L, 0, i), z3.SubSeq(L, i + 1, slen(L) - i - 1)), tj(h2, g) == z3.Concat(tj(h, g), z3.Unit(a.self)),   # moved from members to the join list
                             membership(gen, L, gws(h2, g), tj(h, g), tj(h2, g), a.self),
                             z3.Implies(z3.Not(IOF(h, ioref, "$write_closed")), z3.Implies(IOF(h2, ioref, "$write_closed"), IOF(h2, ioref, "$term_sent")))),                                                                   # terminate message before the half-close
                      z3.And(gws(h2, g) == L, tj(h2, g) == tj(h, g), same("$term_sent"), same("$write_closed"), clock(h2) == clock(h), unb(h2) == unb(h))),
                clock(h2) >= clock(h),
                z3.Implies(IOF(h, ioref, "$prompt_ctl"), z3.And(clock(h2) == clock(h), unb(h2) == unb(h)))]     # exit() itself never waits for the peer

    w.add(Contract(f"{GW}:Gateway.exit", {"self": REF("Gateway")},
                   requires=lambda a, h: [("has-group", h("Gateway", a.self, "_group") != 0), ("has-io", io(h, a.self) != 0)],
                   modifies=lambda a, h: CLK + [("Group", h("Gateway", a.self, "_group"), "_gateways"), ("Group", h("Gateway", a.self, "_group"), "_gateways_to_join"),
                                                 ("IO", io(h, a.self), "$term_sent"), ("IO", io(h, a.self), "$write_closed")],
                   cases=[Case("ok", post=exit_post, post_assume=lambda a, h, h2, r: exit_post(a, h, h2, r, gen=True))], props=["C05"]))

    # ---- the closures of Group.terminate -------------------------------------------------------------------------------------------
    w.add(Contract(f"{MULTI}:Group.terminate.join_wait", {"gw": REF("Gateway")}, requires=lambda a, h: [("gateway", z3.And(a.gw != 0, io(h, a.gw) != 0))],
                   modifies=lambda a, h: CLK + [("IO", io(h, a.gw), "$waited")],
                   cases=[Case("ok", post=lambda a, h, h2, r: [IOF(h2, io(h, a.gw), "$waited")]),            # returns only when the receiver thread ended and the child was waited for
                          Case("cannot-ask", "raise", "OSError", post=lambda a, h, h2, e: [z3.Not(IOF(h, io(h, a.gw), "$local_child"))]),
                          Case("via-gateway-lost", "raise", "EOFError", post=lambda a, h, h2, e: [z3.Not(IOF(h, io(h, a.gw), "$local_child"))])], props=["C05"]))
    w.add(Contract(f"{MULTI}:Group.terminate.kill", {"gw": REF("Gateway")}, requires=lambda a, h: [("gateway", z3.And(a.gw != 0, io(h, a.gw) != 0))],
                   modifies=lambda a, h: CLK + [("IO", io(h, a.gw), "$killed")],
                   cases=[Case("ok", post=lambda a, h, h2, r: [z3.Implies(IOF(h, io(h, a.gw), "$local_child"), IOF(h2, io(h, a.gw), "$killed")),       # a local child is always killed ...
                                                               z3.Implies(IOF(h, io(h, a.gw), "$prompt_ctl"), z3.And(clock(h2) == clock(h), unb(h2) == unb(h)))])],   # ... without waiting; and kill never raises
                   props=["C05"]))
    return w


# ---------------------------------------------------------------------------------------------------------------------------------
# Group.terminate
# ---------------------------------------------------------------------------------------------------------------------------------
Q5 = z3.Int("Q5")     # an arbitrary but fixed gateway object


def declare_group_terminate(w, variant="any"):
    """variant 'local': every gateway of the group has a prompt local transport and no via (popen/ssh groups); 'any': nothing assumed"""
    declare_gateway_level(w)
    s = w.schema
    s.declare("Group", "_execmodel", REF("ExecModel"))
    io = lambda h, gw: h("Gateway", gw, "_io")
    gws = lambda h, g: h("Group", g, "_gateways")
    tj = lambda h, g: h("Group", g, "_gateways_to_join")
    has = lambda L, x: z3.Contains(L, z3.Unit(x))
    settled = lambda h, i: z3.Or(IOF(h, i, "$waited"), IOF(h, i, "$killed"))
    w.attr_hooks[("Group", "execmodel")] = lambda ex, st, recv: st.heap.get(recv, "_execmodel")
    w.call_hooks[("truth", "ref:Group")] = lambda ex, v, st: slen(st.heap.get(v, "_gateways").v) != 0     # __len__ (C20)

    def iter_group(ex, it, st):
        L = st.heap.get(it, "_gateways")     # __iter__ returns iter(list(self._gateways)): a snapshot
        elem = lambda i: SV(REF("Gateway"), L.v[i])
        elem.seq = L.v
        return z3.Length(L.v), elem

    w.call_hooks[("iter", "ref:Group")] = iter_group

    def ok_gw(h, g, x):
        """what holds for every gateway of a group: it exists, has a transport, points back to the group"""
        return z3.And(x != 0, io(h, x) != 0, h("Gateway", x, "_group") == g, h("Gateway", x, "spec") != 0)

    def strong(h, g, x):
        return z3.And(IOF(h, io(h, x), "$prompt_ctl"), IOF(h, io(h, x), "$local_child"), h.sv("XSpec", h("Gateway", x, "spec"), "via").v[0])

    # the pairs comprehension: [(partial(join_wait, gw), partial(kill, gw)) for gw in self._gateways_to_join]  ->  the join list itself
    def pairs_comp(ex, node, st, sink):
        for st2, it in ex.ev(node.generators[0].iter, st, sink):
            yield st2, SV(it.ty, it.v)

    w.call_hooks[("listcomp", (f"{MULTI}:Group.terminate", "comp0"))] = pairs_comp

    def all_strong_list(a, h):
        q = z3.Int("ql")
        L = a.list_of_paired_functions
        return z3.ForAll([q], z3.Implies(has(L, q), z3.And(q != 0, io(h, q) != 0, IOF(h, io(h, q), "$prompt_ctl"), IOF(h, io(h, q), "$local_child"))), patterns=[has(L, q)])

    # safe_terminate as seen with pair i = (partial(join_wait, gw_i), partial(kill, gw_i)): composition of the verified contracts of safe_terminate,
    # termkill, join_wait and kill (a termfunc that returned has established join_wait's postcondition, a killfunc that was called and is prompt kill's)
    def st_gw_post(variant):
        def post(a, h, h2, r, gen=False):
            isnum, tv = numeric(a.sv("timeout"))
            L = a.list_of_paired_functions
            N = slen(L)
            q = z3.Int("qs") if gen else Q5
            wrap = (lambda f: z3.ForAll([q], f, patterns=[IOF(h2, q, "$waited"), IOF(h2, q, "$killed")])) if gen else (lambda f: f)
            out = [clock(h2) >= clock(h), wrap(z3.And(z3.Implies(IOF(h, q, "$waited"), IOF(h2, q, "$waited")), z3.Implies(IOF(h, q, "$killed"), IOF(h2, q, "$killed"))))]
            if variant == "local":
                g = z3.Int("qg") if gen else Q5
                wrapg = (lambda f: z3.ForAll([g], f, patterns=[has(L, g)])) if gen else (lambda f: f)
                out += [wrapg(z3.Implies(has(L, g), settled(h2, io(h, g)))), z3.Implies(isnum, z3.And(clock(h2) <= clock(h) + 3 * tv, unb(h2) == unb(h)))]
            else:
                out += [z3.Implies(isnum, z3.And(clock(h2) <= clock(h) + (2 * N + 2) * tv, unb(h2) == unb(h)))]
            return out
        return post

    p = st_gw_post(variant)
    w.add(Contract(ST, {"execmodel": REF("ExecModel"), "timeout": OPT(INT), "list_of_paired_functions": SEQ(REF("Gateway"))},
                   requires=lambda a, h: [("every-gateway-of-the-list-is-strong", all_strong_list(a, h))] if variant == "local" else [],
                   modifies=lambda a, h: CLK + [("IO", None, "$waited"), ("IO", None, "$killed")],
                   cases=[Case("ok", post=p, post_assume=lambda a, h, h2, r: p(a, h, h2, r, gen=True))]
                   + ([Case("proxied-wait-lost-its-via-gateway", "raise", "EOFError")] if variant == "any" else []), trusted=True,
                   note="derived from the verified contracts safe_terminate#any / #prompt-kills, safe_terminate.termkill, Group.terminate.join_wait and Group.terminate.kill by composition "
                        "(pair i is (partial(join_wait, gw_i), partial(kill, gw_i)): static obligation on the comprehension text); no worker exception from local transports: join_wait raises OSError (handled by termkill) or, for a proxied wait whose via gateway dies, EOFError (propagates: variant 'any'); kill raises nothing"))

    GT = f"{MULTI}:Group.terminate"
    IOMOD = [("IO", None, f) for f in ("$waited", "$killed", "$term_sent", "$write_closed")]

    def all_ok(h, g, L, name, strong_too):
        """membership form: whatever is in the list is a gateway of this group (with a prompt local transport and no via, in the local variant)"""
        q = z3.Int("q_" + name)
        body = ok_gw(h, g, q)
        if strong_too:
            body = z3.And(body, strong(h, g, q))
        return z3.ForAll([q], z3.Implies(has(L, q), body), patterns=[has(L, q)])

    def accounted(h0, h, g, q):
        """a gateway that was a member or waiting to be joined is still listed, or its child has been waited for or killed"""
        return z3.Implies(z3.Or(has(gws(h0, g), q), has(tj(h0, g), q)), z3.Or(has(gws(h, g), q), has(tj(h, g), q), settled(h, io(h0, q))))

    def gt_post(a, h, h2, r):
        isnum, tv = numeric(a.sv("timeout"))
        out = [slen(gws(h2, a.self)) == 0, slen(tj(h2, a.self)) == 0]      # the group is empty and nothing is left to join
        if variant == "local":
            out += [z3.Implies(z3.Or(has(gws(h, a.self), Q5), has(tj(h, a.self), Q5)), settled(h2, io(h, Q5))),      # every child has been waited for or killed
                    z3.Implies(isnum, z3.And(clock(h2) <= clock(h) + 3 * tv, unb(h2) == unb(h)))]                      # within 3 * timeout
        return out

    w.add(Contract(GT, {"self": REF("Group"), "timeout": OPT(INT)}, defaults={"timeout": None},
                   requires=lambda a, h: [("members-are-gateways-of-this-group", all_ok(h, a.self, gws(h, a.self), "m", variant == "local")),
                                          ("join-list-holds-gateways-of-this-group", all_ok(h, a.self, tj(h, a.self), "t", variant == "local")),
                                          ("timeout-not-negative", z3.Or(a.sv("timeout").v[0], a.sv("timeout").v[1].v >= 0))],
                   modifies=lambda a, h: CLK + IOMOD + [("Group", a.self, "_gateways"), ("Group", a.self, "_gateways_to_join")],
                   cases=[Case("ok", post=gt_post)] + ([Case("proxied-wait-lost-its-via-gateway", "raise", "EOFError")] if variant == "any" else []), props=["C05"], allocates=True))

    local = variant == "local"
    emptyset = z3.K(z3.StringSort(), z3.BoolVal(False))

    def common(L):
        g = L.inp("self")
        h = L.h
        return [("lists-hold-gateways-of-this-group", z3.And(all_ok(h, g, gws(h, g), "m", local), all_ok(h, g, tj(h, g), "t", local))),
                ("params", z3.And(L.self == g, core.eq_sv(L.sv("timeout"), L.ex.inputs["timeout"])))]

    def outer(L):
        g = L.inp("self")
        h, old = L.h, L.old
        isnum, tv = numeric(L.ex.inputs["timeout"])
        out = common(L)
        if local:
            out += [("every-gateway-accounted-for", accounted(old, h, g, Q5)),
                    ("one-round", z3.Or(z3.And(clock(h) == clock(old), unb(h) == unb(old)),
                                        z3.And(slen(gws(h, g)) == 0, slen(tj(h, g)) == 0, z3.Implies(isnum, z3.And(clock(h) <= clock(old) + 3 * tv, unb(h) == unb(old))))))]
        return out

    w.add_loop(LoopSpec(GT, 0, invariant=outer, havoc_cells=lambda L: CLK + [("Group", L.inp("self"), "_gateways"), ("Group", L.inp("self"), "_gateways_to_join")],
                        havoc_fields=["IO.$waited", "IO.$killed", "IO.$term_sent", "IO.$write_closed"], props=["C05"]))

    def vias_loop(L):
        out = common(L)
        if local:
            out.append(("no-via-in-a-local-group", L.sv("vias").v == emptyset))
        return out

    w.add_loop(LoopSpec(GT, 1, invariant=vias_loop, props=["C05"]))

    def exit_loop(L):
        g = L.inp("self")
        h, pre, old = L.h, L.pre, L.old
        S = gws(pre, g)
        out = [("snapshot-holds-gateways-of-this-group", all_ok(h, g, S, "s", local)),
               ("join-list-holds-gateways-of-this-group", all_ok(h, g, tj(h, g), "t", local)),
               ("params", z3.And(L.self == g, core.eq_sv(L.sv("timeout"), L.ex.inputs["timeout"])))]
        if local:
            out += [("members-left-are-the-rest-of-the-snapshot", gws(h, g) == z3.SubSeq(S, L.k, slen(S) - L.k)),
                    ("every-gateway-accounted-for", accounted(old, h, g, Q5)),
                    ("no-time-passes", z3.And(clock(h) == clock(pre), unb(h) == unb(pre))),
                    ("no-via-in-a-local-group", L.sv("vias").v == emptyset)]
        else:
            out.append(("members-stay-gateways-of-this-group", all_ok(h, g, gws(h, g), "m", False)))
        return out

    w.add_loop(LoopSpec(GT, 2, invariant=exit_loop, havoc_cells=lambda L: CLK + [("Group", L.inp("self"), "_gateways"), ("Group", L.inp("self"), "_gateways_to_join")],
                        havoc_fields=["IO.$term_sent", "IO.$write_closed"], props=["C05"]))
    return w


# ---------------------------------------------------------------------------------------------------------------------------------
# transports on the terminate path: Popen2IOMaster.wait / kill refine model:IO; the control requests of ProxyIO against the same time clause
# ---------------------------------------------------------------------------------------------------------------------------------
def declare_transports(w):
    declare_clock(w)
    s = w.schema
    s.set_bases("Popen", ["object"])
    s.declare("Popen", "$waited", BOOL, ghost=True)      # wait() returned or reported that there is no such child any more
    s.declare("Popen", "$killed", BOOL, ghost=True)      # SIGKILL delivered, or the process was already gone
    s.declare("Popen2IOMaster", "popen", REF("Popen"))
    P = lambda h, io, f: h("Popen", h("Popen2IOMaster", io, "popen"), f)
    w.add(Contract("model:Popen.wait", {"self": REF("Popen")}, modifies=lambda a, h: CLK + [("Popen", a.self, "$waited")],
                   cases=[Case("exited", restype=INT, post=lambda a, h, h2, r: [h2("Popen", a.self, "$waited"), clock(h2) >= clock(h),
                                                                               z3.If(h("Popen", a.self, "$killed"), z3.And(clock(h2) == clock(h), unb(h2) == unb(h)), unb(h2))]),
                          Case("no-such-child", "raise", "OSError", post=lambda a, h, h2, e: [h2("Popen", a.self, "$waited"), clock(h2) == clock(h), unb(h2) == unb(h)])], trusted=True,
                   note="subprocess.Popen.wait(): blocks until the child has exited (at once after SIGKILL: assumption); ECHILD means it was reaped already"))
    w.add(Contract("model:Popen.kill", {"self": REF("Popen")}, modifies=lambda a, h: [("Popen", a.self, "$killed")],
                   cases=[Case("ok", post=lambda a, h, h2, r: [h2("Popen", a.self, "$killed")]),
                          Case("gone", "raise", "OSError", post=lambda a, h, h2, e: [h2("Popen", a.self, "$killed")])], trusted=True,
                   note="subprocess.Popen.kill(): SIGKILL, never blocks; OSError only when the process is gone"))
    w.add(Contract("model:Popen.terminate", {"self": REF("Popen")}, cases=[Case("ok"), Case("gone", "raise", "OSError")], trusted=True,
                   note="subprocess.Popen.terminate(): SIGTERM - a request the process may ignore, catch, or (while stopped) never see; it does NOT establish $killed"))
    w.externals["sys.stderr.write"] = lambda ex, args, kwargs, st, sink, node: iter([(st, mk_int(0))])
    w.externals["sys.stderr.flush"] = lambda ex, args, kwargs, st, sink, node: iter([(st, NONEV)])
    w.add(Contract(f"{GIO}:Popen2IOMaster.wait", {"self": REF("Popen2IOMaster")}, requires=lambda a, h: [("popen", h("Popen2IOMaster", a.self, "popen") != 0)],
                   modifies=lambda a, h: CLK + [("Popen", h("Popen2IOMaster", a.self, "popen"), "$waited")],
                   cases=[Case("exited", restype=OPT(INT), post=lambda a, h, h2, r: [P(h2, a.self, "$waited"), clock(h2) >= clock(h),                 # model:IO.wait, case exited, for a local child
                                                                                    z3.Implies(P(h, a.self, "$killed"), z3.And(clock(h2) == clock(h), unb(h2) == unb(h)))])], props=["C05"]))
    w.add(Contract(f"{GIO}:Popen2IOMaster.kill", {"self": REF("Popen2IOMaster")}, requires=lambda a, h: [("popen", h("Popen2IOMaster", a.self, "popen") != 0)],
                   modifies=lambda a, h: [("Popen", h("Popen2IOMaster", a.self, "popen"), "$killed")],
                   cases=[Case("ok", post=lambda a, h, h2, r: [P(h2, a.self, "$killed")])], props=["C05"]))        # never raises, never waits (clock is not even in its frame)

    # ProxyIO: a control request is a send followed by a receive WITHOUT timeout on the control channel
    s.declare("ProxyIO", "controlchan", REF("Channel"))
    s.declare("ProxyIO", "iochan", REF("Channel"))
    w.add(Contract(f"{GB}:Channel.send", {"self": REF("Channel"), "item": ANY}, cases=[Case("ok"), Case("closed", "raise", "OSError")], trusted=True, note="C02/C03: does not wait for the peer"))

    def rcv_post(a, h, h2, r):
        isnum, tv = numeric(a.sv("timeout"))
        return [clock(h2) >= clock(h), z3.If(isnum, z3.And(clock(h2) <= clock(h) + tv, unb(h2) == unb(h)), unb(h2))]

    w.add(Contract(f"{GB}:Channel.receive", {"self": REF("Channel"), "timeout": OPT(INT)}, defaults={"timeout": None}, modifies=lambda a, h: CLK,
                   cases=[Case("item", restype=ANY, post=rcv_post), Case("eof", "raise", "EOFError", post=rcv_post), Case("timeout", "raise", "TimeoutError", when=lambda a, h: z3.Not(a.sv("timeout").v[0]), post=rcv_post)],
                   trusted=True, note="C02/C04: receive() without timeout waits until the peer answers or the connection is lost - unbounded while the peer is merely stopped"))
    bounded = lambda a, h, h2, r: [unb(h2) == unb(h)]
    w.add(Contract(f"{GIO}:ProxyIO._controll", {"self": REF("ProxyIO"), "event": INT}, requires=lambda a, h: [("control-channel", h("ProxyIO", a.self, "controlchan") != 0)], modifies=lambda a, h: CLK,
                   cases=[Case("answered", restype=ANY), Case("closed", "raise", "OSError"), Case("eof", "raise", "EOFError")], props=["C16"],
                   note="no time clause here: the obligation is stated on kill / close_write, which the terminate path calls"))
    for name in ("kill", "close_write"):
        w.add(Contract(f"{GIO}:ProxyIO.{name}", {"self": REF("ProxyIO")}, requires=lambda a, h: [("control-channel", h("ProxyIO", a.self, "controlchan") != 0)], modifies=lambda a, h: CLK,
                       cases=[Case("ok", post=bounded), Case("closed", "raise", "OSError", post=bounded), Case("eof", "raise", "EOFError", post=bounded)], props=["C05"],
                       note="model:IO time clause: a kill / close_write request returns within a bound whatever the peer does"))
    return w
