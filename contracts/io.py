"""Contracts for the wire layer: IO transports, Message framing, BaseGateway._send (C08, C04, C16)."""
from __future__ import annotations

import z3

from pyvc.contracts import Case, Contract, LoopSpec
from pyvc.core import ANY, BOOL, BYTES, INT, NONE, REF, SEQ, STR, SV, ExcV
from pyvc.pybuiltins import I32_MAX, I32_MIN, be32, s8, unbe32, uns8
from pyvc.symexec import ExternD, FUNCT

from .base import GB, GIO, GSOCK, prefix, slen, suffix

I = z3.IntSort()


def frame(code, cid, data):
    """Reference frame layout, from the statement: type 1 byte, channel 4, payload length 4, payload."""
    return z3.Concat(s8(code), be32(cid), be32(z3.Length(data)), data)


def declare(w):
    s = w.schema
    # environment objects (kernel side of a pipe / socket)
    s.declare("RawIn", "unread", BYTES, ghost=True)       # bytes that will still be delivered before EOF
    s.declare("RawOut", "written", BYTES, ghost=True)     # everything written so far, in order
    s.declare("RawOut", "nwrites", INT, ghost=True)       # number of write() calls
    s.declare("RawOut", "nflush", INT, ghost=True)
    s.declare("Sock", "unread", BYTES, ghost=True)
    s.declare("Sock", "written", BYTES, ghost=True)
    s.declare("Sock", "nwrites", INT, ghost=True)
    s.set_bases("RawIn", ["object"])
    s.set_bases("RawOut", ["object"])
    s.set_bases("Sock", ["object"])
    # abstract IO (the protocol class IO in gateway_base)
    s.declare("IO", "unread", BYTES, ghost=True)
    s.declare("IO", "written", BYTES, ghost=True)
    s.declare("IO", "nwrites", INT, ghost=True)
    s.declare("IO", "execmodel", REF("ExecModel"))
    s.declare("IO", "$guard", REF("Lock"), ghost=True)   # lock every writer of a connection shared between threads must hold
    s.set_bases("Lock", ["object"])
    s.declare("BaseGateway", "_sendlock", REF("Lock"))
    s.declare("Popen2IO", "infile", REF("RawIn"))
    s.declare("Popen2IO", "outfile", REF("RawOut"))
    s.declare("Popen2IO", "execmodel", REF("ExecModel"))
    s.declare("SocketIO", "sock", REF("Sock"))
    s.declare("SocketIO", "execmodel", REF("ExecModel"))
    s.declare("Message", "msgcode", INT)
    s.declare("Message", "channelid", INT)
    s.declare("Message", "data", BYTES)
    s.set_bases("ReadIO", ["IO"])
    s.set_bases("WriteIO", ["IO"])

    # Popen2IO.__init__ binds self._read/_write to the (buffered) file's methods
    w.attr_hooks[("Popen2IO", "_read")] = lambda ex, st, recv: SV(FUNCT, ExternD("contract:model:RawIn.read", bound=st.heap.get(recv, "infile")))
    w.attr_hooks[("Popen2IO", "_write")] = lambda ex, st, recv: SV(FUNCT, ExternD("contract:model:RawOut.write", bound=st.heap.get(recv, "outfile")))

    # ---------------- OS-level contracts (trusted) ----------------------
    def os_read(cls, target, pname):
        def post(a, h, h2, res):
            u = h(cls, a.self, "unread")
            return [
                slen(res) <= getattr(a, pname),
                z3.PrefixOf(res, u),
                h2(cls, a.self, "unread") == suffix(u, slen(res)),
                (slen(res) == 0) == (slen(u) == 0),
            ]

        return Contract(
            target, {"self": REF(cls), pname: INT},
            requires=lambda a, h: [("positive-count", getattr(a, pname) > 0)],
            modifies=lambda a, h: [(cls, a.self, "unread")],
            cases=[Case("ok", restype=BYTES, post=post)], trusted=True,
            note="OS read/recv: a non-empty prefix (at most n bytes) of what is still to come, or b'' at end of stream",
        )

    # closing one direction: socket.shutdown(how) with how = 0 (no more receives), 1 (no more sends); recorded as a history of attempts
    s.declare("Sock", "$shutdowns", SEQ(INT), ghost=True)
    s.declare("RawIn", "$closed", BOOL, ghost=True)
    s.declare("RawOut", "$closed", BOOL, ghost=True)
    shut = lambda h, so: h("Sock", so, "$shutdowns")
    w.add(Contract("model:Sock.shutdown", {"self": REF("Sock"), "how": INT}, modifies=lambda a, h: [("Sock", a.self, "$shutdowns")],
                   cases=[Case(n_, k_, e_, post=lambda a, h, h2, r: [shut(h2, a.self) == z3.Concat(shut(h, a.self), z3.Unit(a.how))]) for n_, k_, e_ in (("ok", "return", None), ("not-connected", "raise", "OSError"))],
                   trusted=True, note="socket.shutdown: SHUT_RD = 0, SHUT_WR = 1; ENOTCONN when the peer is already gone"))
    for cls_ in ("RawIn", "RawOut"):
        w.add(Contract(f"model:{cls_}.close", {"self": REF(cls_)}, modifies=(lambda c_: lambda a, h: [(c_, a.self, "$closed")])(cls_),
                       cases=[Case("ok", post=(lambda c_: lambda a, h, h2, r: [h2(c_, a.self, "$closed")])(cls_))], trusted=True, note="file.close()"))
    SIO = "execnet.gateway_socket:SocketIO"
    ssock = lambda a, h: h("SocketIO", a.self, "sock")
    # the IO contract's two half closes: close_write ends THIS side's sending (the peer then reads end of stream: C04), close_read ends the receiving; neither raises
    w.add(Contract(f"{SIO}.close_write", {"self": REF("SocketIO")}, requires=lambda a, h: [("has-socket", ssock(a, h) != 0)], modifies=lambda a, h: [("Sock", ssock(a, h), "$shutdowns")],
                   cases=[Case("ok", post=lambda a, h, h2, r: [shut(h2, ssock(a, h)) == z3.Concat(shut(h, ssock(a, h)), z3.Unit(z3.IntVal(1)))])], props=["C04", "C08", "C16"]))
    w.add(Contract(f"{SIO}.close_read", {"self": REF("SocketIO")}, requires=lambda a, h: [("has-socket", ssock(a, h) != 0)], modifies=lambda a, h: [("Sock", ssock(a, h), "$shutdowns")],
                   cases=[Case("ok", post=lambda a, h, h2, r: [shut(h2, ssock(a, h)) == z3.Concat(shut(h, ssock(a, h)), z3.Unit(z3.IntVal(0)))])], props=["C04", "C08", "C16"]))
    w.add(Contract(f"{GB}:Popen2IO.close_write", {"self": REF("Popen2IO")}, requires=lambda a, h: [("has-file", h("Popen2IO", a.self, "outfile") != 0)],
                   modifies=lambda a, h: [("RawOut", h("Popen2IO", a.self, "outfile"), "$closed")],
                   cases=[Case("ok", post=lambda a, h, h2, r: [h2("RawOut", h("Popen2IO", a.self, "outfile"), "$closed")])], props=["C04", "C08", "C16"]))
    w.add(Contract(f"{GB}:Popen2IO.close_read", {"self": REF("Popen2IO")}, requires=lambda a, h: [("has-file", h("Popen2IO", a.self, "infile") != 0)],
                   modifies=lambda a, h: [("RawIn", h("Popen2IO", a.self, "infile"), "$closed")],
                   cases=[Case("ok", post=lambda a, h, h2, r: [h2("RawIn", h("Popen2IO", a.self, "infile"), "$closed")])], props=["C04", "C08", "C16"]))
    w.add(os_read("RawIn", "model:RawIn.read", "n"))
    w.add(os_read("Sock", "model:Sock.recv", "n"))

    def os_write(cls, target):
        def ok(a, h, h2, res):
            return [h2(cls, a.self, "written") == z3.Concat(h(cls, a.self, "written"), a.data),
                    h2(cls, a.self, "nwrites") == h(cls, a.self, "nwrites") + 1]

        return Contract(
            target, {"self": REF(cls), "data": BYTES},
            modifies=lambda a, h: [(cls, a.self, "written"), (cls, a.self, "nwrites")],
            cases=[Case("ok", post=ok), Case("oserror", "raise", "OSError"), Case("closed", "raise", "ValueError")],
            trusted=True, note="OS write/sendall: all bytes appended in order, or OSError / ValueError (closed file)",
        )

    w.add(os_write("RawOut", "model:RawOut.write"))
    w.add(os_write("Sock", "model:Sock.sendall"))
    # socket.send(): may transmit only a PREFIX of the data and returns how many bytes went out (sendall is the one that loops)
    w.add(Contract("model:Sock.send", {"self": REF("Sock"), "data": BYTES}, modifies=lambda a, h: [("Sock", a.self, "written"), ("Sock", a.self, "nwrites")],
                   cases=[Case("some", restype=INT, post=lambda a, h, h2, r: [r >= 0, r <= z3.Length(a.data), z3.Implies(z3.Length(a.data) > 0, r >= 1),
                                                                             h2("Sock", a.self, "written") == z3.Concat(h("Sock", a.self, "written"), z3.SubSeq(a.data, 0, r)),
                                                                             h2("Sock", a.self, "nwrites") == h("Sock", a.self, "nwrites") + 1]),
                          Case("oserror", "raise", "OSError")], trusted=True, note="socket.send: a non-empty prefix is sent"))
    w.add(Contract("model:RawOut.flush", {"self": REF("RawOut")},
                   modifies=lambda a, h: [("RawOut", a.self, "nflush")],
                   cases=[Case("ok", post=lambda a, h, h2, r: [h2("RawOut", a.self, "nflush") == h("RawOut", a.self, "nflush") + 1]),
                          Case("oserror", "raise", "OSError"), Case("closed", "raise", "ValueError")], trusted=True))

    # ---------------- the IO read/write contract (one text, three views) --
    def read_contract(target, cls, view, argname, trusted=False, eof_has_message=True):
        """read(n): exactly the next n bytes, or EOFError if the stream ends first."""

        def when_ok(a, h):
            return getattr(a, argname) <= slen(view(a, h))

        def post_ok(a, h, h2, res):
            n = getattr(a, argname)
            n0 = z3.If(n < 0, 0, n)
            u = view(a, h)
            return [res == prefix(u, n0), view(a, h2) == suffix(u, n0)]

        def post_eof(a, h, h2, e):
            out = [slen(view(a, h2)) == 0]  # a short stream is consumed to its end
            if eof_has_message and isinstance(e, ExcV):
                out.append(z3.BoolVal(len(e.args) >= 1))
            return out

        eof = Case("eof", "raise", "EOFError", when=lambda a, h: z3.Not(when_ok(a, h)), post=post_eof)
        eof.nargs = 1 if eof_has_message else 0
        return Contract(target, {"self": REF(cls), argname: INT},
                        modifies=lambda a, h: modcells(a, h),
                        cases=[Case("ok", restype=BYTES, when=when_ok, post=post_ok), eof],
                        props=["C08", "C04", "C16"], trusted=trusted)

    def write_contract(target, cls, wview, nview, cells, trusted=False):
        def post(a, h, h2, res):
            return [wview(a, h2) == z3.Concat(wview(a, h), a.data), nview(a, h2) == nview(a, h) + 1]

        return Contract(target, {"self": REF(cls), "data": BYTES}, modifies=cells,
                        cases=[Case("ok", post=post), Case("oserror", "raise", "OSError"), Case("closed", "raise", "ValueError")],
                        props=["C08", "C16"], trusted=trusted)

    # abstract protocol object (what Message/BaseGateway are verified against)
    modcells = lambda a, h: [("IO", a.self, "unread")]
    w.add(read_contract("model:IO.read", "IO", lambda a, h: h("IO", a.self, "unread"), "numbytes", trusted=True))
    iow = write_contract("model:IO.write", "IO", lambda a, h: h("IO", a.self, "written"), lambda a, h: h("IO", a.self, "nwrites"),
                         lambda a, h: [("IO", a.self, "written"), ("IO", a.self, "nwrites")], trusted=True)
    # frames never interleave: whoever writes holds the lock that guards this connection
    # (a transport whose write() is atomic by itself declares no guard: $guard == 0 means "not shared")
    iow.requires = lambda a, h: [("exclusive-writer", exclusive(h, a.self))]
    w.add(iow)

    # Popen2IO: view = the kernel pipe behind infile / outfile
    pin = lambda a, h: h("RawIn", h("Popen2IO", a.self, "infile"), "unread")
    modcells_p = lambda a, h: [("RawIn", h("Popen2IO", a.self, "infile"), "unread")]
    c = read_contract(f"{GB}:Popen2IO.read", "Popen2IO", pin, "numbytes")
    c.modifies = modcells_p
    w.add(c)
    w.add_loop(LoopSpec(
        f"{GB}:Popen2IO.read", 0,
        invariant=lambda L: [
            ("buf-is-consumed-prefix", L.old("RawIn", L.h("Popen2IO", L.inp("self"), "infile"), "unread")
             == z3.Concat(L.buf, L.h("RawIn", L.h("Popen2IO", L.inp("self"), "infile"), "unread"))),
            ("never-more-than-asked", z3.Or(slen(L.buf) <= L.numbytes, slen(L.buf) == 0)),
            ("params-unchanged", L.numbytes == L.inp("numbytes")),
        ],
        variant=lambda L: L.numbytes - slen(L.buf),
        havoc_cells=lambda L: [("RawIn", L.h("Popen2IO", L.inp("self"), "infile"), "unread")], props=["C08"]))
    pout = lambda a, h: h("RawOut", h("Popen2IO", a.self, "outfile"), "written")
    pn = lambda a, h: h("RawOut", h("Popen2IO", a.self, "outfile"), "nwrites")
    cw = write_contract(f"{GB}:Popen2IO.write", "Popen2IO", pout, pn,
                        lambda a, h: [("RawOut", h("Popen2IO", a.self, "outfile"), f) for f in ("written", "nwrites", "nflush")])
    # flush must follow the write: one more flush than before on success
    old_post = cw.cases[0].post
    cw.cases[0].post = lambda a, h, h2, r: old_post(a, h, h2, r) + [
        h2("RawOut", h("Popen2IO", a.self, "outfile"), "nflush") == h("RawOut", h("Popen2IO", a.self, "outfile"), "nflush") + 1]
    w.add(cw)

    # SocketIO: view = the kernel socket
    sin = lambda a, h: h("Sock", h("SocketIO", a.self, "sock"), "unread")
    c = read_contract(f"{GSOCK}:SocketIO.read", "SocketIO", sin, "numbytes")
    c.modifies = lambda a, h: [("Sock", h("SocketIO", a.self, "sock"), "unread")]
    w.add(c)
    w.add_loop(LoopSpec(
        f"{GSOCK}:SocketIO.read", 0,
        invariant=lambda L: [
            ("buf-is-consumed-prefix", L.old("Sock", L.h("SocketIO", L.inp("self"), "sock"), "unread")
             == z3.Concat(L.buf, L.h("Sock", L.h("SocketIO", L.inp("self"), "sock"), "unread"))),
            ("never-more-than-asked", z3.Or(slen(L.buf) <= L.numbytes, slen(L.buf) == 0)),
            ("params-unchanged", L.numbytes == L.inp("numbytes")),
        ],
        variant=lambda L: L.numbytes - slen(L.buf),
        havoc_cells=lambda L: [("Sock", L.h("SocketIO", L.inp("self"), "sock"), "unread")], props=["C08"]))
    w.add(write_contract(f"{GSOCK}:SocketIO.write", "SocketIO",
                         lambda a, h: h("Sock", h("SocketIO", a.self, "sock"), "written"),
                         lambda a, h: h("Sock", h("SocketIO", a.self, "sock"), "nwrites"),
                         lambda a, h: [("Sock", h("SocketIO", a.self, "sock"), f) for f in ("written", "nwrites")]))

    # ---------------- Message ------------------------------------------
    def exclusive(h, io):
        g = h("IO", io, "$guard")
        return z3.Or(g == 0, h.holds(g))

    def in_ranges(code, cid, data):
        return [("msgcode-int8", z3.And(code >= -128, code <= 127)),
                ("channelid-int32", z3.And(cid >= I32_MIN, cid <= I32_MAX)),
                ("payload-int32", slen(data) <= I32_MAX)]

    w.add(Contract(
        f"{GB}:Message.to_io", {"self": REF("Message"), "io": REF("IO")},
        requires=lambda a, h: in_ranges(h("Message", a.self, "msgcode"), h("Message", a.self, "channelid"), h("Message", a.self, "data"))
        + [("io-not-none", a.io != 0), ("exclusive-writer", exclusive(h, a.io))],
        modifies=lambda a, h: [("IO", a.io, "written"), ("IO", a.io, "nwrites")],
        cases=[
            Case("ok", post=lambda a, h, h2, r: [
                h2("IO", a.io, "written") == z3.Concat(h("IO", a.io, "written"),
                                                       frame(h("Message", a.self, "msgcode"), h("Message", a.self, "channelid"), h("Message", a.self, "data"))),
                h2("IO", a.io, "nwrites") == h("IO", a.io, "nwrites") + 1]),  # exactly one write per frame
            Case("oserror", "raise", "OSError"), Case("closed", "raise", "ValueError")],
        props=["C08"]))

    def hdr(u):
        return uns8(z3.SubSeq(u, 0, 1)), unbe32(z3.SubSeq(u, 1, 4)), unbe32(z3.SubSeq(u, 5, 4))

    def from_io_complete(a, h):
        u = h("IO", a.io, "unread")
        n = hdr(u)[2]
        return z3.And(slen(u) >= 9, slen(u) >= 9 + n)

    def from_io_post(a, h, h2, res):
        u = h("IO", a.io, "unread")
        code, cid, n = hdr(u)
        n0 = z3.If(n < 0, 0, n)
        return [res != 0,
                h2("Message", res, "msgcode") == code, h2("Message", res, "channelid") == cid,
                h2("Message", res, "data") == z3.SubSeq(u, 9, n0),
                h2("IO", a.io, "unread") == suffix(u, 9 + n0)]

    w.add(Contract(
        f"{GB}:Message.from_io", {"io": REF("IO")},
        requires=lambda a, h: [("io-not-none", a.io != 0)],
        modifies=lambda a, h: [("IO", a.io, "unread")],
        cases=[Case("ok", restype=REF("Message"), when=from_io_complete, post=from_io_post),
               Case("eof", "raise", "EOFError", when=lambda a, h: z3.Not(from_io_complete(a, h)),
                    post=lambda a, h, h2, e: [slen(h2("IO", a.io, "unread")) == 0])],
        props=["C08", "C04"], allocates=True))

    # ---------------- BaseGateway._send ---------------------------------
    s.declare("BaseGateway", "_io", REF("IO"))
    w.add(Contract(
        f"{GB}:BaseGateway._send", {"self": REF("BaseGateway"), "msgcode": INT, "channelid": INT, "data": BYTES},
        defaults={"channelid": 0, "data": b""},
        requires=lambda a, h: in_ranges(a.msgcode, a.channelid, a.data) + [
            ("io-not-none", h("BaseGateway", a.self, "_io") != 0),
            # class invariant of BaseGateway (both fields are assigned in __init__ only: static obligation in C08):
            # a gateway's connection is shared by user threads and the receiver thread, and its guard is _sendlock
            ("inv-io-guarded-by-sendlock", z3.And(h("IO", h("BaseGateway", a.self, "_io"), "$guard") != 0,
                                                  h("IO", h("BaseGateway", a.self, "_io"), "$guard") == h("BaseGateway", a.self, "_sendlock")))],
        modifies=lambda a, h: [("IO", h("BaseGateway", a.self, "_io"), "written"), ("IO", h("BaseGateway", a.self, "_io"), "nwrites")],
        cases=[
            Case("ok", post=lambda a, h, h2, r: [
                h2("IO", h("BaseGateway", a.self, "_io"), "written")
                == z3.Concat(h("IO", h("BaseGateway", a.self, "_io"), "written"), frame(a.msgcode, a.channelid, a.data)),
                h2("IO", h("BaseGateway", a.self, "_io"), "nwrites") == h("IO", h("BaseGateway", a.self, "_io"), "nwrites") + 1]),
            Case("cannot-send", "raise", "OSError")],
        props=["C08", "C02", "C04"]))

    return w


def lemmas(w):
    """Property-level lemmas over the contracts (pure SMT obligations).

    roundtrip: reading what to_io wrote (followed by anything) yields the same message and leaves the rest.
    """
    out = []
    code, cid = z3.Int("L_code"), z3.Int("L_cid")
    data, rest = z3.String("L_data"), z3.String("L_rest")
    u = z3.Concat(frame(code, cid, data), rest)
    hyp = [code >= -128, code <= 127, cid >= I32_MIN, cid <= I32_MAX, slen(data) <= I32_MAX]
    rcode, rcid, rn = uns8(z3.SubSeq(u, 0, 1)), unbe32(z3.SubSeq(u, 1, 4)), unbe32(z3.SubSeq(u, 5, 4))
    goal = z3.And(slen(u) >= 9, slen(u) >= 9 + rn, rcode == code, rcid == cid, rn == slen(data),
                  z3.SubSeq(u, 9, z3.If(rn < 0, 0, rn)) == data, suffix(u, 9 + z3.If(rn < 0, 0, rn)) == rest)
    out.append(("lemma/frame-roundtrip", hyp, goal, {"code": code, "cid": cid, "data": data, "rest": rest}))
    # cut anywhere: a strict prefix of a frame is never complete (C04)
    cut = z3.Int("L_cut")
    f = frame(code, cid, data)
    p = prefix(f, cut)
    pn = unbe32(z3.SubSeq(p, 5, 4))
    goal2 = z3.Not(z3.And(slen(p) >= 9, slen(p) >= 9 + pn))
    out.append(("lemma/strict-prefix-incomplete", hyp + [cut >= 0, cut < slen(f)], goal2, {"code": code, "cid": cid, "data": data, "cut": cut}))
    return out
