"""MultiChannel.make_receive_queue (C10): one shared queue; every member channel gets a callback with exactly the endmarker that was asked for."""
from __future__ import annotations

import z3

from pyvc import core
from pyvc.contracts import Args, Case, Contract, LoopSpec
from pyvc.core import ANY, BOOL, FUNCT, INT, NONEV, REF, SEQ, STR, SV, U, Unsupported, mk_bool
from pyvc.symexec import ExternD, FuncD, ModuleD

from .base import GB, MULTI, slen

NOEND = z3.Const("NO_ENDMARKER_WANTED", U)
J9 = z3.Int("J9")
MRQ = f"{MULTI}:MultiChannel.make_receive_queue"
fn2u = z3.Function("fn2u", z3.StringSort(), U)


def declare(w):
    s = w.schema
    s.set_bases("MultiChannel", ["object"])
    s.set_bases("Queue", ["object"])
    s.declare("MultiChannel", "_channels", SEQ(REF("Channel")))
    s.declare("MultiChannel", "_queue", REF("Queue"))
    s.declare("MultiChannel", "$has_queue", BOOL, ghost=True)        # the attribute _queue exists
    s.declare("Channel", "gateway", REF("BaseGateway"))
    s.declare("BaseGateway", "execmodel", REF("ExecModel"))
    s.declare("Channel", "$cb", BOOL, ghost=True)                    # a callback is registered
    s.declare("Channel", "$cb_endmarker", ANY, ghost=True)           # with this endmarker (NO_ENDMARKER_WANTED: none)
    M = lambda h, m, f: h("MultiChannel", m, f)
    CH = lambda h, c, f: h("Channel", c, f)
    for modname in (MULTI, GB):
        w.attr_hooks[("module:" + modname, "NO_ENDMARKER_WANTED")] = lambda ex, st, recv: SV(ANY, NOEND)

    def co_fn(val, ty):
        if ty == ANY and val.ty.kind == "func" and hasattr(val.v, "qualname"):
            return SV(ANY, fn2u(z3.StringVal(val.v.qualname)))
        return None

    co_fn.__name__ = "co_fn"
    core.COERCE_HOOKS[:] = [h for h in core.COERCE_HOOKS if getattr(h, "__name__", "") != "co_fn"] + [co_fn]

    def queue_attr(ex, st, recv):
        # attribute access: AttributeError while make_receive_queue has not stored the attribute yet
        sink = ex._cur_sink
        for s2, has in ex.fork(st, st.heap.get(recv, "$has_queue").v):
            if has:
                yield s2, s2.heap.get(recv, "_queue")
            else:
                ex.raise_(s2, sink, "AttributeError", origin="MultiChannel._queue")

    def set_queue(ex, recv, attr, v, st, sink):
        ex.set_field(st, recv, "_queue", core.coerce(v, REF("Queue")))
        ex.set_field(st, recv, "$has_queue", mk_bool(True))
        return [st]

    w.call_hooks[("setattr", "ref:MultiChannel._queue")] = set_queue
    w.attr_hooks[("ExecModel", "queue")] = lambda ex, st, recv: SV(FUNCT, ModuleD("execmodel.queue"))

    def mk_queue(ex, args, kwargs, st, sink, node):
        yield st, ex.allocate(st, "Queue")

    w.externals["execmodel.queue.Queue"] = mk_queue
    w.add(Contract(f"{GB}:Channel.setcallback", {"self": REF("Channel"), "callback": ANY, "endmarker": ANY}, defaults={"endmarker": SV(ANY, NOEND)},
                   modifies=lambda a, h: [("Channel", a.self, "$cb"), ("Channel", a.self, "$cb_endmarker")],
                   cases=[Case("ok", when=lambda a, h: z3.Not(CH(h, a.self, "$cb")), post=lambda a, h, h2, r: [CH(h2, a.self, "$cb"), CH(h2, a.self, "$cb_endmarker") == a.endmarker]),
                          Case("already-has-callback", "raise", "OSError", when=lambda a, h: CH(h, a.self, "$cb"))], trusted=True,
                   note="C10 (verified there): registers the callback with the given endmarker; without the argument no endmarker is wanted"))

    def distinct(h, m):
        i, j = z3.Int("qm1"), z3.Int("qm2")
        L = M(h, m, "_channels")
        return z3.ForAll([i, j], z3.Implies(z3.And(i >= 0, i < j, j < slen(L)), L[i] != L[j]), patterns=[z3.MultiPattern(L[i], L[j])])

    def nonnull(h, m):
        i = z3.Int("qm3")
        L = M(h, m, "_channels")
        return z3.ForAll([i], z3.Implies(z3.And(i >= 0, i < slen(L)), z3.And(L[i] != 0, CH(h, L[i], "gateway") != 0, h("BaseGateway", CH(h, L[i], "gateway"), "execmodel") != 0,
                                                                           z3.Not(CH(h, L[i], "$cb")))), patterns=[L[i]])

    def post_new(a, h, h2, r, gen=False):
        L = M(h, a.self, "_channels")
        j = z3.Int("qm4") if gen else J9
        f = z3.Implies(z3.And(j >= 0, j < slen(L)), z3.And(CH(h2, L[j], "$cb"), CH(h2, L[j], "$cb_endmarker") == a.endmarker))      # exactly the endmarker asked for - None included
        return [M(h2, a.self, "$has_queue"), r == M(h2, a.self, "_queue"), z3.Implies(slen(L) > 0, r != 0),
                z3.ForAll([j], f, patterns=[L[j]]) if gen else f]

    c = w.add(Contract(MRQ, {"self": REF("MultiChannel"), "endmarker": ANY}, defaults={"endmarker": SV(ANY, NOEND)},
                       requires=lambda a, h: [("members", z3.And(distinct(h, a.self), nonnull(h, a.self))), ("first-call", z3.Not(M(h, a.self, "$has_queue")))],
                       modifies=lambda a, h: [("MultiChannel", a.self, "_queue"), ("MultiChannel", a.self, "$has_queue"), ("Channel", None, "$cb"), ("Channel", None, "$cb_endmarker")],
                       cases=[Case("ok", restype=REF("Queue"), post=post_new)], props=["C10"], allocates=True))
    w.attr_hooks[("MultiChannel", "_queue")] = queue_attr

    def inv(L, gen=False):
        m = L.inp("self")
        h, old = L.h, L.old
        Lc = M(old, m, "_channels")
        j = z3.Int("qm5") if gen else J9
        fa = (lambda f: z3.ForAll([j], f, patterns=[Lc[j]])) if gen else (lambda f: f)
        return [("members-so-far-have-the-callback", fa(z3.Implies(z3.And(j >= 0, j < L.k), z3.And(CH(h, Lc[j], "$cb"), CH(h, Lc[j], "$cb_endmarker") == L.inp("endmarker"))))),
                ("members-to-come-untouched", fa(z3.Implies(z3.And(j >= L.k, j < slen(Lc)), z3.Not(CH(h, Lc[j], "$cb"))))),
                ("queue", z3.And(M(h, m, "$has_queue"), z3.Implies(L.k > 0, M(h, m, "_queue") != 0), M(h, m, "_channels") == Lc)),
                ("params", z3.And(L.self == m, L.endmarker == L.inp("endmarker")))]

    ls = LoopSpec(MRQ, 0, invariant=lambda L: inv(L), havoc_cells=lambda L: [("MultiChannel", L.inp("self"), "_queue"), ("MultiChannel", L.inp("self"), "$has_queue")], havoc_fields=["Channel.$cb", "Channel.$cb_endmarker"], props=["C10"])
    ls.invariant_assume = lambda L: [f for _, f in inv(L, gen=True)] + [distinct(L.old, L.inp("self")), nonnull(L.old, L.inp("self"))]
    w.add_loop(ls)
    return w
