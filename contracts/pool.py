"""Contracts for Reply and WorkerPool (C09, C14): monitor invariant of _running_lock with ghost ownership."""
from __future__ import annotations

import z3

from pyvc import core
from pyvc.contracts import Case, Contract, LoopSpec, Monitor
from pyvc.core import ANY, BOOL, FUNCT, INT, NONE, NONEV, OPT, REF, SEQ, SETT, STR, SV, TUP, ExcV, Unsupported, mk_bool
from pyvc.symexec import ExternD, FuncD

from .base import GB, slen

# ghost ownership of an accepted task
O_NONE, O_THREAD, O_MAILBOX, O_PRIMARY, O_DONE = 0, 1, 2, 3, 4
THREAD, MTO = z3.StringVal("thread"), z3.StringVal("main_thread_only")
R0 = z3.Int("R0")   # an arbitrary but fixed reply: invariants quantified over replies are carried for R0
W0 = z3.Int("W0")   # an arbitrary position in the waiter list


def declare(w):
    s = w.schema
    s.set_bases("Event", ["object"])
    s.set_bases("Lock", ["object"])
    s.declare("Event", "$set", BOOL, ghost=True)
    s.declare("Event", "$role", INT, ghost=True)   # where the event was created: 0 waitall waiter, 1 pool ready flag, 2 reply result flag, 3 other
    ROLE = {"WorkerPool.waitall": 0, "WorkerPool.__init__": 1, "Reply.__init__": 2}

    def event_role(ex, st, r):
        q = ex.frame.qualname if ex.frame is not None else ""
        st.heap.set(r, "$role", SV(INT, z3.IntVal(ROLE.get(q, 3))))

    w.alloc_hooks = dict(getattr(w, "alloc_hooks", {}), Event=event_role)
    role = lambda h, e: h("Event", e, "$role")
    s.declare("ExecModel", "backend", STR)
    s.declare("Reply", "task", TUP(ANY, ANY, ANY))
    s.declare("Reply", "_result_ready", REF("Event"))
    s.declare("Reply", "running", BOOL)
    s.declare("Reply", "_result", ANY)
    s.declare("Reply", "_exc", ANY)
    s.declare("Reply", "$has_result", BOOL, ghost=True)
    s.declare("Reply", "$has_exc", BOOL, ghost=True)
    s.declare("Reply", "$runs", INT, ghost=True)      # how often the task's function was called
    s.declare("Reply", "$owner", INT, ghost=True)     # who is responsible for running it
    s.declare("WorkerPool", "execmodel", REF("ExecModel"))
    s.declare("WorkerPool", "_running_lock", REF("Lock"))
    s.declare("WorkerPool", "_running", SETT(REF("Reply")))
    s.declare("WorkerPool", "_shuttingdown", BOOL)
    s.declare("WorkerPool", "_waitall_events", SEQ(REF("Event")))
    s.declare("WorkerPool", "_primary_thread_task_ready", REF("Event"))
    s.declare("WorkerPool", "_primary_thread_task", REF("Reply"))
    s.declare("WorkerPool", "$started", SETT(REF("Reply")), ghost=True)   # replies handed to execmodel.start

    w.alloc_defaults = dict(getattr(w, "alloc_defaults", {}), Reply={"$runs": 0, "$owner": O_NONE, "$has_result": False, "$has_exc": False})
    H = lambda cls, f: (lambda h, r: h(cls, r, f))
    ev_set = lambda h, e: h("Event", e, "$set")
    owner = lambda h, r: h("Reply", r, "$owner")
    runs = lambda h, r: h("Reply", r, "$runs")

    # ---- library primitives (trusted) -----------------------------------------------------------------
    w.add(Contract("model:Event.set", {"self": REF("Event")}, modifies=lambda a, h: [("Event", a.self, "$set")],
                   cases=[Case("ok", post=lambda a, h, h2, r: [ev_set(h2, a.self)])], trusted=True))
    w.add(Contract("model:Event.clear", {"self": REF("Event")}, modifies=lambda a, h: [("Event", a.self, "$set")],
                   cases=[Case("ok", post=lambda a, h, h2, r: [z3.Not(ev_set(h2, a.self))])], trusted=True))
    w.add(Contract("model:Event.is_set", {"self": REF("Event")}, cases=[Case("ok", restype=BOOL, post=lambda a, h, h2, r: [r == ev_set(h, a.self)])], trusted=True))
    w.add(Contract("model:Event.wait", {"self": REF("Event"), "timeout": OPT(INT)}, defaults={"timeout": None},
                   modifies=lambda a, h: [("Event", a.self, "$set")],
                   cases=[Case("ok", restype=BOOL, post=lambda a, h, h2, r: [r == ev_set(h2, a.self), z3.Implies(a.sv("timeout").v[0], r),
                                                                            z3.Implies(ev_set(h, a.self), ev_set(h2, a.self))])],
                   trusted=True, note="Event.wait: returns the flag; without a timeout it returns only once the flag is set; other threads may set it meanwhile (a set flag stays set unless this thread's code clears it)"))
    w.add(Contract("model:ExecModel.Lock", {"self": REF("ExecModel")}, cases=[Case("ok", restype=REF("Lock"), post=lambda a, h, h2, r: [r != 0])], trusted=True, allocates=True))
    w.add(Contract("model:ExecModel.RLock", {"self": REF("ExecModel")}, cases=[Case("ok", restype=REF("Lock"), post=lambda a, h, h2, r: [r != 0])], trusted=True, allocates=True))
    w.add(Contract("model:ExecModel.Event", {"self": REF("ExecModel")},
                   cases=[Case("ok", restype=REF("Event"), post=lambda a, h, h2, r: [r != 0, z3.Not(ev_set(h2, r))])], trusted=True, allocates=True))

    # ---- opaque callables: the task function ---------------------------------------------------------------
    def call_opaque(ex, callee, args, kwargs, st, sink, node):
        """user code: returns some object or raises anything; touches no pool state (assumption)"""
        ok = st.fork()
        yield ok, core.fresh(ANY, "userresult")
        bad = st.fork()
        e = ExcV("BaseException", (), None, origin="user function")
        e.exact, e.excluded = False, ()
        sink.append((bad, ("raise", e)))

    w.call_hooks[("call", "opaque")] = call_opaque
    w.call_hooks[("call", "any")] = call_opaque

    def star_call(ex, node, st, sink):
        # func(*args, **kwargs) with an opaque func
        for s2, callee in ex.ev(node.func, st, sink):
            if callee.ty.kind == "any":
                if ex.frame.qualname == "Reply.run" and "self" in s2.locals:
                    me = s2.locals["self"]   # ghost: this is the one place where a task's function is called
                    s2.heap.set(me, "$runs", SV(INT, s2.heap.get(me, "$runs").v + 1))
                    if ex.written_fields is not None:
                        ex.written_fields.add("Reply.$runs")
                yield from call_opaque(ex, callee, [], {}, s2, sink, node)
            else:
                raise Unsupported(f"*args call of {callee.ty!r} at line {node.lineno}")

    w.call_hooks[("call", "star")] = star_call

    def raise_any(ex, v, st, node):
        e = ExcV("BaseException", (), None, origin="stored exception")
        e.exact, e.excluded = False, ()
        return e

    w.call_hooks[("raise", "any")] = raise_any

    def set_exc(ex, recv, attr, v, st, sink):
        ex.set_field(st, recv, "_exc", core.fresh(ANY, "exc"))
        ex.set_field(st, recv, "$has_exc", mk_bool(True))
        return [st]

    w.call_hooks[("setattr", "ref:Reply._exc")] = set_exc

    def set_running(ex, recv, attr, v, st, sink):
        ex.set_field(st, recv, "running", v)
        if ex.frame.qualname == "Reply.run":   # ghost: `_result_ready.set(); self.running = False` ends the task (taken as one step)
            ex.set_field(st, recv, "$owner", SV(INT, z3.IntVal(O_DONE)))
        return [st]

    w.call_hooks[("setattr", "ref:Reply.running")] = set_running

    def set_result(ex, recv, attr, v, st, sink):
        ex.set_field(st, recv, "_result", v)
        ex.set_field(st, recv, "$has_result", mk_bool(True))
        return [st]

    w.call_hooks[("setattr", "ref:Reply._result")] = set_result

    def get_result(ex, st, recv):
        sink = ex._cur_sink
        for s2, has in ex.fork(st, st.heap.get(recv, "$has_result").v):
            if has:
                yield s2, s2.heap.get(recv, "_result")
            else:
                ex.raise_(s2, sink, "AttributeError", origin="_result")

    w.attr_hooks[("Reply", "_result")] = get_result

    # ---- Reply -----------------------------------------------------------------------------------------------
    w.add(Contract(f"{GB}:Reply.__init__", {"self": REF("Reply"), "task": TUP(ANY, ANY, ANY), "threadmodel": REF("ExecModel")},
                   requires=lambda a, h: [("model-not-none", a.threadmodel != 0)],
                   modifies=lambda a, h: [("Reply", a.self, f) for f in ("task", "_result_ready", "running")],
                   cases=[Case("ok", post=lambda a, h, h2, r: [h2("Reply", a.self, "running"), h2("Reply", a.self, "_result_ready") != 0,
                                                               z3.Not(ev_set(h2, h2("Reply", a.self, "_result_ready"))), role(h2, h2("Reply", a.self, "_result_ready")) == 2,
                                                               z3.Not(h("object", h2("Reply", a.self, "_result_ready"), "$alloc"))])],   # a fresh event
                   props=["C09"], allocates=True))

    def run_post(a, h, h2, r):
        e = h("Reply", a.self, "_result_ready")
        return [runs(h2, a.self) == runs(h, a.self) + 1,                       # the function was called exactly once by this call
                ev_set(h2, e), z3.Not(h2("Reply", a.self, "running")),
                z3.Xor(h2("Reply", a.self, "$has_result"), h2("Reply", a.self, "$has_exc")),   # result xor exception
                owner(h2, a.self) == O_DONE, h2("Reply", a.self, "_result_ready") == e]

    w.add(Contract(f"{GB}:Reply.run", {"self": REF("Reply")},
                   requires=lambda a, h: [("fresh-outcome", z3.And(z3.Not(h("Reply", a.self, "$has_result")), z3.Not(h("Reply", a.self, "$has_exc")))),
                                          ("has-event", h("Reply", a.self, "_result_ready") != 0)],
                   modifies=lambda a, h: [("Reply", a.self, f) for f in ("_result", "_exc", "$has_result", "$has_exc", "$runs", "running", "$owner")]
                   + [("Event", h("Reply", a.self, "_result_ready"), "$set")],
                   cases=[Case("ok", post=run_post)], props=["C09"]))
    # publication order: whoever is woken by the result event (get / waitfinish) must find the outcome stored
    w.contracts[f"{GB}:Reply.run"].at_call = {"model:Event.set": lambda a, h0, call, hnow, loc=None: [
        ("outcome-stored-before-the-result-event-is-set", z3.Implies(call.self == h0("Reply", a.self, "_result_ready"), z3.Or(hnow("Reply", a.self, "$has_result"), hnow("Reply", a.self, "$has_exc"))))]}

    # ghost: calling the task function counts a run; setting the ready event marks the task done
    def count_run(ex, callee, args, kwargs, st, sink, node):
        yield from call_opaque(ex, callee, args, kwargs, st, sink, node)

    def reply_unpack_hook():
        pass

    w.add(Contract(f"{GB}:Reply.waitfinish", {"self": REF("Reply"), "timeout": OPT(INT)}, defaults={"timeout": None},
                   requires=lambda a, h: [("has-event", h("Reply", a.self, "_result_ready") != 0)],
                   # blocks: the thread that owns the task may run it meanwhile (reply-local state may change, pool state may not: the caller may hold the pool lock)
                   modifies=lambda a, h: [("Reply", a.self, f) for f in ("_result", "_exc", "$has_result", "$has_exc", "$runs", "running", "$owner")]
                   + [("Event", h("Reply", a.self, "_result_ready"), "$set")],
                   cases=[Case("finished", post=lambda a, h, h2, r: [ev_set(h2, h("Reply", a.self, "_result_ready"))],
                               # Reply invariant (assumed at call sites): the ready event of an accepted task is set only by Reply.run, which ends the task
                               post_assume=lambda a, h, h2, r: [ev_set(h2, h("Reply", a.self, "_result_ready")),
                                                                owner(h2, a.self) == z3.If(owner(h, a.self) != O_NONE, z3.IntVal(O_DONE), owner(h, a.self))]),
                          Case("timeout", "raise", "OSError", when=lambda a, h: z3.Not(a.sv("timeout").v[0]),
                               post=lambda a, h, h2, e: [])],
                   props=["C09"], note="a timed-out wait raises OSError and cancels nothing"))
    w.add(Contract(f"{GB}:Reply.get", {"self": REF("Reply"), "timeout": OPT(INT)}, defaults={"timeout": None},
                   requires=lambda a, h: [("has-event", h("Reply", a.self, "_result_ready") != 0),
                                          # invariant of Reply: once the ready event is set exactly one of result / exception is stored
                                          ("reply-inv", z3.Implies(ev_set(h, h("Reply", a.self, "_result_ready")), z3.Xor(h("Reply", a.self, "$has_result"), h("Reply", a.self, "$has_exc"))))],
                   modifies=lambda a, h: [("Reply", a.self, f) for f in ("_result", "_exc", "$has_result", "$has_exc", "$runs", "running", "$owner")]
                   + [("Event", h("Reply", a.self, "_result_ready"), "$set")],
                   cases=[Case("value", restype=ANY, post=lambda a, h, h2, r: [h2("Reply", a.self, "$has_result"), r == h2("Reply", a.self, "_result")]),
                          Case("reraise", "raise", "BaseException", post=lambda a, h, h2, e: []),
                          Case("timeout", "raise", "OSError", when=lambda a, h: z3.Not(a.sv("timeout").v[0]))],
                   props=["C09"]))

    # ---- ghost updates attached to the statements that cause them ----------------------------------------------
    def set_mailbox(ex, recv, attr, v, st, sink):
        ex.set_field(st, recv, "_primary_thread_task", v)
        if v.ty.kind == "ref":
            for s2, nn in [(st, None)]:
                cur = st.heap.get(v, "$owner")
                st.heap.set(v, "$owner", SV(INT, z3.If(v.v != 0, z3.IntVal(O_MAILBOX), cur.v)))
        return [st]

    w.call_hooks[("setattr", "ref:WorkerPool._primary_thread_task")] = set_mailbox

    def start_thread(ex, args, kwargs, st, sink, node):
        # execmodel.start(self._perform_spawn, (reply,)): a new thread will call _perform_spawn(reply) exactly once, eventually
        func, targs = args
        nm = func.v.qualname if isinstance(func.v, FuncD) else getattr(func.v, "name", "")
        if func.ty.kind == "func" and nm.endswith("_perform_spawn") and targs.ty.kind == "tuple":
            reply = targs.v[0]
            st.heap.set(reply, "$owner", SV(INT, z3.IntVal(O_THREAD)))
            if ex.written_fields is not None:
                ex.written_fields.add("Reply.$owner")
        yield st, NONEV

    w.add(Contract("model:ExecModel.start", {"self": REF("ExecModel"), "func": ANY, "args": ANY}, cases=[Case("ok")], trusted=True))
    w.call_hooks[("ExecModel", "start")] = None
    del w.call_hooks[("ExecModel", "start")]
    w.attr_hooks[("ExecModel", "start")] = lambda ex, st, recv: SV(FUNCT, ExternD("execmodel.start"))
    w.externals["execmodel.start"] = start_thread

    # ---- the monitor ------------------------------------------------------------------------------------------------
    def P(h, p, f):
        return h("WorkerPool", p, f)

    def inv(h, p):
        R = P(h, p, "_running")
        T = P(h, p, "_primary_thread_task")
        E = P(h, p, "_primary_thread_task_ready")
        Wl = P(h, p, "_waitall_events")
        inR = z3.Select(R, R0)
        o = owner(h, R0)
        return [
            # 1. an accepted, unfinished task always has an owner that will run it, and has not run more than once
            ("accepted-task-has-owner", z3.Implies(z3.And(R0 != 0, inR), z3.And(z3.Or(o == O_THREAD, o == O_MAILBOX, o == O_PRIMARY, o == O_DONE),
                                                                               z3.Implies(z3.Or(o == O_THREAD, o == O_MAILBOX), runs(h, R0) == 0)))),
            # 2. a task waiting in the mailbox is reachable by the primary thread: it IS the mailbox content and the ready flag is up
            ("mailbox-task-reachable", z3.Implies(z3.And(R0 != 0, inR, o == O_MAILBOX), z3.And(E != 0, T == R0, ev_set(h, E)))),
            # 4. waiters are registered only while something runs, and a registered waiter is not yet woken
            ("waiters-only-while-running", z3.Implies(slen(Wl) > 0, R != z3.K(z3.IntSort(), z3.BoolVal(False)))),
            ("registered-waiter-unset", z3.Implies(z3.And(W0 >= 0, W0 < slen(Wl)), z3.And(Wl[W0] != 0, role(h, Wl[W0]) == 0, z3.Not(ev_set(h, Wl[W0]))))),
            ("ready-flag-role", z3.Implies(E != 0, role(h, E) == 1)),
            ("null-never-running", z3.Not(z3.Select(R, 0))),
            # Reply-local facts that only the owning thread changes (stable while the task waits in the mailbox / is unowned)
            ("pending-task-is-marked-running", z3.Implies(z3.And(R0 != 0, inR, o == O_MAILBOX), z3.And(h("Reply", R0, "running"), h("Reply", R0, "_result_ready") != 0,
                                                                                                   z3.Not(ev_set(h, h("Reply", R0, "_result_ready")))))),
            ("mailbox-content-is-a-reply-with-event", z3.Implies(T != 0, z3.And(h("Reply", T, "_result_ready") != 0, role(h, h("Reply", T, "_result_ready")) == 2))),
            # what sits in the mailbox was handed to the primary thread: waiting, being run by it, or finished
            ("mailbox-task-belongs-to-the-primary-thread", z3.Implies(T != 0, z3.Or(owner(h, T) == O_MAILBOX, owner(h, T) == O_PRIMARY, owner(h, T) == O_DONE))),
        ]

    w.pool_inv = inv

    def closed_heap(h, p):
        """objects reachable from the pool exist (are allocated): a fresh object is none of them"""
        T = P(h, p, "_primary_thread_task")
        E = P(h, p, "_primary_thread_task_ready")
        Wl = P(h, p, "_waitall_events")
        al = lambda x: z3.Or(x == 0, h("object", x, "$alloc"))
        q = z3.Int("qw")
        return [("closed-heap", z3.And(al(T), al(E), al(h("Reply", T, "_result_ready")), al(h("Reply", R0, "_result_ready")),
                                       z3.Implies(z3.And(W0 >= 0, W0 < slen(Wl)), al(Wl[W0])))),
                # generalisation of registered-waiter-unset over the free position W0
                ("all-waiters", z3.ForAll([q], z3.Implies(z3.And(q >= 0, q < slen(Wl)), z3.And(Wl[q] != 0, h("Event", Wl[q], "$role") == 0)), patterns=[Wl[q]]))]

    w.add_monitor(Monitor("WorkerPool", "_running_lock", ["_running", "_shuttingdown", "_waitall_events", "_primary_thread_task"],
                          invariant=inv, invariant_assume=lambda h, p: inv(h, p) + closed_heap(h, p), props=["C09"]))

    def all_waiters(h, p):
        Wl = P(h, p, "_waitall_events")
        q = z3.Int("qw")
        return z3.ForAll([q], z3.Implies(z3.And(q >= 0, q < slen(Wl)), z3.And(Wl[q] != 0, role(h, Wl[q]) == 0)), patterns=[Wl[q]])

    POOLMOD = lambda a, h: [("WorkerPool", a.self, f) for f in ("_running", "_shuttingdown", "_waitall_events", "_primary_thread_task")]

    def has_lock(a, h):
        return [("has-lock", h("WorkerPool", a.self, "_running_lock") != 0), ("has-model", h("WorkerPool", a.self, "execmodel") != 0)]

    # WorkerPool.__init__ establishes the invariant
    def init_post(a, h, h2, r):
        return [f for _, f in inv(h2, a.self)] + [z3.Not(P(h2, a.self, "_shuttingdown")), P(h2, a.self, "_running_lock") != 0,
                                                  (P(h2, a.self, "_primary_thread_task_ready") != 0) == a.hasprimary,
                                                  z3.Implies(a.hasprimary, role(h2, P(h2, a.self, "_primary_thread_task_ready")) == 1),
                                                  z3.Implies(a.hasprimary, z3.Not(ev_set(h2, P(h2, a.self, "_primary_thread_task_ready"))))]

    w.add(Contract(f"{GB}:WorkerPool.__init__", {"self": REF("WorkerPool"), "execmodel": REF("ExecModel"), "hasprimary": BOOL}, defaults={"hasprimary": False},
                   requires=lambda a, h: [("model-not-none", a.execmodel != 0)],
                   modifies=lambda a, h: [("WorkerPool", a.self, f) for f in ("execmodel", "_running_lock", "_running", "_shuttingdown", "_waitall_events", "_primary_thread_task_ready", "_primary_thread_task")],
                   cases=[Case("ok", post=init_post),
                          Case("no-primary-for-green-models", "raise", "ValueError",
                               when=lambda a, h: z3.And(a.hasprimary, h("ExecModel", a.execmodel, "backend") != THREAD, h("ExecModel", a.execmodel, "backend") != MTO))],
                   props=["C09"], allocates=True))

    # spawn: refused after shutdown, otherwise accepted: in _running with an owner
    def spawn_post(a, h, h2, r):
        return [r != 0, z3.Select(P(h2, a.self, "_running"), r), z3.Or(owner(h2, r) == O_THREAD, owner(h2, r) == O_MAILBOX), runs(h2, r) == 0,
                z3.Not(P(h2, a.self, "_shuttingdown"))]

    w.add(Contract(f"{GB}:WorkerPool.spawn", {"self": REF("WorkerPool"), "func": ANY},
                   requires=has_lock, linearize_at_lock=True,
                   modifies=lambda a, h: POOLMOD(a, h) + [("Event", None, "$set")] + [("Reply", None, f) for f in ("_result", "_exc", "$has_result", "$has_exc", "$runs", "running", "$owner")],
                   cases=[Case("accepted", restype=REF("Reply"), post=spawn_post),
                          Case("shutting-down", "raise", "ValueError", post=lambda a, h, h2, e: [P(h, a.self, "_shuttingdown"), P(h2, a.self, "_running") == P(h, a.self, "_running")])],
                   props=["C09"], allocates=True))

    # _try_send_to_primary_thread: called with the lock held
    def tsp_post(a, h, h2, r):
        E = P(h, a.self, "_primary_thread_task_ready")
        T0 = P(h, a.self, "_primary_thread_task")
        waited = z3.And(r, E != 0, ev_set(h, E))   # main_thread_only: the previous mailbox task was waited for
        mto = h("ExecModel", P(h, a.self, "execmodel"), "backend") == MTO
        return [z3.Implies(r, z3.And(E != 0, P(h2, a.self, "_primary_thread_task") == a.reply, ev_set(h2, E), owner(h2, a.reply) == O_MAILBOX)),
                # the primary thread takes the task whenever it can: it is idle (flag down), or - main_thread_only - it has a task, which is then waited for.
                # In main_thread_only a task must never fall through to a new thread while the pool is in service (C14: bodies run in the main thread)
                z3.Implies(z3.And(E != 0, z3.Or(z3.Not(ev_set(h, E)), z3.And(mto, T0 != 0))), r),
                z3.Implies(z3.Not(r), z3.And(P(h2, a.self, "_primary_thread_task") == T0, owner(h2, a.reply) == owner(h, a.reply),
                                             z3.Implies(E != 0, ev_set(h2, E) == ev_set(h, E)))),
                # the task that was in the mailbox before: untouched, or finished if it was waited for
                z3.Implies(z3.And(T0 != 0, T0 != a.reply), z3.If(z3.And(waited, owner(h, T0) != O_NONE), owner(h2, T0) == O_DONE, owner(h2, T0) == owner(h, T0))),
                z3.Implies(z3.And(T0 != 0, T0 != a.reply, z3.Not(waited)),
                           z3.And(runs(h2, T0) == runs(h, T0), h2("Reply", T0, "running") == h("Reply", T0, "running"),
                                  h2("Reply", T0, "$has_result") == h("Reply", T0, "$has_result"), h2("Reply", T0, "$has_exc") == h("Reply", T0, "$has_exc"),
                                  z3.Implies(h("Reply", T0, "_result_ready") != E, ev_set(h2, h("Reply", T0, "_result_ready")) == ev_set(h, h("Reply", T0, "_result_ready"))))),
                runs(h2, a.reply) == runs(h, a.reply), h2("Reply", a.reply, "running") == h("Reply", a.reply, "running"),
                z3.Implies(T0 != a.reply, z3.And(h2("Reply", a.reply, "_result_ready") == h("Reply", a.reply, "_result_ready"),
                                                 z3.Implies(z3.And(h("Reply", a.reply, "_result_ready") != E, h("Reply", a.reply, "_result_ready") != h("Reply", T0, "_result_ready")),
                                                            ev_set(h2, h("Reply", a.reply, "_result_ready")) == ev_set(h, h("Reply", a.reply, "_result_ready")))))]

    w.add(Contract(f"{GB}:WorkerPool._try_send_to_primary_thread", {"self": REF("WorkerPool"), "reply": REF("Reply")},
                   requires=lambda a, h: has_lock(a, h) + [("lock-held", h.holds(h("WorkerPool", a.self, "_running_lock"))), ("reply-not-none", a.reply != 0),
                                                           ("inv-mailbox-content-has-event", z3.Implies(P(h, a.self, "_primary_thread_task") != 0,
                                                                                                        z3.And(h("Reply", P(h, a.self, "_primary_thread_task"), "_result_ready") != 0,
                                                                                                               role(h, h("Reply", P(h, a.self, "_primary_thread_task"), "_result_ready")) == 2))),
                                                           ("inv-ready-flag-role", z3.Implies(P(h, a.self, "_primary_thread_task_ready") != 0, role(h, P(h, a.self, "_primary_thread_task_ready")) == 1)),
                                                           ("reply-is-new", z3.And(a.reply != P(h, a.self, "_primary_thread_task"), role(h, h("Reply", a.reply, "_result_ready")) == 2))],
                   modifies=lambda a, h: [("WorkerPool", a.self, "_primary_thread_task"), ("Event", P(h, a.self, "_primary_thread_task_ready"), "$set"), ("Reply", a.reply, "$owner")]
                   + [("Reply", P(h, a.self, "_primary_thread_task"), f) for f in ("_result", "_exc", "$has_result", "$has_exc", "$runs", "running", "$owner")]
                   + [("Event", z3.If(P(h, a.self, "_primary_thread_task") != 0, h("Reply", P(h, a.self, "_primary_thread_task"), "_result_ready"), 0), "$set")],
                   cases=[Case("ok", restype=BOOL, post=tsp_post)], props=["C09", "C14"]))
    w.contracts[f"{GB}:WorkerPool._try_send_to_primary_thread"].held_on_entry = lambda a, h: [h("WorkerPool", a.self, "_running_lock")]
    # publication order: the primary thread reads the mailbox without the lock as soon as the ready flag is up
    w.contracts[f"{GB}:WorkerPool._try_send_to_primary_thread"].at_call = {"model:Event.set": lambda a, h0, call, hnow, loc=None: [
        ("task-in-the-mailbox-before-the-primary-thread-is-woken", z3.Implies(call.self == P(h0, a.self, "_primary_thread_task_ready"), P(hnow, a.self, "_primary_thread_task") == a.reply))]}

    w.add(Contract(f"{GB}:WorkerPool.trigger_shutdown", {"self": REF("WorkerPool")}, requires=has_lock, linearize_at_lock=True,
                   modifies=lambda a, h: POOLMOD(a, h) + [("Event", P(h, a.self, "_primary_thread_task_ready"), "$set")],
                   cases=[Case("ok", post=lambda a, h, h2, r: [P(h2, a.self, "_shuttingdown"), P(h2, a.self, "_running") == P(h, a.self, "_running"),
                                                               z3.Implies(P(h, a.self, "_primary_thread_task_ready") != 0, ev_set(h2, P(h, a.self, "_primary_thread_task_ready"))),
                                                               # the primary thread is woken with an empty mailbox or with a task it has not finished: never with a finished one (it would run it again)
                                                               z3.Implies(z3.And(P(h, a.self, "_primary_thread_task_ready") != 0, P(h2, a.self, "_primary_thread_task") != 0),
                                                                          z3.And(P(h2, a.self, "_primary_thread_task") == P(h, a.self, "_primary_thread_task"),
                                                                                 h("Reply", P(h, a.self, "_primary_thread_task"), "running")))])],   # Reply.run clears `running` when the task has finished
                   props=["C09", "C11"]))
    w.contracts[f"{GB}:WorkerPool.trigger_shutdown"].at_call = {"model:Event.set": lambda a, h0, call, hnow, loc=None: [
        ("shutdown-flag-up-before-the-primary-thread-is-woken", z3.Implies(call.self == P(h0, a.self, "_primary_thread_task_ready"), P(hnow, a.self, "_shuttingdown")))]}

    def ps_post(a, h, h2, r):
        return [z3.Not(z3.Select(P(h2, a.self, "_running"), a.reply)), runs(h2, a.reply) == runs(h, a.reply) + 1, owner(h2, a.reply) == O_DONE]

    w.add(Contract(f"{GB}:WorkerPool._perform_spawn", {"self": REF("WorkerPool"), "reply": REF("Reply")},
                   requires=lambda a, h: has_lock(a, h) + [("reply-not-none", a.reply != 0), ("has-event", h("Reply", a.reply, "_result_ready") != 0),
                                                           ("fresh-outcome", z3.And(z3.Not(h("Reply", a.reply, "$has_result")), z3.Not(h("Reply", a.reply, "$has_exc")))),
                                                           ("this-thread-owns-the-task", z3.Or(owner(h, a.reply) == O_THREAD, owner(h, a.reply) == O_PRIMARY))],
                   modifies=lambda a, h: POOLMOD(a, h) + [("Reply", a.reply, f) for f in ("_result", "_exc", "$has_result", "$has_exc", "$runs", "running", "$owner")]
                   + [("Event", h("Reply", a.reply, "_result_ready"), "$set"), ("Event", None, "$set")],
                   cases=[Case("ok", post=ps_post)], props=["C09"]))
    # Owicki-Gries stability, assumed: a reply is removed from _running only by the thread that ran it (the only `_running.remove`
    # is this one: static obligation), so the reply this thread owns is still in _running when it takes the lock
    w.contracts[f"{GB}:WorkerPool._perform_spawn"].stable_at_acquire = lambda a, h: [z3.Select(P(h, a.self, "_running"), a.reply)]
    w.add_loop(LoopSpec(f"{GB}:WorkerPool._perform_spawn", 0,
                        invariant=lambda L: [("params", z3.And(L.self == L.inp("self"), L.reply == L.inp("reply"))),
                                             ("running-empty", P(L.h, L.inp("self"), "_running") == z3.K(z3.IntSort(), z3.BoolVal(False))),
                                             ("waiters-are-waiters", z3.Implies(z3.And(W0 >= 0, W0 < slen(P(L.h, L.inp("self"), "_waitall_events"))),
                                                                                z3.And(P(L.h, L.inp("self"), "_waitall_events")[W0] != 0,
                                                                                       role(L.h, P(L.h, L.inp("self"), "_waitall_events")[W0]) == 0))),
                                             ("ready-flag-untouched", z3.And(P(L.h, L.inp("self"), "_primary_thread_task_ready") == P(L.pre, L.inp("self"), "_primary_thread_task_ready"),
                                                                             z3.Implies(P(L.h, L.inp("self"), "_primary_thread_task_ready") != 0,
                                                                                        z3.And(role(L.h, P(L.h, L.inp("self"), "_primary_thread_task_ready")) == 1,
                                                                                               ev_set(L.h, P(L.h, L.inp("self"), "_primary_thread_task_ready"))
                                                                                               == ev_set(L.pre, P(L.pre, L.inp("self"), "_primary_thread_task_ready")))))),
                                             ("pool-fields-untouched", z3.And(P(L.h, L.inp("self"), "_primary_thread_task") == P(L.pre, L.inp("self"), "_primary_thread_task"),
                                                                              P(L.h, L.inp("self"), "_shuttingdown") == P(L.pre, L.inp("self"), "_shuttingdown")))],
                        variant=lambda L: slen(P(L.h, L.inp("self"), "_waitall_events")),
                        havoc_cells=lambda L: [("WorkerPool", L.inp("self"), "_waitall_events")], havoc_fields=["Event.$set"], props=["C09"]))
    w.loops[(f"{GB}:WorkerPool._perform_spawn", 0)].invariant_assume = lambda L: [all_waiters(L.h, L.inp("self"))]

    # waitall: True only when nothing is running; otherwise a waiter is registered under the lock
    w.add(Contract(f"{GB}:WorkerPool.waitall", {"self": REF("WorkerPool"), "timeout": OPT(INT)}, defaults={"timeout": None}, requires=has_lock, linearize_at_lock=True,
                   modifies=lambda a, h: POOLMOD(a, h) + [("Event", None, "$set")],
                   cases=[Case("ok", restype=BOOL, post=lambda a, h, h2, r: [])], props=["C09"], allocates=True))
    w.add(Contract(f"{GB}:WorkerPool.active_count", {"self": REF("WorkerPool")}, cases=[Case("ok", restype=INT, post=lambda a, h, h2, r: [r >= 0])], props=["C09", "C04"], trusted=True,
                   note="len(set): cardinality is not modelled"))
    declare_primary(w)
    return w


def declare_primary(w):
    """integrate_as_primary_thread: the unlocked read of the mailbox is treated as an atomic snapshot (see assumptions)."""
    s = w.schema
    P = lambda h, p, f: h("WorkerPool", p, f)
    ev_set = lambda h, e: h("Event", e, "$set")
    owner = lambda h, r: h("Reply", r, "$owner")
    mon = w.monitors[("WorkerPool", "_running_lock")]
    base_inv = mon.invariant

    def inv2(h, p):
        E, T = P(h, p, "_primary_thread_task_ready"), P(h, p, "_primary_thread_task")
        return base_inv(h, p) + [("mailbox-empty-only-at-shutdown", z3.Implies(z3.And(E != 0, ev_set(h, E), T == 0), P(h, p, "_shuttingdown"))),
                                 ("pending-task-has-no-outcome", z3.Implies(z3.And(R0 != 0, z3.Select(P(h, p, "_running"), R0), owner(h, R0) == O_MAILBOX),
                                                                            z3.And(z3.Not(h("Reply", R0, "$has_result")), z3.Not(h("Reply", R0, "$has_exc")))))]

    old_assume = mon.invariant_assume
    mon.invariant = inv2
    mon.invariant_assume = lambda h, p: inv2(h, p) + [x for x in old_assume(h, p) if x[0] in ("closed-heap", "all-waiters")]

    def snapshot_read(ex, st, recv):
        """`reply = self._primary_thread_task` outside the lock, in the primary thread, after the ready flag was seen set."""
        if ex.frame.qualname != "WorkerPool.integrate_as_primary_thread" or st.held:
            v = st.heap.get(recv, "_primary_thread_task")
            return v
        from pyvc.contracts import HeapView

        # exactly ONE unlocked read per round is the snapshot the argument below is about (the read right after the ready flag was seen set);
        # any further read of the mailbox outside the lock is a racy read whose value may be stale by the time it is acted upon
        n_reads = st.ghost.get("$snapshot_reads", 0)
        st.ghost = dict(st.ghost, **{"$snapshot_reads": n_reads + 1})
        if n_reads >= 1:
            ex.oblige(st, "lock", "mailbox-read-again-outside-_running_lock", z3.BoolVal(False))
            for f in mon.protected:
                st.heap.havoc_at(SV(REF("WorkerPool"), recv.v), f)
            return st.heap.get(recv, "_primary_thread_task")
        for f in mon.protected:
            st.heap.havoc_at(SV(REF("WorkerPool"), recv.v), f)
        hv = HeapView(st.heap, st.held)
        E = st.heap.get(recv, "_primary_thread_task_ready")
        T = st.heap.get(recv, "_primary_thread_task")
        # monitor invariant instantiated for the mailbox content (R0 := T); the flag is still set: only this thread clears it
        inst = [z3.substitute(f, (R0, T.v)) for _, f in mon.invariant_assume(hv, recv.v)]
        st.assume(*inst)
        st.assume(ev_set(hv, E.v))
        # Owicki-Gries step argued on paper (listed as an assumption): when the primary thread is here it executes no task,
        # so a non-empty mailbox holds a task that nobody has started
        st.assume(z3.Or(T.v == 0, z3.And(z3.Select(P(hv, recv.v, "_running"), T.v), owner(hv, T.v) == O_MAILBOX)))
        cur = st.heap.get(T, "$owner")
        st.heap.set(T, "$owner", SV(INT, z3.If(T.v != 0, z3.IntVal(O_PRIMARY), cur.v)))  # ghost: the primary thread takes the task
        return T

    w.attr_hooks[("WorkerPool", "_primary_thread_task")] = snapshot_read
    w.add(Contract(f"{GB}:WorkerPool.integrate_as_primary_thread", {"self": REF("WorkerPool")},
                   requires=lambda a, h: [("has-lock", h("WorkerPool", a.self, "_running_lock") != 0), ("has-model", h("WorkerPool", a.self, "execmodel") != 0),
                                          ("ready-flag-role", z3.Implies(P(h, a.self, "_primary_thread_task_ready") != 0, h("Event", P(h, a.self, "_primary_thread_task_ready"), "$role") == 1))],
                   modifies=lambda a, h: [("WorkerPool", a.self, f) for f in ("_running", "_shuttingdown", "_waitall_events", "_primary_thread_task")]
                   + [("Event", None, "$set")] + [("Reply", None, f) for f in ("_result", "_exc", "$has_result", "$has_exc", "$runs", "running", "$owner")],
                   cases=[Case("left-after-shutdown", post=lambda a, h, h2, r: [P(h2, a.self, "_shuttingdown")]),
                          Case("not-a-thread-pool", "raise", "AssertionError",
                               when=lambda a, h: z3.Or(P(h, a.self, "_primary_thread_task_ready") == 0,
                                                       z3.And(h("ExecModel", P(h, a.self, "execmodel"), "backend") != THREAD, h("ExecModel", P(h, a.self, "execmodel"), "backend") != MTO)))],
                   props=["C09", "C11", "C14"]))
    # publication order: the ready flag is cleared only while - under the lock, at this very moment - the mailbox still holds the task just run;
    # a decision taken before the lock was acquired may be stale (a new task may have been posted meanwhile, and its wake-up would be wiped out: C14)
    w.contracts[f"{GB}:WorkerPool.integrate_as_primary_thread"].at_call = {"model:Event.clear": lambda a, h0, call, hnow, loc=None: [
        ("mailbox-still-holds-the-finished-task-when-the-flag-is-cleared",
         z3.Implies(call.self == P(h0, a.self, "_primary_thread_task_ready"), z3.And(hnow.holds(P(h0, a.self, "_running_lock")), P(hnow, a.self, "_primary_thread_task") == loc["reply"].v)))]}
    w.add_loop(LoopSpec(f"{GB}:WorkerPool.integrate_as_primary_thread", 0,
                        invariant=lambda L: [("params", z3.And(L.self == L.inp("self"), L.primary_thread_task_ready == P(L.old, L.inp("self"), "_primary_thread_task_ready"),
                                                               L.primary_thread_task_ready != 0)),
                                             ("same-lock", z3.And(P(L.h, L.inp("self"), "_running_lock") == P(L.old, L.inp("self"), "_running_lock"),
                                                                  P(L.h, L.inp("self"), "_primary_thread_task_ready") == P(L.old, L.inp("self"), "_primary_thread_task_ready"),
                                                                  P(L.h, L.inp("self"), "execmodel") == P(L.old, L.inp("self"), "execmodel"),
                                                                  L.h("Event", L.primary_thread_task_ready, "$role") == 1))],
                        havoc_cells=lambda L: [("WorkerPool", L.inp("self"), f) for f in ("_running", "_shuttingdown", "_waitall_events", "_primary_thread_task")],
                        havoc_fields=["Event.$set", "Reply._result", "Reply._exc", "Reply.$has_result", "Reply.$has_exc", "Reply.$runs", "Reply.running", "Reply.$owner"], props=["C09"]))
    return w
