"""Contracts for the proxied transport: ProxyIO (initiator side) and serve_proxy_io (forwarder) - C16."""
from __future__ import annotations

import z3

from pyvc import core
from pyvc.contracts import Case, Contract, LoopSpec
from pyvc.core import ANY, BOOL, BYTES, FUNCT, INT, NONE, NONEV, OPT, REF, SEQ, STR, SV, TUP, ExcV, U, Unsupported, mk_bool, mk_int, mk_str
from pyvc.symexec import ExternD

from .base import GB, GIO, slen

RIO_KILL, RIO_WAIT, RIO_REMOTEADDRESS, RIO_CLOSE_WRITE = 1, 2, 3, 4   # from the statement of the control protocol; checked against the module constants
u2b = z3.Function("u2b", U, z3.StringSort())     # the bytes of an item travelling on the io channel
b2u = z3.Function("b2u", z3.StringSort(), U)
i2u = z3.Function("i2u", z3.IntSort(), U)        # a control code as an item


def ax_b2u(t):
    return [u2b(t) == t.arg(0)]


ax_b2u.names = ["b2u"]


def declare(w):
    s = w.schema
    w.axiom_providers.append(ax_b2u)
    s.declare("ProxyIO", "controlchan", REF("Channel"))
    s.declare("ProxyIO", "iochan", REF("Channel"))
    s.declare("ProxyIO", "iochan_file", REF("ChannelFileRead"))
    s.declare("ProxyIO", "execmodel", REF("ExecModel"))
    s.declare("ChannelFile", "channel", REF("Channel"))
    s.declare("ChannelFileRead", "$view", BYTES, ghost=True)      # bytes still to be read through the file: buffer + items to come
    s.declare("ChannelFileRead", "$ended", BOOL, ghost=True)
    s.declare("Channel", "$sent", SEQ(ANY), ghost=True)           # items sent on the channel, in order
    s.declare("Channel", "$inbox", SEQ(ANY), ghost=True)          # items still to be received
    s.set_bases("ChannelFileRead", ["ChannelFile", "object"])
    view = lambda h, f: h("ChannelFileRead", f, "$view")
    sent = lambda h, c: h("Channel", c, "$sent")

    def co(val, ty):
        if ty == ANY and val.ty.kind == "bytes":
            return SV(ANY, b2u(val.v))
        if ty == ANY and val.ty.kind == "int":
            return SV(ANY, i2u(val.v))
        return None

    co.__name__ = "co_proxy"
    core.COERCE_HOOKS[:] = [h for h in core.COERCE_HOOKS if getattr(h, "__name__", "") != "co_proxy"] + [co]

    # C19 (file over a channel, bytes items): read(n) returns the next n bytes, FEWER at the end of the channel, never raises EOFError
    def fr_post(a, h, h2, r):
        V = view(h, a.self)
        return [r == z3.SubSeq(V, 0, a.n), view(h2, a.self) == z3.SubSeq(V, slen(r), slen(V) - slen(r))]

    w.add(Contract(f"{GB}:ChannelFileRead.read", {"self": REF("ChannelFileRead"), "n": INT}, modifies=lambda a, h: [("ChannelFileRead", a.self, "$view")],
                   cases=[Case("ok", restype=BYTES, post=fr_post)], trusted=True, note="C19: file semantics over the concatenated items (bytes items here); a short result at the end of the channel"))
    w.add(Contract(f"{GB}:Channel.send", {"self": REF("Channel"), "item": ANY}, modifies=lambda a, h: [("Channel", a.self, "$sent")],
                   cases=[Case("ok", post=lambda a, h, h2, r: [sent(h2, a.self) == z3.Concat(sent(h, a.self), z3.Unit(a.item))]),
                          Case("closed-or-broken", "raise", "OSError", post=lambda a, h, h2, e: [sent(h2, a.self) == sent(h, a.self)])], trusted=True, note="C02/C03"))
    s.declare("Channel", "$nrecv", INT, ghost=True)     # how many items this side has taken out of the channel
    nrecv = lambda h, c: h("Channel", c, "$nrecv")
    w.add(Contract(f"{GB}:Channel.receive", {"self": REF("Channel"), "timeout": OPT(INT)}, defaults={"timeout": None}, modifies=lambda a, h: [("Channel", a.self, "$inbox"), ("Channel", a.self, "$nrecv")],
                   cases=[Case("item", restype=ANY, post=lambda a, h, h2, r: [nrecv(h2, a.self) == nrecv(h, a.self) + 1]),
                          Case("eof", "raise", "EOFError", post=lambda a, h, h2, e: [nrecv(h2, a.self) == nrecv(h, a.self)]),
                          Case("remote-error", "raise", "RemoteError", post=lambda a, h, h2, e: [nrecv(h2, a.self) == nrecv(h, a.self)]),
                          # with a timeout the wait may give up (channel.TimeoutError is an OSError subclass of its own): only then
                          Case("timeout", "raise", "TimeoutError", when=lambda a, h: z3.Not(a.sv("timeout").v[0]), post=lambda a, h, h2, e: [nrecv(h2, a.self) == nrecv(h, a.self)])], trusted=True,
                   note="C02/C03; without a timeout it blocks until the peer answers (unbounded)"))

    # ---- the IO contract, with ProxyIO's view: the bytes the forwarder wrote to the master file ---------------------------
    def pview(a, h):
        return view(h, h("ProxyIO", a.self, "iochan_file"))

    def read_ok(a, h):
        return a.nbytes <= slen(pview(a, h))

    n0 = lambda a: z3.If(a.nbytes < 0, 0, a.nbytes)
    eof = Case("eof", "raise", "EOFError", when=lambda a, h: z3.Not(read_ok(a, h)))
    eof.nargs = 1
    w.add(Contract(f"{GIO}:ProxyIO.read", {"self": REF("ProxyIO"), "nbytes": INT},
                   requires=lambda a, h: [("has-file", h("ProxyIO", a.self, "iochan_file") != 0)],
                   modifies=lambda a, h: [("ChannelFileRead", h("ProxyIO", a.self, "iochan_file"), "$view")],
                   cases=[Case("ok", restype=BYTES, when=read_ok,
                               post=lambda a, h, h2, r: [r == z3.SubSeq(pview(a, h), 0, n0(a)), pview(a, h2) == z3.SubSeq(pview(a, h), n0(a), slen(pview(a, h)) - n0(a))]), eof],
                   props=["C16", "C04", "C08"], note="must refine the IO read contract: exactly n bytes or EOFError (with a message)"))
    w.add(Contract(f"{GIO}:ProxyIO.write", {"self": REF("ProxyIO"), "data": BYTES},
                   requires=lambda a, h: [("has-channel", h("ProxyIO", a.self, "iochan") != 0)],
                   modifies=lambda a, h: [("Channel", h("ProxyIO", a.self, "iochan"), "$sent")],
                   cases=[Case("ok", post=lambda a, h, h2, r: [sent(h2, h("ProxyIO", a.self, "iochan")) == z3.Concat(sent(h, h("ProxyIO", a.self, "iochan")), z3.Unit(b2u(a.data)))]),   # one item per write, verbatim
                          Case("oserror", "raise", "OSError")], props=["C16", "C08"]))

    def ctl_post(code):
        def post(a, h, h2, r):
            cc = h("ProxyIO", a.self, "controlchan")
            return [sent(h2, cc) == z3.Concat(sent(h, cc), z3.Unit(i2u(z3.IntVal(code)))),     # exactly one control request with the matching code
                    # ... and its answer is taken out: the forwarder answers every request, so an answer left behind would be handed to the NEXT request
                    # (a wait() after close_write() would get close_write's None while the process still runs)
                    nrecv(h2, cc) == nrecv(h, cc) + 1]
        return post

    CTLMOD = lambda a, h: [("Channel", h("ProxyIO", a.self, "controlchan"), f) for f in ("$sent", "$inbox", "$nrecv")]
    HASCTL = lambda a, h: [("has-control-channel", h("ProxyIO", a.self, "controlchan") != 0)]
    # a control request waits for its answer as patiently as a direct wait()/kill() would (no TimeoutError: giving up early hands the late answer to the NEXT request)
    failing = [Case("connection-lost", "raise", "EOFError"), Case("via-gateway-broken", "raise", "OSError", excluding=("TimeoutError",)), Case("via-error", "raise", "RemoteError")]
    w.add(Contract(f"{GIO}:ProxyIO._controll", {"self": REF("ProxyIO"), "event": INT}, requires=HASCTL, modifies=CTLMOD,
                   cases=[Case("ok", restype=ANY, post=lambda a, h, h2, r: [sent(h2, h("ProxyIO", a.self, "controlchan")) == z3.Concat(sent(h, h("ProxyIO", a.self, "controlchan")), z3.Unit(i2u(a.event))),
                                                                            nrecv(h2, h("ProxyIO", a.self, "controlchan")) == nrecv(h, h("ProxyIO", a.self, "controlchan")) + 1])] + failing,
                   props=["C16", "C05"]))
    w.add(Contract(f"{GIO}:ProxyIO.close_write", {"self": REF("ProxyIO")}, requires=HASCTL, modifies=CTLMOD, cases=[Case("ok", post=ctl_post(RIO_CLOSE_WRITE))] + failing, props=["C16"]))
    w.add(Contract(f"{GIO}:ProxyIO.kill", {"self": REF("ProxyIO")}, requires=HASCTL, modifies=CTLMOD, cases=[Case("ok", post=ctl_post(RIO_KILL))] + failing, props=["C16", "C05"]))
    w.add(Contract(f"{GIO}:ProxyIO.wait", {"self": REF("ProxyIO")}, requires=HASCTL, modifies=CTLMOD,
                   cases=[Case("ok", restype=OPT(INT), post=ctl_post(RIO_WAIT)), Case("bad-answer", "raise", "AssertionError")] + failing, props=["C16", "C05"]))
    # the IO contract says close_read does not raise
    w.add(Contract(f"{GIO}:ProxyIO.close_read", {"self": REF("ProxyIO")}, cases=[Case("ok")], props=["C16", "C04"], note="IO contract: close_read()/close_write() do not raise (the receiver thread's epilogue calls both)"))

    def co_timeout(val, ty):
        # a float timeout where the contract says int: only "given or not" matters to the contracts here
        if val.ty.kind == "float" and ty in (INT, OPT(INT)):
            return core.coerce(core.fresh(INT, "seconds"), ty)
        return None

    co_timeout.__name__ = "co_timeout"
    core.COERCE_HOOKS[:] = [h_ for h_ in core.COERCE_HOOKS if getattr(h_, "__name__", "") != "co_timeout"] + [co_timeout]
    is_int_item = z3.Function("is_int_item", U, z3.BoolSort())
    w.call_hooks[("isinstance", "any")] = lambda ex, v, names: is_int_item(v.v) if names == ["int"] else (_ for _ in ()).throw(Unsupported(f"isinstance of an item against {names}"))
    w.call_hooks[("eq", "any")] = None

    def co_from(val, ty):
        if val.ty.kind == "any" and isinstance(ty, core.OPT) and ty.inner == INT:
            return SV(ty, (z3.Const(core.fresh_name("isnone"), z3.BoolSort()), SV(INT, z3.Const(core.fresh_name("status"), z3.IntSort()))))
        return None

    co_from.__name__ = "co_from_proxy"
    core.COERCE_HOOKS[:] = [h for h in core.COERCE_HOOKS if getattr(h, "__name__", "") != "co_from_proxy"] + [co_from]
    declare_forwarder(w)
    declare_forward_loop(w)
    return w


def declare_forwarder(w):
    """serve_proxy_io: forwards the sub's byte stream unmodified and in order; control codes reach the sub."""
    from .io import frame
    from pyvc.pybuiltins import unbe32, uns8

    s = w.schema
    s.declare("IO", "unread", BYTES, ghost=True)
    s.declare("IO", "written", BYTES, ghost=True)
    s.declare("IO", "nwrites", INT, ghost=True)
    s.declare("IO", "$killed", BOOL, ghost=True)
    s.declare("IO", "$waited", INT, ghost=True)
    s.declare("IO", "$write_closed", BOOL, ghost=True)
    s.declare("IO", "execmodel", REF("ExecModel"))
    s.declare("IO", "remoteaddress", STR)
    s.declare("IO", "popen", REF("Popen"))          # Popen2IOMaster.popen: the started process (subprocess.Popen)
    s.set_bases("Popen", ["object"])
    w.add(Contract("model:Popen.poll", {"self": REF("Popen")}, cases=[Case("ok", restype=OPT(INT))], trusted=True,
                   note="subprocess.Popen.poll(): None while the process runs, else its status; says nothing about data still queued in its pipes"))
    s.declare("ChannelFileWrite", "$written", BYTES, ghost=True)     # concatenation of everything written through the file
    s.declare("Channel", "$callback", ANY, ghost=True)
    s.declare("Channel", "gateway", REF("BaseGateway"))
    s.declare("BaseGateway", "execmodel", REF("ExecModel"))
    s.declare("Message", "msgcode", INT)
    s.declare("Message", "channelid", INT)
    s.declare("Message", "data", BYTES)
    s.set_bases("ChannelFileWrite", ["ChannelFile", "object"])
    s.set_bases("PseudoSpec", ["object"])
    sent = lambda h, c: h("Channel", c, "$sent")
    IOF = lambda h, io, f: h("IO", io, f)
    fn2u = z3.Function("fn2u", z3.StringSort(), U)

    def co_fn(val, ty):
        if ty == ANY and val.ty.kind == "func" and hasattr(val.v, "qualname"):
            return SV(ANY, fn2u(z3.StringVal(val.v.qualname)))
        return None

    co_fn.__name__ = "co_fn"
    core.COERCE_HOOKS[:] = [h for h in core.COERCE_HOOKS if getattr(h, "__name__", "") != "co_fn"] + [co_fn]

    # IO contract of the sub process's transport (C08/C16)
    def rd_ok(a, h):
        return a.numbytes <= slen(IOF(h, a.self, "unread"))

    n0 = lambda a: z3.If(a.numbytes < 0, 0, a.numbytes)
    eofc = Case("eof", "raise", "EOFError", when=lambda a, h: z3.Not(rd_ok(a, h)))
    eofc.nargs = 1
    w.add(Contract("model:IO.read", {"self": REF("IO"), "numbytes": INT}, modifies=lambda a, h: [("IO", a.self, "unread")],
                   cases=[Case("ok", restype=BYTES, when=rd_ok, post=lambda a, h, h2, r: [r == z3.SubSeq(IOF(h, a.self, "unread"), 0, n0(a)),
                                                                                         IOF(h2, a.self, "unread") == z3.SubSeq(IOF(h, a.self, "unread"), n0(a), slen(IOF(h, a.self, "unread")) - n0(a))]), eofc], trusted=True))
    w.add(Contract("model:IO.write", {"self": REF("IO"), "data": BYTES}, modifies=lambda a, h: [("IO", a.self, "written"), ("IO", a.self, "nwrites")],
                   cases=[Case("ok", post=lambda a, h, h2, r: [IOF(h2, a.self, "written") == z3.Concat(IOF(h, a.self, "written"), a.data), IOF(h2, a.self, "nwrites") == IOF(h, a.self, "nwrites") + 1]),
                          Case("oserror", "raise", "OSError"), Case("closed", "raise", "ValueError")], trusted=True))
    w.add(Contract("model:IO.wait", {"self": REF("IO")}, modifies=lambda a, h: [("IO", a.self, "$waited")],
                   cases=[Case("ok", restype=OPT(INT), post=lambda a, h, h2, r: [IOF(h2, a.self, "$waited") == IOF(h, a.self, "$waited") + 1])], trusted=True))
    w.add(Contract("model:IO.kill", {"self": REF("IO")}, modifies=lambda a, h: [("IO", a.self, "$killed")], cases=[Case("ok", post=lambda a, h, h2, r: [IOF(h2, a.self, "$killed")])], trusted=True))
    w.add(Contract("model:IO.close_write", {"self": REF("IO")}, modifies=lambda a, h: [("IO", a.self, "$write_closed")], cases=[Case("ok", post=lambda a, h, h2, r: [IOF(h2, a.self, "$write_closed")])], trusted=True))

    def co_opt_int(val, ty):
        if ty == ANY and val.ty.kind == "opt" and val.ty.inner == INT:
            return SV(ANY, z3.If(val.v[0], core.NONE_U, i2u(val.v[1].v)))
        if ty == ANY and val.ty.kind == "str":
            return SV(ANY, z3.Function("s2u", z3.StringSort(), U)(val.v))
        return None

    co_opt_int.__name__ = "co_opt_int"
    core.COERCE_HOOKS[:] = [h for h in core.COERCE_HOOKS if getattr(h, "__name__", "") != "co_opt_int"] + [co_opt_int]

    # ---- the two callbacks (nested functions) ------------------------------------------------------------------------------
    c = w.add(Contract(f"{GIO}:serve_proxy_io.forward_to_sub", {"data": BYTES}, requires=lambda a, h: [("sub-io", a.sub_io != 0)],
                       modifies=lambda a, h: [("IO", a.sub_io, "written"), ("IO", a.sub_io, "nwrites")],
                       cases=[Case("ok", post=lambda a, h, h2, r: [IOF(h2, a.sub_io, "written") == z3.Concat(IOF(h, a.sub_io, "written"), a.data),      # each master item is one write, verbatim
                                                                   IOF(h2, a.sub_io, "nwrites") == IOF(h, a.sub_io, "nwrites") + 1]),
                              Case("oserror", "raise", "OSError"), Case("closed", "raise", "ValueError")], props=["C16"]))
    c.closure = {"sub_io": REF("IO")}

    def control_post(a, h, h2, r):
        io, cc = a.sub_io, a.control_chan
        one_reply = slen(sent(h2, cc)) == slen(sent(h, cc)) + 1
        same = lambda f: IOF(h2, io, f) == IOF(h, io, f)
        return [z3.Implies(a.data == RIO_WAIT, z3.And(one_reply, IOF(h2, io, "$waited") == IOF(h, io, "$waited") + 1, same("$killed"), same("$write_closed"))),
                z3.Implies(a.data == RIO_KILL, z3.And(one_reply, IOF(h2, io, "$killed"), same("$waited"), same("$write_closed"), sent(h2, cc)[slen(sent(h, cc))] == core.NONE_U)),
                z3.Implies(a.data == RIO_REMOTEADDRESS, z3.And(one_reply, same("$killed"), same("$waited"), same("$write_closed"))),
                z3.Implies(a.data == RIO_CLOSE_WRITE, z3.And(one_reply, IOF(h2, io, "$write_closed"), same("$killed"), same("$waited"), sent(h2, cc)[slen(sent(h, cc))] == core.NONE_U)),
                z3.Implies(z3.And(a.data != RIO_WAIT, a.data != RIO_KILL, a.data != RIO_REMOTEADDRESS, a.data != RIO_CLOSE_WRITE),
                           z3.And(sent(h2, cc) == sent(h, cc), same("$killed"), same("$waited"), same("$write_closed")))]

    c = w.add(Contract(f"{GIO}:serve_proxy_io.control", {"data": INT}, requires=lambda a, h: [("sub-io", a.sub_io != 0), ("control-channel", a.control_chan != 0)],
                       modifies=lambda a, h: [("IO", a.sub_io, f) for f in ("$killed", "$waited", "$write_closed")] + [("Channel", a.control_chan, "$sent")],
                       cases=[Case("ok", post=control_post), Case("cannot-answer", "raise", "OSError")], props=["C16", "C05"]))
    c.closure = {"sub_io": REF("IO"), "control_chan": REF("Channel")}
    return w


def declare_forward_loop(w):
    from .io import frame

    s = w.schema
    IOF = lambda h, io, f: h("IO", io, f)
    s.declare("Channel", "$forwarded", BYTES, ghost=True)    # concatenation of everything written through 'w' files of the channel (C19: one item per write)
    s.declare("IO", "$stream", BYTES, ghost=True)            # everything the sub will ever emit on this transport (never modified)
    s.declare("IO", "$tail", BYTES, ghost=True)              # what a failed from_io found: less than one frame (dropped)
    s.declare("ExecModel", "$sub", REF("IO"), ghost=True)    # the transport create_io() made last
    s.declare("PseudoSpec", "id", OPT(STR))
    fchan = lambda h, f: h("ChannelFile", f, "channel")
    FW = lambda h, f: h("Channel", fchan(h, f), "$forwarded")
    M = lambda h, m, f: h("Message", m, f)

    from pyvc.pybuiltins import unbe32

    def whole_frame(u):
        return z3.And(slen(u) >= 9, slen(u) >= 9 + unbe32(z3.SubSeq(u, 5, 4)))

    w.add(Contract(f"{GB}:Message.from_io", {"io": REF("IO")}, modifies=lambda a, h: [("IO", a.io, "unread"), ("IO", a.io, "$tail")],
                   cases=[Case("ok", restype=REF("Message"), post=lambda a, h, h2, r: [
                       r != 0, IOF(h, a.io, "unread") == z3.Concat(frame(M(h2, r, "msgcode"), M(h2, r, "channelid"), M(h2, r, "data")), IOF(h2, a.io, "unread")),
                       M(h2, r, "msgcode") >= -128, M(h2, r, "msgcode") <= 127, M(h2, r, "channelid") >= -2**31, M(h2, r, "channelid") <= 2**31 - 1, slen(M(h2, r, "data")) <= 2**31 - 1]),
                          Case("eof", "raise", "EOFError", post=lambda a, h, h2, e: [slen(IOF(h2, a.io, "unread")) == 0, IOF(h2, a.io, "$tail") == IOF(h, a.io, "unread"), z3.Not(whole_frame(IOF(h, a.io, "unread")))])],
                   trusted=True, allocates=True, note="C08: from_io on a stream of frames written by Message.to_io (the sub's gateway): the consumed bytes are exactly frame(message); EOFError means less than one whole frame was left ($tail), which is consumed"))
    w.add(Contract(f"{GB}:Message.to_io", {"self": REF("Message"), "io": REF("ChannelFileWrite")}, modifies=lambda a, h: [("Channel", fchan(h, a.io), "$forwarded")],
                   cases=[Case("ok", post=lambda a, h, h2, r: [FW(h2, a.io) == z3.Concat(FW(h, a.io), frame(M(h, a.self, "msgcode"), M(h, a.self, "channelid"), M(h, a.self, "data")))]),
                          Case("oserror", "raise", "OSError", post=lambda a, h, h2, e: [FW(h2, a.io) == FW(h, a.io)])], trusted=True, note="C08: exactly one write of frame(message); through a channel file each write is one item (C19)"))
    w.add(Contract(f"{GB}:ChannelFileWrite.write", {"self": REF("ChannelFileWrite"), "out": BYTES}, modifies=lambda a, h: [("Channel", fchan(h, a.self), "$forwarded")],
                   cases=[Case("ok", post=lambda a, h, h2, r: [FW(h2, a.self) == z3.Concat(FW(h, a.self), a.out)]),
                          Case("oserror", "raise", "OSError", post=lambda a, h, h2, e: [FW(h2, a.self) == FW(h, a.self)])], trusted=True, note="C19: one write is one channel item; a closed channel refuses the whole item"))
    w.add(Contract(f"{GB}:Channel.makefile", {"self": REF("Channel"), "mode": STR, "proxyclose": BOOL}, defaults={"mode": "w", "proxyclose": False},
                   cases=[Case("ok", restype=REF("ChannelFileWrite"), post=lambda a, h, h2, r: [r != 0, fchan(h2, r) == a.self])], trusted=True, allocates=True, note="C19 (mode 'w')"))
    w.add(Contract(f"{GB}:Channel.setcallback", {"self": REF("Channel"), "callback": ANY, "endmarker": ANY}, defaults={"endmarker": SV(ANY, z3.Const("NOEND_proxy", U))},
                   modifies=lambda a, h: [("Channel", a.self, "$callback")], cases=[Case("ok", post=lambda a, h, h2, r: [h2("Channel", a.self, "$callback") == a.callback]), Case("has-callback", "raise", "OSError")],
                   trusted=True, note="C10: every item is passed to the callback once, in order"))
    w.add(Contract(f"{GIO}:PseudoSpec.__init__", {"self": REF("PseudoSpec"), "vars": ANY}, cases=[Case("ok")], trusted=True))
    w.add(Contract(f"{GIO}:create_io", {"spec": REF("PseudoSpec"), "execmodel": REF("ExecModel")}, modifies=lambda a, h: [("ExecModel", a.execmodel, "$sub")],
                   cases=[Case("ok", restype=REF("IO"), post=lambda a, h, h2, r: [r != 0, h2("ExecModel", a.execmodel, "$sub") == r, IOF(h2, r, "unread") == IOF(h2, r, "$stream")]),
                          Case("cannot-start", "raise", "OSError")], trusted=True, allocates=True,
                   note="starts the sub process (popen/ssh/vagrant): Popen2IOMaster refines the IO contract (C08); $stream names all it will emit"))
    u2chan = z3.Function("u2chan", U, z3.IntSort())
    w.call_hooks[("cast", "Channel")] = lambda ex, v: SV(REF("Channel"), u2chan(v.v))
    w.externals["functools.partial"] = lambda ex, args, kwargs, st, sink, node: iter([(st, SV(FUNCT, ExternD("trace-partial")))])
    w.externals["trace-partial"] = lambda ex, args, kwargs, st, sink, node: iter([(st, NONEV)])

    def em(a, h):
        return h("BaseGateway", h("Channel", a.proxy_channelX, "gateway"), "execmodel")

    def sp_ended(a, h, h2, r):
        io = h2("ExecModel", em(a, h), "$sub")
        X = a.proxy_channelX
        # every byte the sub emitted, the bootstrap byte first, was written to the master's channel unmodified and in order - nothing more
        # (an incomplete trailing frame of a cut stream, $tail, is dropped)
        return [z3.Concat(h2("Channel", X, "$forwarded"), IOF(h2, io, "$tail")) == z3.Concat(h("Channel", X, "$forwarded"), IOF(h2, io, "$stream")),
                z3.Not(whole_frame(IOF(h2, io, "$tail"))),
                slen(IOF(h2, io, "unread")) == 0, z3.SubSeq(IOF(h2, io, "$stream"), 0, 1) == z3.StringVal("1")]

    def sp_prefix(a, h, h2, e):
        io = h2("ExecModel", em(a, h), "$sub")
        X = a.proxy_channelX
        st, u = IOF(h2, io, "$stream"), IOF(h2, io, "unread")
        # on failure what reached the master is still a prefix of the sub's stream (or nothing was started)
        return [z3.Or(h2("Channel", X, "$forwarded") == h("Channel", X, "$forwarded"),
                      z3.PrefixOf(h2("Channel", X, "$forwarded"), z3.Concat(h("Channel", X, "$forwarded"), st)))]

    w.add(Contract(f"{GIO}:serve_proxy_io", {"proxy_channelX": REF("Channel")},
                   requires=lambda a, h: [("channel", a.proxy_channelX != 0), ("gateway", z3.And(h("Channel", a.proxy_channelX, "gateway") != 0, em(a, h) != 0))],
                   modifies=lambda a, h: [("Channel", None, "$sent"), ("Channel", None, "$inbox"), ("Channel", None, "$nrecv"), ("Channel", None, "$callback"), ("Channel", a.proxy_channelX, "$forwarded"), ("IO", None, "unread"), ("IO", None, "$tail"),
                                          ("ExecModel", em(a, h), "$sub"), ("Message", None, "msgcode"), ("Message", None, "channelid"), ("Message", None, "data")],
                   cases=[Case("sub-ended", post=sp_ended), Case("connection-lost", "raise", "EOFError", post=sp_prefix), Case("cannot-start-or-write", "raise", "OSError", post=sp_prefix),
                          Case("via-broken", "raise", "RemoteError", post=sp_prefix), Case("no-bootstrap-byte", "raise", "AssertionError", post=sp_prefix)], props=["C16"], allocates=True))
    w.add_loop(LoopSpec(f"{GIO}:serve_proxy_io", 0,
                        invariant=lambda L: [("forwarded-then-unread-is-the-sub-stream", z3.Concat(FW(L.h, L.forward_to_master_file), IOF(L.h, L.sub_io, "unread")) == z3.Concat(L.old("Channel", L.inp("proxy_channelX"), "$forwarded"), IOF(L.h, L.sub_io, "$stream"))),
                                             ("bootstrap-byte-first", z3.SubSeq(IOF(L.h, L.sub_io, "$stream"), 0, 1) == z3.StringVal("1")),
                                             ("params", z3.And(L.sub_io != 0, L.forward_to_master_file != 0, fchan(L.h, L.forward_to_master_file) == L.inp("proxy_channelX"),
                                                               L.h("ExecModel", L.execmodel, "$sub") == L.sub_io, L.execmodel == L.old("BaseGateway", L.old("Channel", L.inp("proxy_channelX"), "gateway"), "execmodel")))],
                        variant=lambda L: slen(IOF(L.h, L.sub_io, "unread")),
                        havoc_cells=lambda L: [("IO", L.sub_io, "unread"), ("IO", L.sub_io, "$tail"), ("Channel", L.inp("proxy_channelX"), "$forwarded")],
                        havoc_fields=["Message.msgcode", "Message.channelid", "Message.data"], props=["C16"]))
    return w
