"""Contracts for rsync (C17): the receiver's decision table and loops (rsync_remote.serve_rsync and its nested functions) and the
sender's structure walk (rsync.RSync), over an abstract file system.

File system: one ghost object FS with total maps from path text to kind (0 absent, 1 regular file, 2 directory, 3 symlink), permission bits
(0..4095), mtime (an opaque integer stamp), content (files) and target (links).  The os / shutil / stat / hashlib calls the code makes are
assumed contracts on these maps (listed in the evidence; the native oracle exercises the real file system).
"""
from __future__ import annotations

import ast

import z3

from pyvc import core
from pyvc.contracts import Args, Case, Contract, HeapView, LoopSpec
from pyvc.core import ANY, BOOL, BYTES, FUNCT, INT, MAP, NONE, NONEV, OPT, REF, SEQ, STR, SV, TUP, ExcV, U, Unsupported, mk_bool, mk_int, mk_str, mk_tuple
from pyvc.symexec import ExternD, FuncD, ModuleD

from .base import GB as GB_, RSYNC, RSYNCR, slen

FSR = z3.IntVal(1)
FSV = SV(REF("FS"), FSR)
SR = f"{RSYNCR}:serve_rsync"
RDS = f"{SR}.receive_directory_structure"
K_ABSENT, K_FILE, K_DIR, K_LINK = 0, 1, 2, 3
SLASH = z3.StringVal("/")
FIELDS = {"kind": INT, "perm": INT, "mtime": INT, "content": BYTES, "target": STR}

md5 = z3.Function("md5", z3.StringSort(), z3.StringSort())                 # digest of a content (collisions ignored: md5 is taken as injective)
# messages on the channel are opaque items with a tag and projections
m_tag = z3.Function("m_tag", U, z3.IntSort())                               # 0 directory list, 1 file tuple, 2 None (a link comes later), 3 data, 4 link tuple, 5 the int 42
m_mode_none = z3.Function("m_mode_none", U, z3.BoolSort())
m_mode, m_mtime, m_size = (z3.Function(n, U, z3.IntSort()) for n in ("m_mode", "m_mtime", "m_size"))
m_data_none = z3.Function("m_data_none", U, z3.BoolSort())
m_data = z3.Function("m_data", U, z3.StringSort())
m_ltype, m_lrel, m_lpoint = (z3.Function(n, U, z3.StringSort()) for n in ("m_ltype", "m_lrel", "m_lpoint"))
m_dest = z3.Function("m_dest", U, z3.StringSort())
m_delete = z3.Function("m_delete", U, z3.BoolSort())
# entries of the modifiedfiles list: (path, (mode, mtime, size))
mf = z3.Function("mf", z3.StringSort(), z3.BoolSort(), z3.IntSort(), z3.IntSort(), z3.IntSort(), U)
mf_path = z3.Function("mf_path", U, z3.StringSort())
mf_mode_none = z3.Function("mf_mode_none", U, z3.BoolSort())
mf_mode, mf_mtime, mf_size = (z3.Function(n, U, z3.IntSort()) for n in ("mf_mode", "mf_mtime", "mf_size"))
joinall = z3.Function("joinall", z3.StringSort(), z3.SeqSort(z3.StringSort()), z3.StringSort())   # os.path.join(destdir, *relcomponents)


def ax_mf(t):
    p, n, m, ti, s = (t.arg(i) for i in range(5))
    return [mf_path(t) == p, mf_mode_none(t) == n, mf_mode(t) == m, mf_mtime(t) == ti, mf_size(t) == s]


ax_mf.names = ["mf"]


def ax_joinall(t):
    d, rc = t.arg(0), t.arg(1)
    out = [z3.Implies(z3.Length(rc) == 0, t == d)]
    # joinall(d, rc ++ [n]) == joinall(d, rc) + "/" + n, instantiated when rc is syntactically a concatenation with a unit
    if z3.is_app(rc) and rc.decl().kind() == z3.Z3_OP_SEQ_CONCAT and rc.num_args() == 2 and z3.is_app(rc.arg(1)) and rc.arg(1).decl().kind() == z3.Z3_OP_SEQ_UNIT:
        out.append(t == z3.Concat(joinall(d, rc.arg(0)), SLASH, rc.arg(1).arg(0)))
    return out


ax_joinall.names = ["joinall"]


def arr(h, f):
    sv = h.sv("FS", FSR, f) if isinstance(h, HeapView) else h.get(FSV, f)
    return sv.v[1][0]


def fsget(h, f, p):
    return z3.Select(arr(h, f), p)


def under(p, q):
    """q is p or lies below p"""
    return z3.Or(q == p, z3.PrefixOf(z3.Concat(p, SLASH), q))


def simple(n):
    """an entry name: not empty, no '/'"""
    return z3.And(z3.Length(n) > 0, z3.Not(z3.Contains(n, SLASH)))


def fmt_of(kind):
    return z3.If(kind == K_FILE, 8, z3.If(kind == K_DIR, 4, 10))


def or700(m):
    return m + (7 - ((m % 512) / 64)) * 64


def perm_of(mode):
    return mode % 4096


def declare_fs(w):
    s = w.schema
    w.axiom_providers.extend([ax_mf, ax_joinall])
    s.set_bases("FS", ["object"])
    for f, t in FIELDS.items():
        s.declare("FS", f, MAP(STR, t), ghost=True)
    s.set_bases("StatResult", ["object"])
    for f in ("st_mode", "st_mtime", "st_size"):
        s.declare("StatResult", f, INT)
    s.set_bases("PyFile", ["object"])
    s.declare("PyFile", "path", STR)
    s.declare("PyFile", "mode", STR)
    s.set_bases("Md5", ["object"])
    s.declare("Md5", "of", BYTES)

    def setf(ex, st, f, p, val):
        m = st.heap.get(FSV, f)
        new = SV(m.ty, (m.v[0], [z3.Store(m.v[1][0], p, val)]))
        ex.set_field(st, FSV, f, new)

    def setf_lambda(ex, st, f, fn):
        """the map becomes q -> fn(q, old[q])"""
        m = st.heap.get(FSV, f)
        q = z3.String(core.fresh_name("fsq"))
        new = SV(m.ty, (m.v[0], [z3.Lambda([q], fn(q, z3.Select(m.v[1][0], q)))]))
        ex.set_field(st, FSV, f, new)

    w.fs_set, w.fs_set_lambda = setf, setf_lambda

    def s_(v):
        return core.coerce(v, STR).v

    def os_lstat(ex, args, kwargs, st, sink, node):
        p = s_(args[0])
        k = fsget(st.heap, "kind", p)
        for s2, absent in ex.fork(st, k == K_ABSENT):
            if absent:
                ex.raise_(s2, sink, "OSError", origin=f"os.lstat line {getattr(node, 'lineno', '?')}")
                continue
            # well-formed file system (assumption): kinds 1..3, permission bits below 0o10000, size of a file is the length of its content
            s2.assume(k >= 1, k <= 3, fsget(s2.heap, "perm", p) >= 0, fsget(s2.heap, "perm", p) < 4096)
            r = ex.allocate(s2, "StatResult")
            s2.heap.set(r, "st_mode", SV(INT, fmt_of(k) * 4096 + fsget(s2.heap, "perm", p)))
            s2.heap.set(r, "st_mtime", SV(INT, fsget(s2.heap, "mtime", p)))
            size = z3.Int(core.fresh_name("st_size"))
            s2.assume(size >= 0, z3.Implies(k == K_FILE, size == z3.Length(fsget(s2.heap, "content", p))))
            s2.heap.set(r, "st_size", SV(INT, size))
            yield s2, r

    def os_stat(ex, args, kwargs, st, sink, node):
        """os.stat FOLLOWS symbolic links: for a link it describes what the link points to (any file or directory), or fails when it dangles"""
        p = s_(args[0])
        k = fsget(st.heap, "kind", p)
        for s2, islink in ex.fork(st, k == K_LINK):
            if not islink:
                yield from os_lstat(ex, args, kwargs, s2, sink, node)
                continue
            s3 = s2.fork()
            ex.raise_(s3, sink, "OSError", origin="os.stat: dangling link")
            r = ex.allocate(s2, "StatResult")
            tk, pm, mt, sz = (z3.Int(core.fresh_name(n)) for n in ("target_kind", "target_perm", "target_mtime", "target_size"))
            s2.assume(z3.Or(tk == K_FILE, tk == K_DIR), pm >= 0, pm < 4096, sz >= 0)
            s2.heap.set(r, "st_mode", SV(INT, fmt_of(tk) * 4096 + pm))
            s2.heap.set(r, "st_mtime", SV(INT, mt))
            s2.heap.set(r, "st_size", SV(INT, sz))
            yield s2, r

    def os_unlink(ex, args, kwargs, st, sink, node):
        p = s_(args[0])
        k = fsget(st.heap, "kind", p)
        for s2, ok in ex.fork(st, z3.Or(k == K_FILE, k == K_LINK)):
            if not ok:
                ex.raise_(s2, sink, "OSError", origin="os.unlink of a directory or of nothing")
            else:
                setf(ex, s2, "kind", p, z3.IntVal(K_ABSENT))
                yield s2, NONEV
        # a file in a directory without write permission also raises OSError and changes nothing
        s3 = st.fork()
        ex.raise_(s3, sink, "OSError", origin="os.unlink: permission")

    def shutil_rmtree(ex, args, kwargs, st, sink, node):
        p = s_(args[0])
        ignore = len(args) > 1 and z3.is_true(z3.simplify(ex.truth(args[1], st)))
        if not ignore:
            raise Unsupported("shutil.rmtree without ignore_errors")
        # ignore_errors=True: whatever could be removed below p is gone; modelled as: all of it (failures are not modelled)
        setf_lambda(ex, st, "kind", lambda q, old: z3.If(under(p, q), K_ABSENT, old))
        yield st, NONEV

    def os_makedirs(ex, args, kwargs, st, sink, node):
        p = s_(args[0])
        for s2, exists in ex.fork(st, fsget(st.heap, "kind", p) != K_ABSENT):
            if exists:
                ex.raise_(s2, sink, "OSError", origin="os.makedirs: exists")
            else:
                setf(ex, s2, "kind", p, z3.IntVal(K_DIR))
                pm = z3.Int(core.fresh_name("umask_perm"))
                s2.assume(pm >= 0, pm < 4096)
                setf(ex, s2, "perm", p, pm)
                yield s2, NONEV

    def os_chmod(ex, args, kwargs, st, sink, node):
        p = s_(args[0])
        m = args[1]
        if m.ty.kind == "opt":
            for s0, isnone in ex.fork(st, m.v[0]):
                if isnone:
                    ex.raise_(s0, sink, "TypeError", origin="os.chmod(path, None)")
                else:
                    yield from os_chmod(ex, [args[0], m.v[1]], kwargs, s0, sink, node)
            return
        mode = core.coerce(m, INT).v
        for s2, exists in ex.fork(st, fsget(st.heap, "kind", p) != K_ABSENT):
            if not exists:
                ex.raise_(s2, sink, "OSError", origin="os.chmod: no such file")
            else:
                setf(ex, s2, "perm", p, perm_of(mode))
                yield s2, NONEV

    def os_utime(ex, args, kwargs, st, sink, node):
        p = s_(args[0])
        t = args[1]
        if t.ty.kind != "tuple" or len(t.v) != 2:
            raise Unsupported("os.utime times")
        for s2, exists in ex.fork(st, fsget(st.heap, "kind", p) != K_ABSENT):
            if not exists:
                ex.raise_(s2, sink, "OSError", origin="os.utime: no such file")
            else:
                setf(ex, s2, "mtime", p, core.coerce(t.v[1], INT).v)
                yield s2, NONEV

    def os_symlink(ex, args, kwargs, st, sink, node):
        src, p = s_(args[0]), s_(args[1])
        for s2, exists in ex.fork(st, fsget(st.heap, "kind", p) != K_ABSENT):
            if exists:
                ex.raise_(s2, sink, "OSError", origin="os.symlink: exists")
            else:
                setf(ex, s2, "kind", p, z3.IntVal(K_LINK))
                setf(ex, s2, "target", p, src)
                yield s2, NONEV

    link_resolves = z3.Function("link_resolves", z3.StringSort(), z3.StringSort(), z3.BoolSort())     # (path of a symlink, its target text): the chain ends at an existing entry

    def os_path_exists(ex, args, kwargs, st, sink, node):
        # os.path.exists FOLLOWS symlinks: a dangling (or looping) link "does not exist"; os.path.lexists is the test for "something is there"
        p = s_(args[0])
        k = fsget(st.heap, "kind", p)
        yield st, mk_bool(z3.If(k == K_LINK, link_resolves(p, fsget(st.heap, "target", p)), k != K_ABSENT))

    def os_path_lexists(ex, args, kwargs, st, sink, node):
        yield st, mk_bool(fsget(st.heap, "kind", s_(args[0])) != K_ABSENT)

    def path_join(ex, args, kwargs, st, sink, node):
        # POSIX join of a directory path not ending in '/' with relative components (entry names contain no '/': assumption on the names sent)
        cur = s_(args[0])
        for a in args[1:]:
            cur = z3.Concat(cur, SLASH, s_(a))
        yield st, SV(STR, cur)

    def py_open(ex, args, kwargs, st, sink, node):
        p = s_(args[0])
        mode = z3.simplify(args[1].v).as_string() if len(args) > 1 else "r"
        k = fsget(st.heap, "kind", p)
        if mode == "rb":
            for s2, ok in ex.fork(st, k == K_FILE):
                if not ok:
                    ex.raise_(s2, sink, "OSError", origin="open(rb): not a readable file")
                else:
                    f = ex.allocate(s2, "PyFile")
                    s2.heap.set(f, "path", SV(STR, p))
                    s2.heap.set(f, "mode", mk_str("rb"))
                    yield s2, f
            s3 = st.fork()
            ex.raise_(s3, sink, "OSError", origin="open(rb): permission")
        elif mode == "wb":
            for s2, ok in ex.fork(st, z3.Or(k == K_FILE, k == K_ABSENT)):
                if not ok:
                    ex.raise_(s2, sink, "OSError", origin="open(wb): is a directory / link")
                else:
                    # creation: a new file gets permission bits from the umask; truncation keeps them
                    pm = z3.Int(core.fresh_name("umask_perm"))
                    s2.assume(pm >= 0, pm < 4096)
                    setf(ex, s2, "perm", p, z3.If(k == K_ABSENT, pm, fsget(s2.heap, "perm", p)))
                    setf(ex, s2, "kind", p, z3.IntVal(K_FILE))
                    setf(ex, s2, "content", p, z3.StringVal(""))
                    setf(ex, s2, "mtime", p, z3.Int(core.fresh_name("now")))
                    f = ex.allocate(s2, "PyFile")
                    s2.heap.set(f, "path", SV(STR, p))
                    s2.heap.set(f, "mode", mk_str("wb"))
                    yield s2, f
            s3 = st.fork()
            ex.raise_(s3, sink, "OSError", origin="open(wb): permission")
        else:
            raise Unsupported(f"open mode {mode}")

    def with_file(ex, node, cm, st):
        item = node.items[0]
        outs = []
        states = [st]
        if item.optional_vars is not None:
            states = ex.assign(item.optional_vars, cm, st, outs)
        for s in states:
            outs.extend(ex.exec_block(node.body, s))     # closing a file changes nothing that is modelled
        return outs

    w.call_hooks[("with", "PyFile")] = with_file
    w.add(Contract("model:PyFile.read", {"self": REF("PyFile")}, cases=[Case("ok", restype=BYTES, post=lambda a, h, h2, r: [r == fsget(h, "content", h("PyFile", a.self, "path"))])], trusted=True,
                   note="read() of a file opened 'rb' returns its whole content"))

    def file_write(ex, args, kwargs, st, sink, node):
        f, data = args
        p = st.heap.get(f, "path").v
        setf(ex, st, "content", p, z3.Concat(fsget(st.heap, "content", p), core.coerce(data, BYTES).v))
        yield st, mk_int(0)

    w.externals["pyfile.write"] = file_write
    w.attr_hooks[("PyFile", "write")] = lambda ex, st, recv: SV(FUNCT, ExternD("pyfile.write", bound=recv))

    def hashlib_md5(ex, args, kwargs, st, sink, node):
        r = ex.allocate(st, "Md5")
        st.heap.set(r, "of", core.coerce(args[0], BYTES))
        yield st, r

    w.add(Contract("model:Md5.digest", {"self": REF("Md5")}, cases=[Case("ok", restype=BYTES, post=lambda a, h, h2, r: [r == md5(h("Md5", a.self, "of"))])], trusted=True))

    def isfmt(code):
        def f(ex, args, kwargs, st, sink, node):
            yield st, mk_bool(core.coerce(args[0], INT).v / 4096 == code)
        return f

    def os_listdir(ex, args, kwargs, st, sink, node):
        p = s_(args[0])
        for s2, ok in ex.fork(st, fsget(st.heap, "kind", p) == K_DIR):
            if not ok:
                ex.raise_(s2, sink, "OSError", origin="os.listdir: not a directory")
                continue
            names = z3.Const(core.fresh_name("listdir"), z3.SeqSort(z3.StringSort()))
            i, j = z3.Int(core.fresh_name("li")), z3.Int(core.fresh_name("lj"))
            n = z3.String(core.fresh_name("ln"))
            idx = z3.Function(core.fresh_name("listed_at"), z3.StringSort(), z3.IntSort())     # where an existing entry stands in the listing
            # every name is an existing entry of p, names are distinct simple names, and every existing entry with a simple name is listed
            s2.assume(z3.ForAll([i], z3.Implies(z3.And(i >= 0, i < z3.Length(names)), z3.And(fsget(s2.heap, "kind", z3.Concat(p, SLASH, names[i])) != K_ABSENT, simple(names[i]))), patterns=[names[i]]),
                      z3.ForAll([i, j], z3.Implies(z3.And(i >= 0, i < j, j < z3.Length(names)), names[i] != names[j]), patterns=[z3.MultiPattern(names[i], names[j])]),
                      z3.ForAll([n], z3.Implies(z3.And(simple(n), fsget(s2.heap, "kind", z3.Concat(p, SLASH, n)) != K_ABSENT),
                                                z3.And(z3.Contains(names, z3.Unit(n)), idx(n) >= 0, idx(n) < z3.Length(names), names[idx(n)] == n)), patterns=[z3.Concat(p, SLASH, n)]))
            yield s2, SV(SEQ(STR), names)

    w.externals["os.listdir"] = os_listdir
    w.externals["os.stat"] = os_stat
    w.externals.update({"os.lstat": os_lstat, "os.unlink": os_unlink, "shutil.rmtree": shutil_rmtree, "os.makedirs": os_makedirs, "os.chmod": os_chmod, "os.utime": os_utime,
                        "os.symlink": os_symlink, "os.path.exists": os_path_exists, "os.path.lexists": os_path_lexists, "os.path.join": path_join, "builtins.open": py_open, "hashlib.md5": hashlib_md5,
                        "stat.S_ISREG": isfmt(8), "stat.S_ISDIR": isfmt(4), "stat.S_ISLNK": isfmt(10)})

    def bitor(ex, op, a, b, st, sink, node):
        bv = z3.simplify(core.coerce(b, INT).v)
        if z3.is_int_value(bv) and bv.as_long() == 0o700:
            yield st, SV(INT, or700(core.coerce(a, INT).v))
            return
        raise Unsupported("bitwise or with other than 0o700")

    w.call_hooks[("binop", "BitOr")] = bitor
    return w


# ---------------------------------------------------------------------------------------------------------------------------------
# receiver: channel model, remove(), the decision table of receive_directory_structure (entry messages)
# ---------------------------------------------------------------------------------------------------------------------------------
QP = z3.String("QP")     # an arbitrary but fixed path (frame statements over the file system maps are made for QP and generalised at call sites)
T_LIST, T_FILE, T_NONE, T_DATA, T_LINK, T_42, T_INIT = 0, 1, 2, 3, 4, 5, 6
LOG_LIST_DONE, LOG_ACK, LOG_LINKS, LOG_DONE = 1, 2, 3, 4


def inbox(h, c):
    return h("Channel", c, "$inbox")


def declare_receiver(w):
    from pyvc import extract

    declare_fs(w)
    s = w.schema
    s.declare("Channel", "$inbox", SEQ(ANY), ghost=True)        # messages still to be received, in order
    s.declare("Channel", "$requested", MAP(STR, BOOL), ghost=True)   # destination paths whose content was requested ("send")
    s.declare("Channel", "$checksum", MAP(STR, TUP(BOOL, BYTES)), ghost=True)   # the checksum sent with the request: (is None, digest)
    s.declare("Channel", "$log", SEQ(INT), ghost=True)          # the other messages sent, in order
    s.declare("Channel", "$acks", SEQ(STR), ghost=True)         # the relative paths acknowledged, in order
    s.set_bases("ModList", ["object"])
    s.declare("ModList", "items", SEQ(ANY))                     # the list `modifiedfiles` (a list object shared with the nested function): entries mf(path, mode, mtime, size)
    s.set_bases("Options", ["object"])
    s.declare("Options", "delete", BOOL)
    s.set_bases("DirMsg", ["object"])
    s.declare("DirMsg", "mode", INT)
    s.declare("DirMsg", "names", SEQ(STR))
    s.declare("DirMsg", "popped", BOOL)

    def isinstance_ref(ex, v, names):
        if v.ty.cls == "DirMsg":
            return z3.BoolVal("list" in names)
        return None

    w.call_hooks[("isinstance", "ref")] = isinstance_ref

    def dirmsg_pop(ex, args, kwargs, st, sink, node):
        m, idx = args
        if not z3.is_true(z3.simplify(core.coerce(idx, INT).v == 0)) or not z3.is_false(z3.simplify(st.heap.get(m, "popped").v)):
            raise Unsupported("directory message: only one pop(0) is modelled")
        st.heap.set(m, "popped", mk_bool(True))
        yield st, SV(INT, st.heap.get(m, "mode").v)

    w.externals["rsync.dirmsg_pop"] = dirmsg_pop
    w.attr_hooks[("DirMsg", "pop")] = lambda ex, st, recv: SV(FUNCT, ExternD("rsync.dirmsg_pop", bound=recv))

    def iter_dirmsg(ex, it, st):
        if not z3.is_true(z3.simplify(st.heap.get(it, "popped").v)):
            raise Unsupported("iteration over a directory message before pop(0)")
        L = st.heap.get(it, "names").v
        elem = lambda i: SV(STR, L[i])
        elem.seq = L
        return z3.Length(L), elem

    w.call_hooks[("iter", "ref:DirMsg")] = iter_dirmsg
    w.call_hooks[("display", "dict")] = lambda ex, node, st, sink: iter([(st, SV(MAP(STR, BOOL), (z3.K(z3.StringSort(), z3.BoolVal(False)), [z3.K(z3.StringSort(), z3.BoolVal(False))])))]) if not node.keys else (_ for _ in ()).throw(Unsupported("dict display"))

    def options_get(ex, args, kwargs, st, sink, node):
        o, key = args[0], args[1]
        if z3.simplify(key.v).as_string() != "delete":
            raise Unsupported("options.get of another key")
        yield st, st.heap.get(o, "delete")

    w.externals["rsync.options_get"] = options_get
    w.attr_hooks[("Options", "get")] = lambda ex, st, recv: SV(FUNCT, ExternD("rsync.options_get", bound=recv))

    def starred_rc(ex, node, st, sink):
        # [*relcomponents, entryname]
        if len(node.elts) == 2 and isinstance(node.elts[0], ast.Starred):
            for s1, rc in ex.ev(node.elts[0].value, st, sink):
                for s2, e in ex.ev(node.elts[1], s1, sink):
                    yield s2, SV(SEQ(STR), z3.Concat(core.coerce(rc, SEQ(STR)).v, z3.Unit(core.coerce(e, STR).v)))
            return
        raise Unsupported("starred list display")

    w.call_hooks[("display", "starred_list")] = starred_rc
    mod = extract.load(RSYNCR)
    OS, STAT, SHUTIL = (SV(FUNCT, ModuleD(n)) for n in ("os", "stat", "shutil"))
    MD5 = SV(FUNCT, ExternD("hashlib.md5"))

    def req(h, c, p):
        return z3.Select(h.sv("Channel", c, "$requested").v[1][0], p)

    def cks(h, c, p):
        m = h.sv("Channel", c, "$checksum")
        return z3.Select(m.v[1][0], p), z3.Select(m.v[1][1], p)

    def closure_value(ex, st, name):
        if name in st.locals:
            return st.locals[name]
        fr = ex.frame
        if fr.closure is not None and name in fr.closure:
            return fr.closure[name]
        raise Unsupported(f"{name} not in scope")

    # ---- channel.send(<tuple>) on the receiver side ------------------------------------------------------------------
    def chan_send(ex, args, kwargs, st, sink, node):
        ch, item = args
        if item.ty.kind != "tuple" or len(item.v) != 2:
            raise Unsupported("receiver sends only (tag, payload) pairs")
        tag = z3.simplify(item.v[0].v).as_string()
        if tag == "send":
            rc, ck = item.v[1].v
            destdir = closure_value(ex, st, "destdir").v
            key = joinall(destdir, core.coerce(rc, SEQ(STR)).v)
            m = st.heap.get(ch, "$requested")
            ex.set_field(st, ch, "$requested", SV(m.ty, (m.v[0], [z3.Store(m.v[1][0], key, True)])))
            c = st.heap.get(ch, "$checksum")
            ck = core.coerce(ck, OPT(BYTES))
            ex.set_field(st, ch, "$checksum", SV(c.ty, (c.v[0], [z3.Store(c.v[1][0], key, ck.v[0]), z3.Store(c.v[1][1], key, ck.v[1].v)])))
        else:
            code = {"list_done": LOG_LIST_DONE, "ack": LOG_ACK, "links": LOG_LINKS, "done": LOG_DONE}.get(tag)
            if code is None:
                raise Unsupported(f"unknown message {tag}")
            ex.set_field(st, ch, "$log", SV(SEQ(INT), z3.Concat(st.heap.get(ch, "$log").v, z3.Unit(z3.IntVal(code)))))
            if tag == "ack":
                ex.set_field(st, ch, "$acks", SV(SEQ(STR), z3.Concat(st.heap.get(ch, "$acks").v, z3.Unit(core.coerce(item.v[1], STR).v))))
        yield st, NONEV
        s2 = st.fork()
        ex.raise_(s2, sink, "OSError", origin="channel.send: closed")

    w.externals["rsync.chan_send"] = chan_send
    w.attr_hooks[("Channel", "send")] = lambda ex, st, recv: SV(FUNCT, ExternD("rsync.chan_send", bound=recv))

    # ---- channel.receive() ----------------------------------------------------------------------------------------------------------
    def chan_receive(ex, args, kwargs, st, sink, node):
        ch = args[0]
        ib = st.heap.get(ch, "$inbox").v
        for s2, empty in ex.fork(st, z3.Length(ib) == 0):
            if empty:
                ex.raise_(s2, sink, "EOFError", origin="channel.receive: connection lost / sender gone")
                continue
            u = ib[0]
            ex.set_field(s2, ch, "$inbox", SV(SEQ(ANY), z3.SubSeq(ib, 1, z3.Length(ib) - 1)))
            if ex.frame.qualname.endswith("receive_directory_structure"):
                variant = getattr(ex.cur_contract, "variant_name", "")
                for s3, isfile in ex.fork(s2, m_tag(u) == T_FILE):
                    if isfile:
                        yield s3, mk_tuple([SV(OPT(INT), (m_mode_none(u), SV(INT, m_mode(u)))), SV(INT, m_mtime(u)), SV(INT, m_size(u))])
                        continue
                    for s4, isnone in ex.fork(s3, m_tag(u) == T_NONE):
                        if isnone:
                            yield s4, NONEV
                        elif variant == "entry":
                            raise Unsupported("entry variant reached a directory message (its precondition excludes it)")
                        else:
                            # [mode, *names]: a list object; modelled as an object with the mode and the names (pop(0) takes the mode off)
                            s4.assume(m_tag(u) == T_LIST)
                            r = ex.allocate(s4, "DirMsg")
                            s4.heap.set(r, "mode", SV(INT, m_mode(u)))
                            s4.heap.set(r, "names", SV(SEQ(STR), m_names(u)))
                            s4.heap.set(r, "popped", mk_bool(False))
                            yield s4, r
            else:
                yield s2, SV(ANY, u)

    w.externals["rsync.chan_receive"] = chan_receive
    w.attr_hooks[("Channel", "receive")] = lambda ex, st, recv: SV(FUNCT, ExternD("rsync.chan_receive", bound=recv))

    # ---- modifiedfiles.append((path, msg)) ------------------------------------------------------------------------------------------------
    def ml_append(ex, args, kwargs, st, sink, node):
        ml, item = args
        if item.ty.kind != "tuple" or len(item.v) != 2 or item.v[1].ty.kind != "tuple":
            raise Unsupported("modifiedfiles.append of other than (path, (mode, mtime, size))")
        p = core.coerce(item.v[0], STR).v
        mo, mt, sz = item.v[1].v
        mo = core.coerce(mo, OPT(INT))
        e = mf(p, mo.v[0], mo.v[1].v, core.coerce(mt, INT).v, core.coerce(sz, INT).v)
        ex.set_field(st, ml, "items", SV(SEQ(ANY), z3.Concat(st.heap.get(ml, "items").v, z3.Unit(e))))
        yield st, NONEV

    w.externals["rsync.ml_append"] = ml_append
    w.attr_hooks[("ModList", "append")] = lambda ex, st, recv: SV(FUNCT, ExternD("rsync.ml_append", bound=recv))

    def op_bitor(x, y):
        yv = z3.simplify(y)
        if z3.is_int_value(yv) and yv.as_long() == 0o700:
            return or700(x)
        raise Unsupported("bitwise or with other than 0o700")

    w.externals["op.bitor"] = op_bitor

    # ---- remove(path) --------------------------------------------------------------------------------------------------------------------------
    def frame_kind(h, h2, p, gen):
        q = z3.String("q_fk") if gen else QP
        f = z3.Implies(z3.Not(under(p, q)), fsget(h2, "kind", q) == fsget(h, "kind", q))
        return z3.ForAll([q], f, patterns=[fsget(h2, "kind", q)]) if gen else f

    def only_vanish(h, h2, gen):
        q = z3.String("q_ov") if gen else QP
        f = z3.Or(fsget(h2, "kind", q) == fsget(h, "kind", q), fsget(h2, "kind", q) == K_ABSENT)
        return z3.ForAll([q], f, patterns=[fsget(h2, "kind", q)]) if gen else f

    def remove_post(a, h, h2, r, gen=False):
        return [fsget(h2, "kind", a.path) == K_ABSENT, frame_kind(h, h2, a.path, gen), only_vanish(h, h2, gen)]

    c = w.add(Contract(f"{SR}.remove", {"path": STR}, modifies=lambda a, h: [("FS", FSR, "kind")],
                       cases=[Case("ok", post=remove_post, post_assume=lambda a, h, h2, r: remove_post(a, h, h2, r, gen=True)),
                              Case("outside-destdir", "raise", "AssertionError", when=lambda a, h: z3.Not(z3.PrefixOf(a.destdir, a.path)),
                                   post=lambda a, h, h2, e: [arr(h2, "kind") == arr(h, "kind")])], props=["C17"]))
    c.closure = {"destdir": STR, "os": OS, "shutil": SHUTIL}
    REMOVE = lambda destdir_sv: SV(FUNCT, FuncD(mod, "serve_rsync.remove", closure={"destdir": destdir_sv, "os": OS, "shutil": SHUTIL}))

    # ---- receive_directory_structure: file / link-placeholder messages ----------------------------------------------------------------------------
    def head(a, h):
        return inbox(h, a.channel)[0]

    def rds_entry_post(a, h, h2, r, gen=False):
        u = head(a, h)
        p = a.path
        k = fsget(h, "kind", p)
        ch = a.channel
        items, items2 = h("ModList", a.modifiedfiles, "items"), h2("ModList", a.modifiedfiles, "items")
        st_mode = fmt_of(k) * 4096 + fsget(h, "perm", p)
        mode_given = z3.And(z3.Not(m_mode_none(u)), m_mode(u) != 0)
        same_size = m_size(u) == z3.Length(fsget(h, "content", p))
        same_mtime = m_mtime(u) == fsget(h, "mtime", p)
        request = z3.And(m_tag(u) == T_FILE, z3.Or(k != K_FILE, z3.Not(same_size), z3.Not(same_mtime)))
        with_checksum = z3.And(k == K_FILE, same_size, z3.Not(same_mtime))
        chmod_only = z3.And(m_tag(u) == T_FILE, k == K_FILE, same_size, same_mtime, mode_given, m_mode(u) != st_mode)
        entry = mf(p, m_mode_none(u), m_mode(u), m_mtime(u), m_size(u))
        cknone, ckval = cks(h2, ch, p)
        q = z3.String("q_rds") if gen else QP
        wrap = (lambda f, pats: z3.ForAll([q], f, patterns=pats)) if gen else (lambda f, pats: f)
        untouched = lambda f: fsget(h2, f, q) == fsget(h, f, q)
        return [inbox(h2, ch) == z3.SubSeq(inbox(h, ch), 1, slen(inbox(h, ch)) - 1),                       # exactly one message consumed
                # a request is sent, and the entry queued, exactly when the content may differ
                z3.If(request, z3.And(req(h2, ch, p), items2 == z3.Concat(items, z3.Unit(entry)), cknone == z3.Not(with_checksum),
                                      z3.Implies(with_checksum, ckval == md5(fsget(h, "content", p)))),
                      z3.And(req(h2, ch, p) == req(h, ch, p), items2 == items)),
                # what stood in the way of a regular file is removed before the request
                z3.Implies(z3.And(request, z3.Or(k == K_DIR, k == K_LINK)), fsget(h2, "kind", p) == K_ABSENT),
                z3.Implies(z3.And(request, z3.Or(k == K_FILE, k == K_ABSENT)), fsget(h2, "kind", p) == k),
                # equal size and mtime, different mode: the permission bits become the source's, nothing else (THE mode-only cell of the table)
                z3.Implies(chmod_only, z3.And(fsget(h2, "perm", p) == perm_of(m_mode(u)), fsget(h2, "kind", p) == k)),
                z3.Implies(z3.And(z3.Not(request), z3.Not(chmod_only)), z3.And(fsget(h2, "perm", p) == fsget(h, "perm", p), fsget(h2, "kind", p) == k)),
                # nothing outside `path` is touched; contents, times and link targets not at all
                wrap(z3.Implies(z3.Not(under(p, q)), z3.And(untouched("kind"), untouched("perm"))), [fsget(h2, "kind", q), fsget(h2, "perm", q)]),
                arr(h2, "content") == arr(h, "content"), arr(h2, "mtime") == arr(h, "mtime"), arr(h2, "target") == arr(h, "target"),
                wrap(z3.Implies(q != p, req(h2, ch, q) == req(h, ch, q)), [req(h2, ch, q)])]

    def rds_requires(a, h):
        return [("path-is-destdir-joined-with-the-components", a.path == joinall(a.destdir, a.relcomponents)),
                ("channel-and-list", z3.And(a.channel != 0, a.modifiedfiles != 0)),
                ("path-below-destdir", z3.PrefixOf(a.destdir, a.path)),
                ("next-message-is-an-entry", z3.Implies(slen(inbox(h, a.channel)) > 0, z3.Or(m_tag(head(a, h)) == T_FILE, m_tag(head(a, h)) == T_NONE)))]

    RMOD = lambda a, h: [("FS", FSR, "kind"), ("FS", FSR, "perm"), ("Channel", a.channel, "$inbox"), ("Channel", a.channel, "$requested"), ("Channel", a.channel, "$checksum"),
                         ("ModList", a.modifiedfiles, "items")]
    c = w.add(Contract(RDS, {"path": STR, "relcomponents": SEQ(STR)}, requires=rds_requires, modifies=RMOD,
                       cases=[Case("ok", post=rds_entry_post, post_assume=lambda a, h, h2, r: rds_entry_post(a, h, h2, r, gen=True)),
                              Case("connection-lost", "raise", "EOFError"), Case("cannot-tell", "raise", "OSError")],
                       props=["C17"], allocates=True), variant="entry")
    dd = core.fresh(STR, "destdir")
    c.closure = {"channel": REF("Channel"), "options": REF("Options"), "destdir": dd, "modifiedfiles": REF("ModList"), "os": OS, "stat": STAT, "md5": MD5, "remove": REMOVE(dd)}
    return w


def declare_serve_rsync(w):
    """the body of serve_rsync: the walk (summary of receive_directory_structure), the modifiedfiles loop, the links loop"""
    from pyvc import extract

    declare_receiver(w)
    w.contracts[f"{RDS}#entry"].verify_only = True
    s = w.schema
    mod = extract.load(RSYNCR)
    fn = mod.func("serve_rsync")
    ml_line = [n.lineno for n in ast.walk(fn) if isinstance(n, ast.Assign) and isinstance(n.targets[0], ast.Name) and n.targets[0].id == "modifiedfiles"
               and isinstance(n.value, ast.List) and not n.value.elts]
    opt_of = z3.Function("opt_of", U, z3.IntSort())

    def empty_list(ex, node, st, sink):
        if ex.frame.qualname == "serve_rsync" and node.lineno in ml_line:
            def gen():
                r = ex.allocate(st, "ModList")
                st.heap.set(r, "items", SV(SEQ(ANY), z3.Empty(z3.SeqSort(U))))
                yield st, r
            return gen()
        if ex.frame.qualname == "serve_rsync":
            return iter([(st, SV(SEQ(STR), z3.Empty(z3.SeqSort(z3.StringSort()))))])     # the empty relcomponents of the first call
        return None

    w.call_hooks[("display", "emptylist")] = empty_list
    w.call_hooks[("cast", "tuple[str, dict[str, object]]")] = lambda ex, v: mk_tuple([SV(STR, m_dest(v.v)), SV(REF("Options"), opt_of(v.v))])
    w.call_hooks[("cast", "bytes")] = lambda ex, v: SV(OPT(BYTES), (m_data_none(v.v), SV(BYTES, m_data(v.v))))
    w.call_hooks[("cast", "tuple[Literal['linkbase', 'link'], str, str]")] = lambda ex, v: mk_tuple([SV(STR, m_ltype(v.v)), SV(STR, m_lrel(v.v)), SV(STR, m_lpoint(v.v))])

    def eq_any_int(ex, a, b):
        x, y = (a, b) if a.ty.kind == "any" else (b, a)
        if y.ty.kind == "int":
            yv = z3.simplify(y.v)
            if z3.is_int_value(yv) and yv.as_long() == 42:
                return m_tag(x.v) == T_42      # only the int 42 compares equal to 42 (the other messages are tuples)
        raise Unsupported("comparison of a message with other than 42")

    w.call_hooks[("eq", "any")] = eq_any_int

    def iter_modlist(ex, it, st):
        L = st.heap.get(it, "items").v

        def elem(i):
            u = L[i]
            return mk_tuple([SV(STR, mf_path(u)), mk_tuple([SV(OPT(INT), (mf_mode_none(u), SV(INT, mf_mode(u)))), SV(INT, mf_mtime(u)), SV(INT, mf_size(u))])])

        return z3.Length(L), elem

    w.call_hooks[("iter", "ref:ModList")] = iter_modlist
    items = lambda h, m: h("ModList", m, "items")

    # ---- the recursive walk as seen by its callers: the contract verified in the world `walk` (declare_walk_loops) ------------------------------------
    def walk_post(a, h, h2, r, gen=False):
        return walk_post_full(a, h, h2, r, gen)

    c = w.add(Contract(RDS, {"path": STR, "relcomponents": SEQ(STR)},
                       requires=lambda a, h: [("path-is-destdir-joined-with-the-components", a.path == joinall(a.destdir, a.relcomponents)), ("channel-and-list", z3.And(a.channel != 0, a.modifiedfiles != 0))],
                       modifies=lambda a, h: [("FS", FSR, "kind"), ("FS", FSR, "perm"), ("Channel", a.channel, "$inbox"), ("Channel", a.channel, "$requested"), ("Channel", a.channel, "$checksum"),
                                              ("ModList", a.modifiedfiles, "items")],
                       cases=[Case("ok", post=walk_post, post_assume=lambda a, h, h2, r: walk_post(a, h, h2, r, gen=True)), Case("connection-lost", "raise", "EOFError"), Case("cannot", "raise", "OSError"),
                              Case("outside", "raise", "AssertionError")],
                       trusted=True, allocates=True,
                       note="the recursive walk: queues files (distinct paths below path, each absent or a regular file by then), consumes a non-empty prefix of the inbox, touches nothing outside path and "
                            "neither contents, times nor link targets; directory messages: directory made, owner-writable, unlisted entries removed iff delete - VERIFIED as walk::receive_directory_structure#walk"), variant="walk")
    entry = w.contracts[f"{RDS}#entry"]
    c.closure = dict(entry.closure)
    return w


J7 = z3.Int("J7")     # an arbitrary but fixed index (queued file / link message)


def declare_serve_rsync_body(w):
    declare_serve_rsync(w)
    s = w.schema
    s.declare("Channel", "$queued", SEQ(ANY), ghost=True)       # the modifiedfiles list as it stood when ("list_done", None) was sent
    s.declare("Channel", "$data_at", INT, ghost=True)           # how many messages the walk had consumed by then
    s.declare("Channel", "$inbox0", SEQ(ANY), ghost=True)       # the inbox when serve_rsync started (never modified)
    items = lambda h, m: h("ModList", m, "items")
    base_send = w.externals["rsync.chan_send"]

    def chan_send2(ex, args, kwargs, st, sink, node):
        ch, item = args
        if item.ty.kind == "tuple" and len(item.v) == 2 and z3.simplify(item.v[0].v).as_string() == "list_done" and "modifiedfiles" in st.locals:
            ml = st.locals["modifiedfiles"]
            ex.set_field(st, ch, "$queued", SV(SEQ(ANY), st.heap.get(ml, "items").v))
            ex.set_field(st, ch, "$data_at", SV(INT, z3.Length(st.heap.get(ch, "$inbox0").v) - z3.Length(st.heap.get(ch, "$inbox").v)))
        yield from base_send(ex, args, kwargs, st, sink, node)

    w.externals["rsync.chan_send"] = chan_send2

    def file_done(h, hw, dd, e, data_u):
        """queued entry e after its turn: content replaced by what the sender answered, or untouched when it answered None (checksum matched / source unreadable);
        where a regular file stands afterwards it has the source's mtime and permission bits"""
        p = mf_path(e)
        stamped = z3.And(fsget(h, "mtime", p) == mf_mtime(e), z3.Implies(z3.And(z3.Not(mf_mode_none(e)), mf_mode(e) != 0), fsget(h, "perm", p) == perm_of(mf_mode(e))))
        return z3.And(z3.Implies(z3.Not(m_data_none(data_u)), z3.And(fsget(h, "kind", p) == K_FILE, fsget(h, "content", p) == m_data(data_u))),
                      z3.Implies(m_data_none(data_u), z3.And(fsget(h, "content", p) == fsget(hw, "content", p), fsget(h, "kind", p) == fsget(hw, "kind", p))),
                      z3.Implies(fsget(h, "kind", p) == K_FILE, stamped))

    def file_done_post(h2, h, e, data_u):
        p = mf_path(e)
        stamped = z3.And(fsget(h2, "mtime", p) == mf_mtime(e), z3.Implies(z3.And(z3.Not(mf_mode_none(e)), mf_mode(e) != 0), fsget(h2, "perm", p) == perm_of(mf_mode(e))))
        return z3.And(z3.Implies(z3.Not(m_data_none(data_u)), fsget(h2, "content", p) == m_data(data_u)), z3.Implies(m_data_none(data_u), fsget(h2, "content", p) == fsget(h, "content", p)),
                      z3.Implies(fsget(h2, "kind", p) == K_FILE, stamped))

    def link_done(h, dd, u):
        p = z3.Concat(dd, SLASH, m_lrel(u))
        return z3.And(fsget(h, "kind", p) == K_LINK, fsget(h, "target", p) == z3.If(m_ltype(u) == z3.StringVal("linkbase"), z3.Concat(dd, SLASH, m_lpoint(u)), m_lpoint(u)))

    def links_apart(ib0, dd, frm, gen=True):
        """link messages name pairwise non-nested paths (they are leaves of one source tree), none of them a queued file"""
        i, j = z3.Int("ql1"), z3.Int("ql2")
        pi, pj = z3.Concat(dd, SLASH, m_lrel(ib0[i])), z3.Concat(dd, SLASH, m_lrel(ib0[j]))
        return z3.ForAll([i, j], z3.Implies(z3.And(i >= frm, j >= frm, i < slen(ib0), j < slen(ib0), i != j), z3.And(z3.Not(under(pi, pj)))), patterns=[z3.MultiPattern(ib0[i], ib0[j])])

    def sr_post(a, h, h2, r):
        ch = a.channel
        ib0 = inbox(h, ch)
        dd = m_dest(ib0[0])
        Q = h2("Channel", ch, "$queued")
        at = h2("Channel", ch, "$data_at")
        nq = slen(Q)
        log2 = h2("Channel", ch, "$log")
        consumed = slen(ib0) - slen(inbox(h2, ch))
        nlinks = consumed - at - nq - 1
        return [slen(log2) == slen(h("Channel", ch, "$log")) + nq + 3,                      # list_done, one ack per queued file, links, done
                log2[slen(h("Channel", ch, "$log"))] == LOG_LIST_DONE, log2[slen(log2) - 2] == LOG_LINKS, log2[slen(log2) - 1] == LOG_DONE,
                z3.Implies(z3.And(J7 >= 0, J7 < nq), log2[slen(h("Channel", ch, "$log")) + 1 + J7] == LOG_ACK),
                nlinks >= 0, m_tag(ib0[consumed - 1]) == T_42,                                 # stopped at the completion marker
                z3.Implies(z3.And(J7 >= 0, J7 < nlinks), link_done(h2, dd, ib0[at + nq + J7])),  # every link message: a symlink pointing at the corresponding place
                # every queued file: content as answered (untouched for None), and a regular file there carries the source's mtime and permission bits -
                # unless a later link message replaced that very path
                z3.Implies(z3.And(J7 >= 0, J7 < nq), z3.Or(fsget(h2, "kind", mf_path(Q[J7])) == K_LINK, fsget(h2, "kind", mf_path(Q[J7])) == K_ABSENT, file_done_post(h2, h, Q[J7], ib0[at + J7])))]

    w.add(Contract(SR, {"channel": REF("Channel")},
                   requires=lambda a, h: [("channel", a.channel != 0), ("inbox0-is-the-inbox", h("Channel", a.channel, "$inbox0") == inbox(h, a.channel)),
                                          ("links-are-leaves", links_apart(inbox(h, a.channel), m_dest(inbox(h, a.channel)[0]), 1))],
                   modifies=lambda a, h: [("FS", FSR, f) for f in FIELDS] + [("Channel", a.channel, f) for f in ("$inbox", "$requested", "$checksum", "$log", "$acks", "$queued", "$data_at")],
                   cases=[Case("ok", post=sr_post), Case("connection-lost", "raise", "EOFError"),
                          # the file system may refuse things - but never "something is in the way of a link": what stands there (a dangling link included) was removed first
                          Case("cannot", "raise", "OSError", post=lambda a, h, h2, e: [] if not hasattr(e, "origin") else [z3.BoolVal("os.symlink: exists" not in e.origin)]),
                          Case("protocol", "raise", "AssertionError")],
                   props=["C17"], allocates=True))

    # ---- the modifiedfiles loop --------------------------------------------------------------------------------------------------------------
    def files_loop(L, gen=False):
        ch = L.inp("channel")
        h, pre = L.h, L.pre
        M = items(h, L.modifiedfiles)
        ibw = inbox(pre, ch)
        j = z3.Int("qf7") if gen else J7
        wrap = (lambda f: z3.ForAll([j], f, patterns=[M[j]])) if gen else (lambda f: f)
        logp = pre("Channel", ch, "$log")
        out = [("list-unchanged", z3.And(M == items(pre, L.modifiedfiles), L.modifiedfiles != 0, h("Channel", ch, "$queued") == M, h("Channel", ch, "$data_at") == pre("Channel", ch, "$data_at"))),
               ("one-data-message-per-file", inbox(h, ch) == z3.SubSeq(ibw, L.k, slen(ibw) - L.k)),
               ("one-ack-per-file", z3.And(slen(h("Channel", ch, "$log")) == slen(logp) + L.k, z3.PrefixOf(logp, h("Channel", ch, "$log")))),
               ("acks", wrap(z3.Implies(z3.And(j >= 0, j < L.k), h("Channel", ch, "$log")[slen(logp) + j] == LOG_ACK))),
               ("files-done-so-far", wrap(z3.Implies(z3.And(j >= 0, j < L.k), file_done(h, pre, L.destdir, M[j], ibw[j])))),
               ("files-still-to-come-untouched", wrap(z3.Implies(z3.And(j >= L.k, j < slen(M)), z3.And(fsget(h, "content", mf_path(M[j])) == fsget(pre, "content", mf_path(M[j])),
                                                                                                      fsget(h, "kind", mf_path(M[j])) == fsget(pre, "kind", mf_path(M[j])))))),
               ("links-untouched", arr(h, "target") == arr(pre, "target")),
               ("params", z3.And(L.channel == ch, L.destdir == m_dest(inbox(L.old, ch)[0]), h("Channel", ch, "$inbox0") == inbox(L.old, ch)))]
        return out

    ls = LoopSpec(SR, 0, invariant=lambda L: files_loop(L), havoc_cells=lambda L: [("FS", FSR, f) for f in ("kind", "perm", "mtime", "content")]
                  + [("Channel", L.inp("channel"), f) for f in ("$inbox", "$log", "$acks")], props=["C17"])
    ls.invariant_assume = lambda L: [f for _, f in files_loop(L, gen=True)] + list(queued_distinct(L))
    w.add_loop(ls)

    # ---- the links loop: while msg != 42 ---------------------------------------------------------------------------------------------------
    def kinds_step(h, pre, gen):
        q = z3.String("q_ks") if gen else QP
        f = z3.Or(fsget(h, "kind", q) == fsget(pre, "kind", q), fsget(h, "kind", q) == K_ABSENT, fsget(h, "kind", q) == K_LINK)
        return z3.ForAll([q], f, patterns=[fsget(h, "kind", q)]) if gen else f

    def links_loop(L, gen=False):
        ch = L.inp("channel")
        h, pre, old = L.h, L.pre, L.old
        ib0 = inbox(old, ch)
        ibp = inbox(pre, ch)                       # the inbox after the first link message (or the 42) was taken
        n = slen(ibp) - slen(inbox(h, ch))         # link messages handled so far
        first = slen(ib0) - slen(ibp) - 1          # position of that first message in the original inbox
        j = z3.Int("ql7") if gen else J7
        wrap = (lambda f: z3.ForAll([j], f, patterns=[ib0[first + j]])) if gen else (lambda f: f)
        msg = L.sv("msg").v
        return [("position", z3.And(n >= 0, first >= 1, inbox(h, ch) == z3.SubSeq(ib0, first + n + 1, slen(ib0) - first - n - 1), z3.SuffixOf(ibp, ib0), msg == ib0[first + n])),
                ("links-made-so-far", wrap(z3.Implies(z3.And(j >= 0, j < n), link_done(h, L.destdir, ib0[first + j])))),
                ("earlier-messages-were-links", wrap(z3.Implies(z3.And(j >= 0, j < n), m_tag(ib0[first + j]) != T_42))),
                ("entries-only-vanish-or-become-links", kinds_step(h, pre, gen)),
                ("log-and-files-untouched", z3.And(h("Channel", ch, "$log") == pre("Channel", ch, "$log"), h("Channel", ch, "$queued") == pre("Channel", ch, "$queued"),
                                                   h("Channel", ch, "$data_at") == pre("Channel", ch, "$data_at"))),
                ("params", z3.And(L.channel == ch, L.destdir == m_dest(ib0[0]), h("Channel", ch, "$inbox0") == ib0))]

    ls1 = LoopSpec(SR, 1, invariant=lambda L: links_loop(L), variant=lambda L: slen(inbox(L.h, L.inp("channel"))) + 1,
                   havoc_cells=lambda L: [("FS", FSR, f) for f in ("kind", "target")] + [("Channel", L.inp("channel"), "$inbox")], props=["C17"])
    ls1.invariant_assume = lambda L: [f for _, f in links_loop(L, gen=True)] + [links_apart(inbox(L.old, L.inp("channel")), L.destdir, 1)]
    w.add_loop(ls1)

    def queued_distinct(L):
        M = items(L.h, L.modifiedfiles)
        i, j = z3.Int("qd1"), z3.Int("qd2")
        return [z3.ForAll([i, j], z3.Implies(z3.And(i >= 0, i < j, j < slen(M)), mf_path(M[i]) != mf_path(M[j])), patterns=[z3.MultiPattern(M[i], M[j])])]
    return w


# ---------------------------------------------------------------------------------------------------------------------------------
# sender: RSync._send_directory_structure / _send_directory / _send_link_structure / _send_item / _broadcast / _send_link
# ---------------------------------------------------------------------------------------------------------------------------------
fm = z3.Function("fm", z3.BoolSort(), z3.IntSort(), z3.IntSort(), z3.IntSort(), U)          # file message (mode is None, mode, mtime, size)
dm = z3.Function("dm", z3.IntSort(), z3.SeqSort(z3.StringSort()), U)                        # directory message [mode, *names]
lk = z3.Function("lk", z3.StringSort(), z3.StringSort(), z3.StringSort(), U)                # link message (type, basename, linkpoint)
m_names = z3.Function("m_names", U, z3.SeqSort(z3.StringSort()))
MSG_NONE = z3.Const("MSG_NONE", U)
RP = z3.Function("relpath", z3.StringSort(), z3.StringSort(), z3.StringSort(), z3.StringSort())   # os.path.relpath(path, start) evaluated in working directory cwd


def ax_fm(t):
    return [m_tag(t) == T_FILE, m_mode_none(t) == t.arg(0), m_mode(t) == t.arg(1), m_mtime(t) == t.arg(2), m_size(t) == t.arg(3)]


def ax_dm(t):
    return [m_tag(t) == T_LIST, m_mode(t) == t.arg(0), m_names(t) == t.arg(1)]


def ax_lk(t):
    return [m_tag(t) == T_LINK, m_ltype(t) == t.arg(0), m_lrel(t) == t.arg(1), m_lpoint(t) == t.arg(2)]


def ax_none(t):
    return [m_tag(t) == T_NONE, m_data_none(t)]      # Python's None on the wire: the link placeholder and the "no content" answer are the same value


ax_fm.names, ax_dm.names, ax_lk.names, ax_none.names = ["fm"], ["dm"], ["lk"], ["MSG_NONE"]


def isabs(p):
    return z3.PrefixOf(SLASH, p)


def normalised(p):
    sv = z3.StringVal
    return z3.And(z3.Not(z3.Contains(p, sv("//"))), z3.Not(z3.Contains(p, sv("/./"))), z3.Not(z3.Contains(p, sv("/../"))),
                  z3.Not(z3.SuffixOf(sv("/"), p)), z3.Not(z3.SuffixOf(sv("/."), p)), z3.Not(z3.SuffixOf(sv("/.."), p)))


def ax_relpath(t):
    """os.path.relpath on POSIX for normalised paths (no '.', '..' or empty segments, no trailing '/'): assumed characterisation"""
    p, start, cwd = t.arg(0), t.arg(1), t.arg(2)
    inside = z3.PrefixOf(z3.Concat(start, SLASH), p)
    return [z3.Implies(z3.And(isabs(p), isabs(start), inside), t == z3.SubSeq(p, z3.Length(start) + 1, z3.Length(p) - z3.Length(start) - 1)),
            z3.Implies(z3.And(isabs(p), isabs(start), p == start), t == z3.StringVal(".")),
            z3.Implies(z3.And(isabs(p), isabs(start), z3.Not(inside), p != start), z3.Or(t == z3.StringVal(".."), z3.PrefixOf(z3.StringVal("../"), t))),
            z3.Implies(z3.And(z3.Not(isabs(p)), isabs(cwd), z3.Length(p) > 0), t == RP(z3.Concat(cwd, SLASH, p), start, cwd))]     # a relative path is taken from the working directory


ax_relpath.names = ["relpath"]


def strseq(sv):
    """a list local that the code starts as `[]`: typed by its first append, until then the empty list of strings"""
    if sv.ty == SEQ(STR):
        return sv.v
    if z3.is_app(sv.v) and sv.v.decl().kind() == z3.Z3_OP_SEQ_EMPTY:
        return z3.Empty(z3.SeqSort(z3.StringSort()))
    raise Unsupported("list of " + repr(sv.ty) + " where a list of str is expected")


def from_callback(a, h, h2, e):
    """an exception case that stands for "the user's callback raised": only exceptions that come out of the callback call are covered by it"""
    if not hasattr(e, "origin"):
        return []       # at a call site (the case is assumed, there is no exception value yet)
    return [z3.BoolVal("callback" in e.origin)]


def declare_sender(w):
    from pyvc import extract

    declare_fs(w)
    s = w.schema
    w.axiom_providers.extend([ax_fm, ax_dm, ax_lk, ax_relpath, ax_none])
    s.declare("FS", "cwd", STR, ghost=True)                     # the caller's working directory
    s.declare("RSync", "_sourcedir", STR)
    s.declare("RSync", "_links", SEQ(ANY))                      # entries lk(type, basename, linkpoint)
    s.declare("RSync", "_verbose", BOOL)
    s.declare("RSync", "$out", SEQ(ANY), ghost=True)            # what was broadcast to every target channel, in order
    s.declare("RSync", "$reported", SEQ(STR), ghost=True)       # _report_send_file calls (relative paths)
    s.declare("Channel", "$sent", SEQ(ANY), ghost=True)
    s.declare("Channel", "gateway", REF("BaseGateway"))
    out = lambda h, r: h("RSync", r, "$out")
    d2u = z3.Function("d2u", z3.BoolSort(), z3.StringSort(), U)   # a data answer: (is None, bytes)

    def ax_d2u(t):
        return [m_tag(t) == T_DATA, m_data_none(t) == t.arg(0), m_data(t) == t.arg(1)]

    ax_d2u.names = ["d2u"]
    w.axiom_providers.append(ax_d2u)

    def co(val, ty):
        if ty != ANY:
            return None
        k = val.ty.kind
        if k == "none":
            return SV(ANY, MSG_NONE)
        if k == "tuple" and len(val.v) == 3 and all(x.ty.kind == "str" for x in val.v):
            return SV(ANY, lk(*[x.v for x in val.v]))
        if k == "tuple" and len(val.v) == 3:
            mo = val.v[0]
            if mo.ty.kind == "none":
                mo = core.mk_opt_none(INT)
            mo = core.coerce(mo, OPT(INT))
            return SV(ANY, fm(mo.v[0], mo.v[1].v, core.coerce(val.v[1], INT).v, core.coerce(val.v[2], INT).v))
        if k == "opt" and val.ty.inner == BYTES:
            return SV(ANY, d2u(val.v[0], val.v[1].v))
        if k == "bytes":
            return SV(ANY, d2u(z3.BoolVal(False), val.v))
        return None

    co.__name__ = "co_rsync"
    core.COERCE_HOOKS[:] = [h for h in core.COERCE_HOOKS if getattr(h, "__name__", "") != "co_rsync"] + [co]

    def starred_list(ex, node, st, sink):
        # [mode, *names]: the directory message
        if len(node.elts) == 2 and isinstance(node.elts[1], ast.Starred):
            for s1, mode in ex.ev(node.elts[0], st, sink):
                for s2, names in ex.ev(node.elts[1].value, s1, sink):
                    nv = names.v if names.ty == SEQ(STR) else z3.Empty(z3.SeqSort(z3.StringSort())) if (z3.is_app(names.v) and names.v.decl().kind() == z3.Z3_OP_SEQ_EMPTY) else None
                    if nv is None:
                        raise Unsupported("[mode, *names] with names of " + repr(names.ty))
                    yield s2, SV(ANY, dm(core.coerce(mode, INT).v, nv))
            return
        raise Unsupported("starred list display")

    w.call_hooks[("display", "starred_list")] = starred_list
    w.externals.update({"os.curdir": mk_str("."), "os.pardir": mk_str(".."), "os.sep": mk_str("/"), "os.path.__name__": mk_str("posixpath")})

    def os_readlink(ex, args, kwargs, st, sink, node):
        p = core.coerce(args[0], STR).v
        for s2, ok in ex.fork(st, fsget(st.heap, "kind", p) == K_LINK):
            if ok:
                yield s2, SV(STR, fsget(s2.heap, "target", p))
            else:
                ex.raise_(s2, sink, "OSError", origin="os.readlink: not a link")

    def os_relpath(ex, args, kwargs, st, sink, node):
        p, start = (core.coerce(a, STR).v for a in args)
        cwd = st.heap.get(FSV, "cwd").v
        yield st, SV(STR, RP(p, start, cwd))      # never ValueError on POSIX (that is for different drives)

    def os_isabs(ex, args, kwargs, st, sink, node):
        yield st, mk_bool(isabs(core.coerce(args[0], STR).v))

    w.externals.update({"os.readlink": os_readlink, "os.path.relpath": os_relpath, "os.path.isabs": os_isabs})

    # ---- small methods ----------------------------------------------------------------------------------------------------------------
    w.add(Contract(f"{RSYNC}:RSync._broadcast", {"self": REF("RSync"), "msg": ANY}, modifies=lambda a, h: [("RSync", a.self, "$out")],
                   cases=[Case("ok", post=lambda a, h, h2, r: [out(h2, a.self) == z3.Concat(out(h, a.self), z3.Unit(a.msg))]), Case("closed", "raise", "OSError")], trusted=True,
                   note="sends msg on every target channel, in the order of the calls (C02)"))
    w.add(Contract(f"{RSYNC}:RSync._send_link", {"self": REF("RSync"), "linktype": STR, "basename": STR, "linkpoint": STR}, modifies=lambda a, h: [("RSync", a.self, "_links")],
                   cases=[Case("ok", post=lambda a, h, h2, r: [h2("RSync", a.self, "_links") == z3.Concat(h("RSync", a.self, "_links"), z3.Unit(lk(a.linktype, a.basename, a.linkpoint)))])], props=["C17"]))
    w.add(Contract(f"{RSYNC}:RSync.filter", {"self": REF("RSync"), "path": STR}, cases=[Case("ok", restype=BOOL)], trusted=True, note="user hook: any answer"))

    # ---- _send_link_structure ------------------------------------------------------------------------------------------------------------
    def sls_post(a, h, h2, r):
        sd = h("RSync", a.self, "_sourcedir")
        tgt = fsget(h, "target", a.path)
        base = z3.SubSeq(a.path, slen(sd) + 1, slen(a.path) - slen(sd) - 1)
        inside = z3.And(isabs(tgt), z3.PrefixOf(z3.Concat(sd, SLASH), tgt))
        L, L2 = h("RSync", a.self, "_links"), h2("RSync", a.self, "_links")
        # an absolute link into the source tree is re-based; every other link - relative ones in particular - is sent as it is:
        # the classification is a function of (linkpoint, sourcedir) only, never of the working directory
        want = z3.If(inside, lk(z3.StringVal("linkbase"), base, z3.SubSeq(tgt, slen(sd) + 1, slen(tgt) - slen(sd) - 1)), lk(z3.StringVal("link"), base, tgt))
        return [L2 == z3.Concat(L, z3.Unit(want)), out(h2, a.self) == z3.Concat(out(h, a.self), z3.Unit(MSG_NONE))]

    w.add(Contract(f"{RSYNC}:RSync._send_link_structure", {"self": REF("RSync"), "path": STR},
                   requires=lambda a, h: [("path-below-sourcedir", z3.PrefixOf(z3.Concat(h("RSync", a.self, "_sourcedir"), SLASH), a.path)),
                                          ("absolute-normalised-sourcedir-and-cwd", z3.And(isabs(h("RSync", a.self, "_sourcedir")), isabs(h("FS", FSR, "cwd")))),
                                          ("link-target-not-empty", slen(fsget(h, "target", a.path)) > 0),
                                          ("link-target-and-sourcedir-normalised", z3.And(normalised(fsget(h, "target", a.path)), normalised(h("RSync", a.self, "_sourcedir"))))],
                   modifies=lambda a, h: [("RSync", a.self, "_links"), ("RSync", a.self, "$out")],
                   cases=[Case("ok", post=sls_post), Case("not-a-link", "raise", "OSError", when=lambda a, h: fsget(h, "kind", a.path) != K_LINK), Case("closed", "raise", "OSError")], props=["C17"]))

    # ---- _send_directory_structure: what is broadcast for one path --------------------------------------------------------------------------------
    SDS, SD = f"{RSYNC}:RSync._send_directory_structure", f"{RSYNC}:RSync._send_directory"

    def st_mode(h, p):
        return fmt_of(fsget(h, "kind", p)) * 4096 + fsget(h, "perm", p)

    def sds_post(a, h, h2, r):
        k = fsget(h, "kind", a.path)
        O, O2 = out(h, a.self), out(h2, a.self)
        first = O2[slen(O)]
        return [z3.PrefixOf(O, O2), slen(O2) > slen(O),
                z3.Implies(k == K_ABSENT, z3.And(slen(O2) == slen(O) + 1, m_tag(first) == T_FILE, m_mode_none(first), m_mtime(first) == 0, m_size(first) == 0)),   # vanished: (None, 0, 0)
                z3.Implies(k == K_FILE, z3.And(slen(O2) == slen(O) + 1, m_tag(first) == T_FILE, z3.Not(m_mode_none(first)), m_mode(first) == st_mode(h, a.path),
                                               m_mtime(first) == fsget(h, "mtime", a.path), m_size(first) == slen(fsget(h, "content", a.path)))),   # file: its mode, mtime and size
                z3.Implies(k == K_DIR, z3.And(m_tag(first) == T_LIST, m_mode(first) == st_mode(h, a.path))),                    # directory: the list message first
                z3.Implies(k == K_LINK, z3.And(O2 == z3.Concat(O, z3.Unit(MSG_NONE)), slen(h2("RSync", a.self, "_links")) == slen(h("RSync", a.self, "_links")) + 1)),
                z3.PrefixOf(h("RSync", a.self, "_links"), h2("RSync", a.self, "_links"))]

    sender_req = lambda a, h: [("path-below-sourcedir", z3.PrefixOf(z3.Concat(h("RSync", a.self, "_sourcedir"), SLASH), a.path)),
                               ("absolute-normalised-sourcedir-and-cwd", z3.And(isabs(h("RSync", a.self, "_sourcedir")), isabs(h("FS", FSR, "cwd")), normalised(h("RSync", a.self, "_sourcedir")))),
                               ("link-targets-normalised", links_normalised(h))]

    def links_normalised(h):
        q = z3.String("q_ln")
        return z3.ForAll([q], z3.Implies(fsget(h, "kind", q) == K_LINK, z3.And(normalised(fsget(h, "target", q)), slen(fsget(h, "target", q)) > 0)), patterns=[fsget(h, "target", q)])

    w.contracts[f"{RSYNC}:RSync._send_link_structure"].requires = lambda a, h: sender_req(a, h)
    SMOD = lambda a, h: [("RSync", a.self, "_links"), ("RSync", a.self, "$out")]

    def at_or_below(a, h):
        # the walk starts at the source directory itself (which is not a symlink: a link's name relative to the source directory would be empty) and goes down
        sd = h("RSync", a.self, "_sourcedir")
        return [("path-is-the-source-directory-or-below-it", z3.Or(z3.And(a.path == sd, fsget(h, "kind", a.path) != K_LINK), z3.PrefixOf(z3.Concat(sd, SLASH), a.path)))] + sender_req(a, h)[1:]

    w.add(Contract(SDS, {"self": REF("RSync"), "path": STR}, requires=at_or_below, modifies=SMOD,
                   cases=[Case("ok", post=sds_post), Case("closed", "raise", "OSError"), Case("special-file", "raise", "ValueError")], props=["C17"], allocates=True))

    def sd_post(a, h, h2, r):
        O, O2 = out(h, a.self), out(h2, a.self)
        first = O2[slen(O)]
        names = m_names(first)
        i = z3.Int("SDI")
        return [z3.PrefixOf(O, O2), slen(O2) > slen(O), m_tag(first) == T_LIST, m_mode(first) == st_mode(h, a.path),
                # every listed name is an entry of the directory (those the filter let through, in listdir order)
                z3.Implies(z3.And(i >= 0, i < slen(names)), fsget(h, "kind", z3.Concat(a.path, SLASH, names[i])) != K_ABSENT),
                z3.PrefixOf(h("RSync", a.self, "_links"), h2("RSync", a.self, "_links"))]

    w.add(Contract(SD, {"self": REF("RSync"), "path": STR}, requires=lambda a, h: at_or_below(a, h) + [("a-directory", fsget(h, "kind", a.path) == K_DIR)], modifies=SMOD,
                   cases=[Case("ok", post=sd_post), Case("closed-or-vanished", "raise", "OSError"), Case("special-file", "raise", "ValueError")], props=["C17"], allocates=True))

    def sd_loop0(L):
        h = L.h
        p = L.inp("path")
        names, subs = strseq(L.sv("names")), strseq(L.sv("subpaths"))
        i = z3.Int("SDI")
        return [("subpaths-are-the-names-joined", z3.And(slen(names) == slen(subs), z3.Implies(z3.And(i >= 0, i < slen(names)), z3.And(subs[i] == z3.Concat(p, SLASH, names[i]),
                                                                                                                                     fsget(h, "kind", subs[i]) != K_ABSENT)))),
                ("nothing-sent-yet", z3.And(out(h, L.self) == out(L.old, L.self), h("RSync", L.self, "_links") == L.old("RSync", L.self, "_links"))),
                ("params", z3.And(L.self == L.inp("self"), L.path == p))]

    def sd_loop0_all(L):
        names, subs = strseq(L.sv("names")), strseq(L.sv("subpaths"))
        p = L.inp("path")
        i = z3.Int("q_sd")
        return [z3.ForAll([i], z3.Implies(z3.And(i >= 0, i < slen(names)), z3.And(subs[i] == z3.Concat(p, SLASH, names[i]), fsget(L.h, "kind", subs[i]) != K_ABSENT)), patterns=[subs[i], names[i]])]

    l0 = LoopSpec(SD, 0, invariant=sd_loop0, props=["C17"])
    l0.invariant_assume = lambda L: [f for _, f in sd_loop0(L)] + sd_loop0_all(L)
    w.add_loop(l0)

    def sd_loop1(L):
        h, pre = L.h, L.pre
        O0 = out(L.old, L.self)
        return [("list-message-stays-first", z3.And(z3.PrefixOf(out(pre, L.self), out(h, L.self)), slen(out(pre, L.self)) == slen(O0) + 1, z3.PrefixOf(O0, out(pre, L.self)))),
                ("links-only-grow", z3.PrefixOf(L.old("RSync", L.self, "_links"), h("RSync", L.self, "_links"))),
                ("params", z3.And(L.self == L.inp("self"), L.path == L.inp("path")))]

    l1 = LoopSpec(SD, 1, invariant=sd_loop1, havoc_cells=lambda L: [("RSync", L.inp("self"), "_links"), ("RSync", L.inp("self"), "$out")], props=["C17"])
    l1.invariant_assume = lambda L: [f for _, f in sd_loop1(L)] + sd_loop0_all(L)
    w.add_loop(l1)

    # ---- _send_item: the answer to a ("send", (components, checksum)) request -------------------------------------------------------------------------
    joinrel = z3.Function("joinrel", z3.SeqSort(z3.StringSort()), z3.StringSort())     # "/".join(components)
    s.declare("RSync", "_paths", MAP(STR, INT))
    s.declare("RSync", "_to_send", MAP(REF("Channel"), SEQ(STR)))

    def star_call(ex, node, st, sink):
        # os.path.join(self._sourcedir, *components)
        if ast.unparse(node.func) == "os.path.join" and len(node.args) == 2 and isinstance(node.args[1], ast.Starred):
            for s1, base in ex.ev(node.args[0], st, sink):
                for s2, comps in ex.ev(node.args[1].value, s1, sink):
                    yield s2, SV(STR, joinall(core.coerce(base, STR).v, core.coerce(comps, SEQ(STR)).v))
            return
        raise Unsupported(f"*args call at line {node.lineno}")

    w.call_hooks[("call", "star")] = star_call

    def str_join(ex, recv, args, st, sink):
        sep = z3.simplify(recv.v)
        if not (z3.is_string_value(sep) and sep.as_string() == "/"):
            raise Unsupported("str.join with a separator other than '/'")
        yield st, SV(STR, joinrel(core.coerce(args[0], SEQ(STR)).v))

    w.externals["bytes.join"] = str_join
    w.add(Contract(f"{RSYNC}:RSync._report_send_file", {"self": REF("RSync"), "gateway": REF("BaseGateway"), "modified_rel_path": STR}, modifies=lambda a, h: [("RSync", a.self, "$reported")],
                   cases=[Case("ok", post=lambda a, h, h2, r: [h2("RSync", a.self, "$reported") == z3.Concat(h("RSync", a.self, "$reported"), z3.Unit(a.modified_rel_path))])], trusted=True,
                   note="prints one line when verbose; recorded as the observation point of 'content was transferred'"))
    w.add(Contract(f"{GB_}:Channel.send", {"self": REF("Channel"), "item": ANY}, modifies=lambda a, h: [("Channel", a.self, "$sent")],
                   cases=[Case("ok", post=lambda a, h, h2, r: [h2("Channel", a.self, "$sent") == z3.Concat(h("Channel", a.self, "$sent"), z3.Unit(a.item))]), Case("closed", "raise", "OSError")],
                   trusted=True, note="C01/C02"))

    def si_post(a, h, h2, r):
        sd = h("RSync", a.self, "_sourcedir")
        p = joinall(sd, a.modified_rel_path_components)
        rel = joinrel(a.modified_rel_path_components)
        content = fsget(h, "content", p)
        S, S2 = h("Channel", a.channel, "$sent"), h2("Channel", a.channel, "$sent")
        u = S2[slen(S)]
        ck = a.sv("checksum")
        same = z3.And(z3.Not(ck.v[0]), ck.v[1].v == md5(content))
        R, R2 = h("RSync", a.self, "$reported"), h2("RSync", a.self, "$reported")
        return [slen(S2) == slen(S) + 1,                                                                     # exactly one answer
                z3.Or(m_data_none(u), z3.And(fsget(h, "kind", p) == K_FILE, m_data(u) == content)),          # content, when sent, is the source file's
                z3.Implies(z3.And(fsget(h, "kind", p) == K_FILE, same), m_data_none(u)),                    # equal checksum: no content is transferred
                z3.If(m_data_none(u), R2 == R, R2 == z3.Concat(R, z3.Unit(rel)))] + bookkeeping(a, h, h2, rel)    # reported exactly when content is sent

    def bookkeeping(a, h, h2, rel):
        """progress bookkeeping: the path gets a size, and is appended to what this target asked for (nothing else changes) - _list_done relies on both"""
        P, P2 = h.sv("RSync", a.self, "_paths"), h2.sv("RSync", a.self, "_paths")
        T, T2 = h.sv("RSync", a.self, "_to_send"), h2.sv("RSync", a.self, "_to_send")
        before = z3.If(z3.Select(T.v[0], a.channel), z3.Select(T.v[1][0], a.channel), z3.Empty(z3.SeqSort(z3.StringSort())))
        return [P2.v[0] == z3.Store(P.v[0], rel, True), T2.v[0] == z3.Store(T.v[0], a.channel, True),
                T2.v[1][0] == z3.Store(T.v[1][0], a.channel, z3.Concat(before, z3.Unit(rel)))]

    def sizes_known_for(a, h):
        j = z3.Int("q_sk")
        T, P = h.sv("RSync", a.self, "_to_send"), h.sv("RSync", a.self, "_paths")
        lst = z3.Select(T.v[1][0], a.channel)
        return z3.Implies(z3.Select(T.v[0], a.channel), z3.ForAll([j], z3.Implies(z3.And(j >= 0, j < slen(lst)), z3.Select(P.v[0], lst[j])), patterns=[lst[j]]))

    w.add(Contract(f"{RSYNC}:RSync._send_item", {"self": REF("RSync"), "channel": REF("Channel"), "modified_rel_path_components": SEQ(STR), "checksum": OPT(BYTES)},
                   requires=lambda a, h: [("channel", a.channel != 0)],
                   modifies=lambda a, h: [("RSync", a.self, "_paths"), ("RSync", a.self, "_to_send"), ("RSync", a.self, "$reported"), ("Channel", a.channel, "$sent")],
                   cases=[Case("ok", post=si_post), Case("closed", "raise", "OSError")], props=["C17"], allocates=True))

    # ---- _process_link: all link messages, then the completion marker 42 ------------------------------------------------------------------------------
    PL = f"{RSYNC}:RSync._process_link"
    sent = lambda h, c: h("Channel", c, "$sent")

    w.add(Contract(PL, {"self": REF("RSync"), "channel": REF("Channel")}, requires=lambda a, h: [("channel", a.channel != 0)], modifies=lambda a, h: [("Channel", a.channel, "$sent")],
                   cases=[Case("ok", post=lambda a, h, h2, r: [sent(h2, a.channel) == z3.Concat(sent(h, a.channel), h("RSync", a.self, "_links"), z3.Unit(core.int2u(z3.IntVal(42))))]),
                          Case("closed", "raise", "OSError")], props=["C17"]))
    # ---- _done / _end_of_channel: one target has finished; what the OTHER targets still need (the collected links, the source directory) is left alone ----
    s.declare("RSync", "_channels", MAP(REF("Channel"), ANY))       # target channel -> finished callback (or None)
    s.declare("RSync", "$finished_calls", SEQ(ANY), ghost=True)     # finished callbacks invoked, in order
    fcalls = lambda h, r: h("RSync", r, "$finished_calls")
    chans = lambda h, r: h.sv("RSync", r, "_channels")
    w.add(Contract(f"{GB_}:Channel.waitclose", {"self": REF("Channel"), "timeout": OPT(INT)}, defaults={"timeout": None},
                   cases=[Case("closed"), Case("remote-error", "raise", "RemoteError"), Case("connection-lost", "raise", "EOFError"), Case("timeout", "raise", "OSError")], trusted=True, note="C03"))

    def finished_callback(ex, callee, args, kwargs, st, sink, node):
        """the user's finishedcallback(): opaque; recorded in the ghost history; may raise any Exception; holds no reference to the RSync object's private state"""
        me = st.locals.get("self")
        if me is None or me.ty != REF("RSync") or args or kwargs:
            raise Unsupported("call of an opaque value")
        ex.set_field(st, me, "$finished_calls", SV(SEQ(ANY), z3.Concat(st.heap.get(me, "$finished_calls").v, z3.Unit(callee.v))))
        s2 = st.fork()
        e = core.ExcV("Exception", (), None, origin="finished callback")
        e.exact = False
        sink.append((s2, ("raise", e)))
        yield st, core.NONEV

    w.call_hooks[("call", "any")] = finished_callback

    def done_post(a, h, h2, r):
        present, vals = chans(h, a.self).v[0], chans(h, a.self).v[1][0]
        cb = z3.Select(vals, a.channel)
        return [chans(h2, a.self).v[0] == z3.Store(present, a.channel, False),                                             # this target is no longer waited for; the others still are
                fcalls(h2, a.self) == z3.If(symexec_truthy(cb), z3.Concat(fcalls(h, a.self), z3.Unit(cb)), fcalls(h, a.self))]   # its callback (if any) was called once

    from pyvc.symexec import truthy_any as symexec_truthy
    DMOD = lambda a, h: [("RSync", a.self, "_channels"), ("RSync", a.self, "$finished_calls")]     # NOT _links, _sourcedir, _paths, _to_send: later targets replay them
    w.add(Contract(f"{RSYNC}:RSync._done", {"self": REF("RSync"), "channel": REF("Channel")},
                   requires=lambda a, h: [("channel", a.channel != 0)], modifies=DMOD,
                   cases=[Case("ok", when=lambda a, h: z3.Select(chans(h, a.self).v[0], a.channel), post=done_post),
                          Case("not-a-target", "raise", "KeyError", when=lambda a, h: z3.Not(z3.Select(chans(h, a.self).v[0], a.channel)),
                               post=lambda a, h, h2, e: [core.eq_sv(chans(h2, a.self), chans(h, a.self))]),
                          Case("callback-raises", "raise", "Exception", post=from_callback), Case("remote-error", "raise", "RemoteError"), Case("connection-lost", "raise", "EOFError"), Case("timeout", "raise", "OSError")],
                   props=["C17"]))
    w.add(Contract(f"{RSYNC}:RSync._end_of_channel", {"self": REF("RSync"), "channel": REF("Channel")}, requires=lambda a, h: [("channel", a.channel != 0)],
                   cases=[Case("already-done", when=lambda a, h: z3.Not(z3.Select(chans(h, a.self).v[0], a.channel))),      # the end marker of a finished target: nothing to do
                          Case("too-early", "raise", "OSError", when=lambda a, h: z3.Select(chans(h, a.self).v[0], a.channel)),   # a target that ends before it is done is an error, never a silent success
                          Case("remote-error", "raise", "RemoteError", when=lambda a, h: z3.Select(chans(h, a.self).v[0], a.channel)),
                          Case("connection-lost", "raise", "EOFError", when=lambda a, h: z3.Select(chans(h, a.self).v[0], a.channel))],
                   props=["C17"]))
    # ---- _list_done: the progress callback gets the total size of what this target asked for; a target that asked for nothing is not an error -------------
    s.declare("RSync", "_callback", ANY)
    s.declare("RSync", "$progress", SEQ(ANY), ghost=True)
    LD = f"{RSYNC}:RSync._list_done"

    def asked(h, me, ch):
        ts = h.sv("RSync", me, "_to_send")
        return z3.If(z3.Select(ts.v[0], ch), z3.Select(ts.v[1][0], ch), z3.Empty(z3.SeqSort(z3.StringSort())))

    def sizes_known(a, h):
        j = z3.Int("q_ld")
        ts = h.sv("RSync", a.self, "_to_send")
        paths = z3.Select(ts.v[1][0], a.channel)
        return z3.Implies(z3.Select(ts.v[0], a.channel),
                          z3.ForAll([j], z3.Implies(z3.And(j >= 0, j < slen(paths)), z3.Select(h.sv("RSync", a.self, "_paths").v[0], paths[j])), patterns=[paths[j]]))

    w.add(Contract(LD, {"self": REF("RSync"), "channel": REF("Channel")},
                   requires=lambda a, h: [("channel", a.channel != 0)],
                   modifies=lambda a, h: [("RSync", a.self, "$progress")],
                   cases=[Case("ok", post=lambda a, h, h2, r: [z3.If(symexec_truthy(h("RSync", a.self, "_callback")), slen(h2("RSync", a.self, "$progress")) == slen(h("RSync", a.self, "$progress")) + 1,
                                                                     h2("RSync", a.self, "$progress") == h("RSync", a.self, "$progress"))]),
                          Case("callback-raises", "raise", "Exception", post=from_callback),
                          # only a requested path without a recorded size may be a KeyError (_send_item records both together; that bookkeeping invariant of send()'s loop is
                          # not mechanised) - in particular NOT a target that requested no file
                          Case("size-not-recorded", "raise", "KeyError", when=lambda a, h: z3.Not(sizes_known(a, h)))], props=["C17"]))
    ld = LoopSpec(LD, "comp0", invariant=lambda L: [("params", z3.And(L.self == L.inp("self"), L.channel == L.inp("channel")))], props=["C17"])
    ld.elem = INT
    w.add_loop(ld)

    prev_cb = w.call_hooks[("call", "any")]

    def progress_callback(ex, callee, args, kwargs, st, sink, node):
        me = st.locals.get("self")
        if me is not None and me.ty == REF("RSync") and len(args) == 3 and not kwargs:
            ex.set_field(st, me, "$progress", SV(SEQ(ANY), z3.Concat(st.heap.get(me, "$progress").v, z3.Unit(callee.v))))
            s2 = st.fork()
            e = core.ExcV("Exception", (), None, origin="progress callback")
            e.exact = False
            sink.append((s2, ("raise", e)))
            yield st, core.NONEV
            return
        yield from prev_cb(ex, callee, args, kwargs, st, sink, node)

    w.call_hooks[("call", "any")] = progress_callback
    w.add_loop(LoopSpec(PL, 0, invariant=lambda L: [("links-sent-so-far-in-order", sent(L.h, L.inp("channel")) == z3.Concat(sent(L.old, L.inp("channel")), z3.SubSeq(L.old("RSync", L.inp("self"), "_links"), 0, L.k))),
                                                     ("params", z3.And(L.channel == L.inp("channel"), L.self == L.inp("self")))],
                        havoc_cells=lambda L: [("Channel", L.inp("channel"), "$sent")], props=["C17"]))
    return w


# ---------------------------------------------------------------------------------------------------------------------------------
# the recursive walk of receive_directory_structure, all three message kinds (directory branch included)
# ---------------------------------------------------------------------------------------------------------------------------------
def _subterms(t):
    seen, todo = [], [t]
    while todo:
        x = todo.pop()
        seen.append(x)
        if z3.is_app(x):
            todo.extend(x.children())
    return seen


def ax_names(t):
    """directory messages carry distinct entry names without '/' (what RSync._send_directory sends: names from os.listdir)"""
    i, j = z3.Int("an_i"), z3.Int("an_j")
    if any(z3.is_var(x) for x in _subterms(t)):
        return []     # a term from inside a quantifier body: nothing to instantiate
    try:
        return [z3.ForAll([i], z3.Implies(z3.And(i >= 0, i < z3.Length(t)), simple(t[i])), patterns=[t[i]]),
                z3.ForAll([i, j], z3.Implies(z3.And(i >= 0, i < j, j < z3.Length(t)), t[i] != t[j]), patterns=[z3.MultiPattern(t[i], t[j])])]
    except z3.Z3Exception:
        # the term contains an if-then-else (a simplified seq.nth): not admissible inside a pattern; let the solver pick triggers
        return [z3.ForAll([i], z3.Implies(z3.And(i >= 0, i < z3.Length(t)), simple(t[i]))),
                z3.ForAll([i, j], z3.Implies(z3.And(i >= 0, i < j, j < z3.Length(t)), t[i] != t[j]))]


ax_names.names = ["m_names"]
W1, W2, WC = z3.Int("W1"), z3.Int("W2"), z3.Int("WC")
SN = z3.String("SN")      # an arbitrary but fixed entry name


def child(p, n):
    return z3.Concat(p, SLASH, n)


seg = z3.Function("seg", z3.StringSort(), z3.StringSort(), z3.StringSort())     # seg(P, x): the first path segment of x after the prefix P + "/"


def _parts(t):
    """flatten a concatenation into its parts"""
    if z3.is_app(t) and t.decl().kind() == z3.Z3_OP_SEQ_CONCAT:
        out = []
        for ch in t.children():
            out.extend(_parts(ch))
        return out
    return [t]


def _is_slash(t):
    return z3.is_string_value(t) and t.as_string() == "/"


def _cat(parts):
    return parts[0] if len(parts) == 1 else z3.Concat(*parts)


def ax_seg_child(t):
    """t = P + "/" + a : the first segment of t after P/ is a, for an entry name a (true of seg's definition; differentially checked)"""
    ps = _parts(t)
    if len(ps) >= 3 and _is_slash(ps[-2]) and not _is_slash(ps[-1]):
        return [z3.Implies(simple(ps[-1]), seg(_cat(ps[:-2]), t) == ps[-1])]
    return []


def ax_seg_prefix(t):
    """t = PrefixOf(P + "/" + a + "/", x): then the first segment of x after P/ is a"""
    ps = _parts(t.arg(0))
    if len(ps) >= 4 and _is_slash(ps[-1]) and _is_slash(ps[-3]) and not _is_slash(ps[-2]):
        return [z3.Implies(z3.And(simple(ps[-2]), t), seg(_cat(ps[:-3]), t.arg(1)) == ps[-2])]
    return []


ax_seg_child.names, ax_seg_prefix.names = ["str.++"], ["str.prefixof"]


def walk_post_full(a, h, h2, r, gen=False):
    items = lambda hh: hh("ModList", a.modifiedfiles, "items")
    I, I2 = items(h), items(h2)
    ib, ib2 = inbox(h, a.channel), inbox(h2, a.channel)
    u = ib[0]
    P = a.path
    i, j = (z3.Int("qw1"), z3.Int("qw2")) if gen else (W1, W2)
    q = z3.String("qw_q") if gen else QP
    new = lambda x: z3.And(x >= slen(I), x < slen(I2))
    distinct = z3.Implies(z3.And(new(i), new(j), i < j), mf_path(I2[i]) != mf_path(I2[j]))
    one = z3.Implies(new(i), z3.And(under(P, mf_path(I2[i])), z3.Or(fsget(h2, "kind", mf_path(I2[i])) == K_FILE, fsget(h2, "kind", mf_path(I2[i])) == K_ABSENT)))
    frame = z3.Implies(z3.Not(under(P, q)), z3.And(fsget(h2, "kind", q) == fsget(h, "kind", q), fsget(h2, "perm", q) == fsget(h, "perm", q)))
    if gen:
        distinct = z3.ForAll([i, j], distinct, patterns=[z3.MultiPattern(I2[i], I2[j])])
        one = z3.ForAll([i], one, patterns=[I2[i]])
        frame = z3.ForAll([q], frame, patterns=[fsget(h2, "kind", q), fsget(h2, "perm", q)])
    isdir = m_tag(u) == T_LIST
    delete = h("Options", a.options, "delete")
    return [z3.PrefixOf(I, I2), z3.SuffixOf(ib2, ib), slen(ib2) < slen(ib), distinct, one, frame,
            arr(h2, "content") == arr(h, "content"), arr(h2, "mtime") == arr(h, "mtime"), arr(h2, "target") == arr(h, "target"),
            # a directory message: a directory stands at path afterwards, owner-writable with the source's other bits
            z3.Implies(isdir, fsget(h2, "kind", P) == K_DIR),
            z3.Implies(z3.And(isdir, m_mode(u) != 0), fsget(h2, "perm", P) == perm_of(or700(m_mode(u)))),
            # delete: no entry of the directory other than the listed names is left; without delete: entries with unlisted names are not touched
            z3.Implies(z3.And(isdir, delete, simple(SN), z3.Not(z3.Contains(m_names(u), z3.Unit(SN)))), fsget(h2, "kind", child(P, SN)) == K_ABSENT),
            z3.Implies(z3.And(isdir, z3.Not(delete), fsget(h, "kind", P) == K_DIR, simple(SN), z3.Not(z3.Contains(m_names(u), z3.Unit(SN))), under(child(P, SN), QP)),
                       fsget(h2, "kind", QP) == fsget(h, "kind", QP))]


def declare_walk(w):
    declare_serve_rsync(w)
    w.axiom_providers.extend([ax_names, ax_seg_child, ax_seg_prefix])
    old = w.contracts[f"{RDS}#walk"]
    c = Contract(RDS, old.params, requires=old.requires, modifies=old.modifies,
                 cases=[Case("ok", post=walk_post_full, post_assume=lambda a, h, h2, r: walk_post_full(a, h, h2, r, gen=True)), Case("connection-lost", "raise", "EOFError"), Case("cannot", "raise", "OSError"),
                        Case("outside", "raise", "AssertionError")], props=["C17"], allocates=True)
    c.variant_name = "walk"
    c.split_post = True
    c.closure = dict(old.closure)
    w.contracts[f"{RDS}#walk"] = c
    w.variants[RDS] = [w.contracts[f"{RDS}#entry"], c]
    from pyvc import extract
    mod = extract.load(RSYNCR)
    c.closure["receive_directory_structure"] = SV(FUNCT, FuncD(mod, "serve_rsync.receive_directory_structure", closure=c.closure))
    return w


def declare_walk_loops(w):
    declare_walk(w)

    def ctx(L):
        a = Args(L.ex.inputs)
        N = L.h("DirMsg", L.msg, "names")
        return a, a.path, N

    def names_loop(L, gen=False):
        a, P, N = ctx(L)
        h, pre, old = L.h, L.pre, L.old
        items = lambda hh: hh("ModList", a.modifiedfiles, "items")
        I0, I = items(old), items(h)
        i, j = (z3.Int("qn1"), z3.Int("qn2")) if gen else (W1, W2)
        m = z3.Int("qn_m") if gen else WC
        q = z3.String("qn_q") if gen else QP
        sn = z3.String("qn_s") if gen else SN
        new = lambda x: z3.And(x >= slen(I0), x < slen(I))
        k = L.k
        fa = (lambda vs, f, pats: z3.ForAll(vs, f, patterns=pats)) if gen else (lambda vs, f, pats: f)
        en = L.sv("entrynames")
        present = lambda s_: z3.Select(en.v[0], s_)
        pj = mf_path(I[i])
        return [("items-only-grow", z3.PrefixOf(I0, I)),
                ("inbox-shrinks", z3.And(z3.SuffixOf(inbox(h, a.channel), inbox(old, a.channel)), slen(inbox(h, a.channel)) < slen(inbox(old, a.channel)))),
                ("queued-below-a-child-done", fa([i], z3.Implies(new(i), z3.And(under(P, pj), pj != P, z3.Or(fsget(h, "kind", pj) == K_FILE, fsget(h, "kind", pj) == K_ABSENT))), [I[i]])),
                ("queued-not-below-a-child-to-come", fa([i, m], z3.Implies(z3.And(new(i), m >= k, m < slen(N)), z3.Not(under(child(P, N[m]), pj))), [z3.MultiPattern(I[i], N[m])])),
                ("queued-paths-distinct", fa([i, j], z3.Implies(z3.And(new(i), new(j), i < j), mf_path(I[i]) != mf_path(I[j])), [z3.MultiPattern(I[i], I[j])])),
                ("outside-untouched", fa([q], z3.Implies(z3.Not(under(P, q)), z3.And(fsget(h, "kind", q) == fsget(old, "kind", q), fsget(h, "perm", q) == fsget(old, "perm", q))), [fsget(h, "kind", q), fsget(h, "perm", q)])),
                ("the-directory-itself-stays", z3.And(fsget(h, "kind", P) == K_DIR, fsget(h, "perm", P) == fsget(pre, "perm", P))),
                ("contents-times-targets-untouched", z3.And(arr(h, "content") == arr(old, "content"), arr(h, "mtime") == arr(old, "mtime"), arr(h, "target") == arr(old, "target"))),
                ("entrynames-are-the-names-so-far", fa([sn], present(sn) == z3.Contains(z3.SubSeq(N, 0, k), z3.Unit(sn)), [present(sn)])),
                ("unlisted-entries-untouched", fa([q, sn], z3.Implies(z3.And(simple(sn), z3.Not(z3.Contains(N, z3.Unit(sn))), under(child(P, sn), q)), fsget(h, "kind", q) == fsget(pre, "kind", q)),
                                                  [z3.MultiPattern(fsget(h, "kind", q), z3.Contains(N, z3.Unit(sn)))])),
                ("params", z3.And(L.path == P, L.relcomponents == a.relcomponents, L.msg != 0, h("DirMsg", L.msg, "popped"), N == m_names(inbox(old, a.channel)[0]),
                                  m_tag(inbox(old, a.channel)[0]) == T_LIST, L.mode == m_mode(inbox(old, a.channel)[0])))]

    l0 = LoopSpec(RDS, 0, invariant=lambda L: names_loop(L),
                  havoc_cells=lambda L: [("FS", FSR, "kind"), ("FS", FSR, "perm"), ("Channel", Args(L.ex.inputs).channel, "$inbox"), ("Channel", Args(L.ex.inputs).channel, "$requested"),
                                         ("Channel", Args(L.ex.inputs).channel, "$checksum"), ("ModList", Args(L.ex.inputs).modifiedfiles, "items")],
                  props=["C17"])
    l0.invariant_assume = lambda L: [f for _, f in names_loop(L, gen=True)]
    w.add_loop(l0)

    def delete_loop(L, gen=False):
        a, P, N = ctx(L)
        h, pre, old = L.h, L.pre, L.old
        items = lambda hh: hh("ModList", a.modifiedfiles, "items")
        O = L.iterable.v                      # os.listdir(path) as it was when the loop started
        j = z3.Int("qd_j") if gen else W1
        c = z3.Int("qd_c") if gen else WC
        q = z3.String("qd_q") if gen else QP
        fa = (lambda vs, f, pats: z3.ForAll(vs, f, patterns=pats)) if gen else (lambda vs, f, pats: f)
        en = L.sv("entrynames")
        present = lambda s_: z3.Select(en.v[0], s_)
        return [("unlisted-entries-so-far-are-gone", fa([j], z3.Implies(z3.And(j >= 0, j < L.k, z3.Not(present(O[j]))), fsget(h, "kind", child(P, O[j])) == K_ABSENT), [O[j]])),
                ("entries-only-vanish", fa([q], z3.Or(fsget(h, "kind", q) == fsget(pre, "kind", q), fsget(h, "kind", q) == K_ABSENT), [fsget(h, "kind", q)])),
                ("listed-children-and-the-outside-untouched", fa([q, c], z3.Implies(z3.Or(z3.Not(under(P, q)), q == P, z3.And(c >= 0, c < slen(N), under(child(P, N[c]), q))),
                                                                                        fsget(h, "kind", q) == fsget(pre, "kind", q)), [z3.MultiPattern(fsget(h, "kind", q), N[c])])),
                ("only-kinds-change", z3.And(arr(h, "perm") == arr(pre, "perm"), items(h) == items(pre), inbox(h, a.channel) == inbox(pre, a.channel))),
                ("params", z3.And(L.path == P, L.msg != 0, N == m_names(inbox(old, a.channel)[0])))]

    l1 = LoopSpec(RDS, 1, invariant=lambda L: delete_loop(L), havoc_cells=lambda L: [("FS", FSR, "kind")], props=["C17"])
    l1.invariant_assume = lambda L: [f for _, f in delete_loop(L, gen=True)]
    w.add_loop(l1)
    return w


# ---------------------------------------------------------------------------------------------------------------------------------
# RSync.send: normalisation of the source directory, the structure broadcast, then the dispatch loop over the targets' requests
# ---------------------------------------------------------------------------------------------------------------------------------
r_tag = z3.Function("r_tag", U, z3.StringSort())           # req[0]
r_arg = z3.Function("r_arg", U, U)                          # req[1]
a_comps = z3.Function("a_comps", U, z3.SeqSort(z3.StringSort()))   # ("send", (components, checksum)): req[1][0]
a_ck_none = z3.Function("a_ck_none", U, z3.BoolSort())      # req[1][1] is None
a_ck = z3.Function("a_ck", U, z3.StringSort())              # req[1][1]
a_str = z3.Function("a_str", U, z3.StringSort())            # ("ack", path): req[1] as a str
H_EOC, H_LINKS, H_DONE, H_LISTDONE, H_ITEM, H_NONE = 1, 2, 3, 4, 5, 0
hev = z3.Function("hev", z3.IntSort(), z3.IntSort(), U, U)  # a handler invocation: (which handler, channel, payload)
mkitem = z3.Function("mkitem", z3.SeqSort(z3.StringSort()), z3.BoolSort(), z3.StringSort(), U)
NOPAY = z3.Const("NOPAY", U)
served = z3.Function("served", z3.SeqSort(z3.IntSort()), z3.SeqSort(U), z3.IntSort(), z3.IntSort(), z3.SeqSort(U))   # handler invocations owed to queue entries lo..hi-1


def req_code(r):
    return z3.If(r == core.NONE_U, H_EOC, z3.If(r_tag(r) == z3.StringVal("links"), H_LINKS, z3.If(r_tag(r) == z3.StringVal("done"), H_DONE,
           z3.If(r_tag(r) == z3.StringVal("list_done"), H_LISTDONE, z3.If(r_tag(r) == z3.StringVal("send"), H_ITEM, H_NONE)))))


def entry_of(c, r):
    return z3.If(req_code(r) == H_ITEM, hev(z3.IntVal(H_ITEM), c, mkitem(a_comps(r_arg(r)), a_ck_none(r_arg(r)), a_ck(r_arg(r)))), hev(req_code(r), c, NOPAY))


def ax_served(t):
    qc, qr, lo, hi = t.arg(0), t.arg(1), t.arg(2), t.arg(3)
    prev = served(qc, qr, lo, hi - 1)
    return [z3.Implies(hi <= lo, t == z3.Empty(z3.SeqSort(U))),
            z3.Implies(hi > lo, t == z3.If(req_code(qr[hi - 1]) == H_NONE, prev, z3.Concat(prev, z3.Unit(entry_of(qc[hi - 1], qr[hi - 1])))))]


ax_served.names = ["served"]


def declare_send_loop(w):
    """world `send`: the sender world plus RSync.send itself.  The handlers enter with their verified contracts extended by a history variable ($handled:
    which handler ran for which channel with which arguments) - pure instrumentation of "a call happened", trusted here and nowhere else."""
    declare_sender(w)
    s = w.schema
    w.axiom_providers.append(ax_served)
    s.declare("RSync", "_receivequeue", REF("RQueue"))
    s.declare("RSync", "$handled", SEQ(ANY), ghost=True)
    s.declare("RQueue", "$chan", SEQ(REF("Channel")), ghost=True)   # every (channel, request) pair the targets will ever put, in arrival order (prophecy)
    s.declare("RQueue", "$req", SEQ(ANY), ghost=True)
    s.declare("RQueue", "$pos", INT, ghost=True)                    # how many have been taken
    s.set_bases("RQueue", ["object"])
    handled = lambda h, r: h("RSync", r, "$handled")
    chans = lambda h, r: h.sv("RSync", r, "_channels")
    qc = lambda h, q: h("RQueue", q, "$chan")
    qr = lambda h, q: h("RQueue", q, "$req")
    qpos = lambda h, q: h("RQueue", q, "$pos")
    RSQ = lambda h, r: h("RSync", r, "_receivequeue")

    def get_post(a, h, h2, r):
        p = qpos(h, a.self)
        return [p >= 0, p < slen(qr(h, a.self)), slen(qc(h, a.self)) == slen(qr(h, a.self)),      # get() returns only when an entry is there
                r.v[0].v == qc(h, a.self)[p], r.v[1].v == qr(h, a.self)[p], r.v[0].v != 0, qpos(h2, a.self) == p + 1]

    w.add(Contract("model:RQueue.get", {"self": REF("RQueue")}, modifies=lambda a, h: [("RQueue", a.self, "$pos")],
                   cases=[Case("ok", restype=TUP(REF("Channel"), ANY), post=get_post)], trusted=True,
                   note="queue.Queue.get without timeout: blocks until the item callback of some target has put (channel, request); requests of one channel arrive in the order sent (C02/C10)"))
    w.attr_hooks[("RQueue", "get")] = lambda ex, st, recv: SV(FUNCT, ExternD("contract:model:RQueue.get", bound=recv))

    # ---- the handlers as seen by send(): verified contract + history variable --------------------------------------------------------------------
    def logged(target, code, payload=None):
        real = w.contracts[target]
        old_mod = real.modifies

        def mod(a, h):
            return (old_mod(a, h) if old_mod else []) + [("RSync", a.self, "$handled")]

        def wrap(case):
            def post(a, h, h2, r, _p=case.post):
                pay = payload(a) if payload else NOPAY
                return (_p(a, h, h2, r) if _p else []) + [handled(h2, a.self) == z3.Concat(handled(h, a.self), z3.Unit(hev(z3.IntVal(code), a.channel, pay)))]
            c2 = Case(case.name, case.kind, case.exc, when=case.when, post=post, restype=getattr(case, "restype", None))
            return c2
        c = Contract(target, real.params, defaults=getattr(real, "defaults", None), requires=real.requires, modifies=mod, cases=[wrap(c_) for c_ in real.cases], trusted=True,
                     note="verified in world snd; here extended by the history variable $handled", allocates=getattr(real, "allocates", False))
        w.contracts.pop(target)
        w.add(c)

    logged(f"{RSYNC}:RSync._end_of_channel", H_EOC)
    logged(f"{RSYNC}:RSync._process_link", H_LINKS)
    logged(f"{RSYNC}:RSync._done", H_DONE)
    logged(f"{RSYNC}:RSync._send_item", H_ITEM, lambda a: mkitem(a.modified_rel_path_components, a.sv("checksum").v[0], a.sv("checksum").v[1].v))
    logged(f"{RSYNC}:RSync._list_done", H_LISTDONE)

    # ---- requests are opaque items: tuples (tag, argument) or None ---------------------------------------------------------------------------------
    def index_any(ex, base, idx, st, sink, node):
        i = z3.simplify(core.coerce(idx, INT).v)
        if not z3.is_int_value(i) or i.as_long() not in (0, 1):
            raise Unsupported("request[...] with an index other than 0/1")
        i = i.as_long()
        u = base.v
        if z3.is_app(u) and u.decl().name() == "r_arg":
            yield st, (SV(SEQ(STR), a_comps(u)) if i == 0 else SV(OPT(BYTES), (a_ck_none(u), SV(BYTES, a_ck(u)))))
            return
        for s2, isnone in ex.fork(st, u == core.NONE_U):
            if isnone:
                ex.raise_(s2, sink, "TypeError", origin="None is not subscriptable")
            else:
                yield s2, (SV(STR, r_tag(u)) if i == 0 else SV(ANY, r_arg(u)))

    w.call_hooks[("index", "any")] = index_any

    def co(val, ty):
        if ty == STR and val.ty.kind == "any":
            return SV(STR, a_str(val.v))      # ("ack", path): the path as a dict key (a non-str would be a KeyError, which the lookup allows anyway)
        return None

    co.__name__ = "co_rsync_req"
    core.COERCE_HOOKS[:] = [h for h in core.COERCE_HOOKS if getattr(h, "__name__", "") != "co_rsync_req"] + [co]

    # ---- os.path.dirname(os.path.join(p, "x")): strips the trailing slash -----------------------------------------------------------------------------
    base_join = w.externals["os.path.join"]
    joined_x = {}

    def join_hook(ex, args, kwargs, st, sink, node):
        if len(args) == 2 and z3.is_string_value(z3.simplify(args[1].v)) and z3.simplify(args[1].v).as_string() == "x":
            a = core.coerce(args[0], STR).v
            t = z3.If(z3.SuffixOf(SLASH, a), z3.Concat(a, z3.StringVal("x")), z3.Concat(a, SLASH, z3.StringVal("x")))     # posixpath.join: no second slash
            joined_x[t.get_id()] = (t, a)
            yield st, SV(STR, t)
            return
        yield from base_join(ex, args, kwargs, st, sink, node)

    def dirname_hook(ex, args, kwargs, st, sink, node):
        p = core.coerce(args[0], STR).v
        if p.get_id() not in joined_x:
            raise Unsupported("os.path.dirname of anything but os.path.join(p, 'x')")
        a = joined_x[p.get_id()][1]
        cut = z3.SubSeq(a, 0, slen(a) - 1)
        exotic = core.fresh(STR, "dirname").v           # several trailing slashes / the root directory: not characterised
        yield st, SV(STR, z3.If(z3.Not(z3.SuffixOf(SLASH, a)), a, z3.If(z3.And(slen(cut) > 0, z3.Not(z3.SuffixOf(SLASH, cut))), cut, exotic)))

    w.externals["os.path.join"] = join_hook
    w.externals["os.path.dirname"] = dirname_hook

    # ---- the contract -------------------------------------------------------------------------------------------------------------------------
    SEND = f"{RSYNC}:RSync.send"

    def base_of(sd):
        return z3.If(z3.SuffixOf(SLASH, sd), z3.SubSeq(sd, 0, slen(sd) - 1), sd)

    def send_req(a, h):
        sd = h("RSync", a.self, "_sourcedir")
        b = base_of(sd)
        q = RSQ(h, a.self)
        return [("queue", z3.And(q != 0, qpos(h, q) >= 0)),
                ("source-directory-absolute-normalised-at-most-one-trailing-slash", z3.And(isabs(b), normalised(b), slen(b) > 1, z3.Not(z3.SuffixOf(SLASH, b)), isabs(h("FS", FSR, "cwd")))),
                ("source-is-a-directory", fsget(h, "kind", b) == K_DIR),
                ("link-targets-normalised", links_normalised_(h))]

    def links_normalised_(h):
        qv = z3.String("q_ln")
        return z3.ForAll([qv], z3.Implies(fsget(h, "kind", qv) == K_LINK, z3.And(normalised(fsget(h, "target", qv)), slen(fsget(h, "target", qv)) > 0)), patterns=[fsget(h, "target", qv)])

    def send_ok(a, h, h2, r):
        q = RSQ(h, a.self)
        b = base_of(h("RSync", a.self, "_sourcedir"))
        O, O2 = h("RSync", a.self, "$out"), h2("RSync", a.self, "$out")
        return [h2("RSync", a.self, "_sourcedir") == b,                                                            # the trailing slash is gone for everything that follows
                chans(h2, a.self).v[0] == z3.K(z3.IntSort(), z3.BoolVal(False)),                                   # every target has reported "done"
                z3.PrefixOf(O, O2), slen(O2) > slen(O), m_tag(O2[slen(O)]) == T_LIST,                              # the structure was broadcast, the root directory first
                qpos(h2, q) >= qpos(h, q),
                # every request taken from the queue was answered by its handler, for its channel, with its arguments, in arrival order - and nothing else was
                handled(h2, a.self) == z3.Concat(handled(h, a.self), served(qc(h, q), qr(h, q), qpos(h, q), qpos(h2, q))),
                z3.PrefixOf(h("RSync", a.self, "_links"), h2("RSync", a.self, "_links"))]

    nonempty = lambda a, h: chans(h, a.self).v[0] != z3.K(z3.IntSort(), z3.BoolVal(False))
    SENDMOD = lambda a, h: [("RSync", a.self, f) for f in ("_sourcedir", "_links", "$out", "_paths", "_to_send", "$reported", "_channels", "$finished_calls", "$handled", "$progress")] + [
        ("RQueue", RSQ(h, a.self), "$pos"), ("Channel", None, "$sent")]
    w.add(Contract(SEND, {"self": REF("RSync"), "raises": BOOL}, defaults={"raises": True}, requires=send_req, modifies=SENDMOD,
                   cases=[Case("ok", when=nonempty, post=send_ok),
                          Case("no-targets", when=lambda a, h: z3.And(z3.Not(nonempty(a, h)), z3.Not(a.raises)),
                               post=lambda a, h, h2, r: [h2("RSync", a.self, "$out") == h("RSync", a.self, "$out"), handled(h2, a.self) == handled(h, a.self)]),
                          Case("no-targets-raises", "raise", "OSError"),      # also: a target that ended early, a closed channel
                          Case("remote-error", "raise", "RemoteError", when=nonempty), Case("connection-lost", "raise", "EOFError", when=nonempty),
                          Case("special-file", "raise", "ValueError", when=nonempty), Case("callback-raises", "raise", "Exception", when=nonempty, post=from_callback),
                          Case("path-without-recorded-size", "raise", "KeyError", when=nonempty)],
                   props=["C17"], allocates=True))

    def sizes_recorded(h, me):
        c, j = z3.Int("q_sr_c"), z3.Int("q_sr_j")
        T, P = h.sv("RSync", me, "_to_send"), h.sv("RSync", me, "_paths")
        lst = z3.Select(T.v[1][0], c)
        return z3.ForAll([c, j], z3.Implies(z3.And(z3.Select(T.v[0], c), j >= 0, j < slen(lst)), z3.Select(P.v[0], lst[j])), patterns=[lst[j]])

    def send_inv(L):
        h, pre, old = L.h, L.pre, L.old
        me = L.inp("self")
        q = RSQ(old, me)
        return [("params", L.self == me),
                ("source-directory-and-links-fixed-while-requests-are-served", z3.And(h("RSync", me, "_sourcedir") == pre("RSync", me, "_sourcedir"), h("RSync", me, "_links") == pre("RSync", me, "_links"),
                                                                                  h("RSync", me, "$out") == pre("RSync", me, "$out"), RSQ(h, me) == q)),
                ("queue-position", z3.And(qpos(h, q) >= qpos(pre, q), qpos(pre, q) == qpos(old, q), qc(h, q) == qc(old, q), qr(h, q) == qr(old, q))),
                ("every-request-so-far-answered-by-its-handler", handled(h, me) == z3.Concat(handled(old, me), served(qc(old, q), qr(old, q), qpos(old, q), qpos(h, q))))]

    w.add_loop(LoopSpec(SEND, 0, invariant=send_inv,
                        havoc_cells=lambda L: [("RSync", L.inp("self"), f) for f in ("_paths", "_to_send", "$reported", "_channels", "$finished_calls", "$handled", "$progress")] + [
                            ("RQueue", RSQ(L.old, L.inp("self")), "$pos")], havoc_fields=["Channel.$sent"], props=["C17"]))
    return w
