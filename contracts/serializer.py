"""Serializer contracts (C01, C12, C13): value grammar, reference byte format, encoder and decoder contracts.

The reference format `enc` is written from the statement of C12 (opcode letters as literals here, NOT read
from the repository): one letter per type, big-endian 4-byte lengths and small ints, decimal text for big ints,
IEEE-754 big-endian doubles, post-order containers, STOP terminator.
"""
from __future__ import annotations

import z3

from pyvc import core
from pyvc.contracts import Case, Contract, LoopSpec
from pyvc.core import (ANY, BOOL, BYTES, DT, FLOAT, FUNCT, INT, NONE, NONEV, OPT, REF, SEQ, STR, SV, TUP, Unsupported, _Prim, mk_bool,
                       mk_bytes, mk_int, mk_str, mk_tuple)
from pyvc.pybuiltins import I32_MAX, I32_MIN, be32, be64, dec, encodable, is_dec, undec, utf8, utf8_ok, unutf8
from pyvc.symexec import ClassD, ExternD, FuncD

from .base import GB, slen

S = z3.StringSort()
I = z3.IntSort()
B = z3.BoolSort()

# ---------------------------------------------------------------------------
# value grammar
# ---------------------------------------------------------------------------
_Val = z3.Datatype("Val")
_VS = z3.SeqSort(z3.DatatypeSort("Val"))
_Val.declare("VNone")
_Val.declare("VBool", ("bval", B))
_Val.declare("VInt", ("ival", I))
_Val.declare("VFloat", ("fbits", I))
_Val.declare("VComplex", ("cre", I), ("cim", I))
_Val.declare("VBytes", ("bytesval", S))
_Val.declare("VStr", ("strval", S))
_Val.declare("VList", ("litems", _VS))
_Val.declare("VTuple", ("titems", _VS))
_Val.declare("VDict", ("dkeys", _VS), ("dvals", _VS))
_Val.declare("VSet", ("sitems", _VS))
_Val.declare("VFrozenSet", ("fitems", _VS))
_Val.declare("VChan", ("chanid", I))
_Val.declare("VOther", ("otag", I))
Val = _Val.create()
VSeq = z3.SeqSort(Val)
VAL = DT("Val", Val)
VSEQ = SEQ(VAL)
TYPETAG = _Prim("typetag", I)
COMPLEX = core.CPX(FLOAT, FLOAT)

# type tags: builtins have fixed small codes, every other class a code >= 100 with an arbitrary __name__
TAGS = ["NoneType", "bool", "int", "float", "complex", "bytes", "str", "list", "tuple", "dict", "set", "frozenset", "Channel"]
TAG = {n: i for i, n in enumerate(TAGS)}
tagname = z3.Function("tagname", I, S)


def ax_tagname(t):
    c = t.arg(0)
    return [z3.Implies(c == i, t == z3.StringVal(n)) for n, i in TAG.items()]


ax_tagname.names = ["tagname"]


def type_of(v):
    V = Val
    return z3.If(V.is_VNone(v), TAG["NoneType"], z3.If(V.is_VBool(v), TAG["bool"], z3.If(V.is_VInt(v), TAG["int"], z3.If(V.is_VFloat(v), TAG["float"],
           z3.If(V.is_VComplex(v), TAG["complex"], z3.If(V.is_VBytes(v), TAG["bytes"], z3.If(V.is_VStr(v), TAG["str"], z3.If(V.is_VList(v), TAG["list"],
           z3.If(V.is_VTuple(v), TAG["tuple"], z3.If(V.is_VDict(v), TAG["dict"], z3.If(V.is_VSet(v), TAG["set"], z3.If(V.is_VFrozenSet(v), TAG["frozenset"],
           z3.If(V.is_VChan(v), TAG["Channel"], V.otag(v))))))))))))))


# ---------------------------------------------------------------------------
# reference encoder (from the statement) and "supported" predicate
# ---------------------------------------------------------------------------
enc = z3.Function("enc", Val, S)
sup = z3.Function("sup", Val, B)
enc_upto = z3.Function("enc_upto", VSeq, I, S)            # concat enc(xs[j]) for j < k
enc_litems_upto = z3.Function("enc_litems_upto", VSeq, I, S)  # concat enc(VInt j) ++ enc(xs[j]) ++ 'P'
enc_kvs_upto = z3.Function("enc_kvs_upto", VSeq, VSeq, I, S)
sup_upto = z3.Function("sup_upto", VSeq, I, B)
strable = z3.Function("strable", I, B)                    # str(i) does not hit CPython's int->str digit limit

L_ = lambda c: z3.StringVal(c)
OP = dict(BUILDTUPLE="@", BYTES="A", CHANNEL="B", FALSE="C", FLOAT="D", FROZENSET="E", INT="F", LONG="G", LONGINT="H", LONGLONG="I",
          NEWDICT="J", NEWLIST="K", NONE="L", PY2STRING="M", PY3STRING="N", SET="O", SETITEM="P", STOP="Q", TRUE="R", UNICODE="S", COMPLEX="T")
VERSION = z3.StringVal("\x02")
DIGIT_LIMIT = 10 ** 4300


def enc_int(i, short="F", long_="H"):
    d = dec(i)
    return z3.If(z3.And(i >= I32_MIN, i <= I32_MAX), z3.Concat(L_(short), be32(i)), z3.Concat(L_(long_), be32(z3.Length(d)), d))


def enc_def(v):
    V = Val
    xs = lambda acc: acc(v)
    return z3.If(V.is_VNone(v), L_("L"),
           z3.If(V.is_VBool(v), z3.If(V.bval(v), L_("R"), L_("C")),
           z3.If(V.is_VInt(v), enc_int(V.ival(v)),
           z3.If(V.is_VFloat(v), z3.Concat(L_("D"), be64(V.fbits(v))),
           z3.If(V.is_VComplex(v), z3.Concat(L_("T"), be64(V.cre(v)), be64(V.cim(v))),
           z3.If(V.is_VBytes(v), z3.Concat(L_("A"), be32(z3.Length(V.bytesval(v))), V.bytesval(v)),
           z3.If(V.is_VStr(v), z3.Concat(L_("N"), be32(z3.Length(utf8(V.strval(v)))), utf8(V.strval(v))),
           z3.If(V.is_VList(v), z3.Concat(L_("K"), be32(z3.Length(V.litems(v))), enc_litems_upto(V.litems(v), z3.Length(V.litems(v)))),
           z3.If(V.is_VTuple(v), z3.Concat(enc_upto(V.titems(v), z3.Length(V.titems(v))), L_("@"), be32(z3.Length(V.titems(v)))),
           z3.If(V.is_VDict(v), z3.Concat(L_("J"), enc_kvs_upto(V.dkeys(v), V.dvals(v), z3.Length(V.dkeys(v)))),
           z3.If(V.is_VSet(v), z3.Concat(enc_upto(V.sitems(v), z3.Length(V.sitems(v))), L_("O"), be32(z3.Length(V.sitems(v)))),
           z3.If(V.is_VFrozenSet(v), z3.Concat(enc_upto(V.fitems(v), z3.Length(V.fitems(v))), L_("E"), be32(z3.Length(V.fitems(v)))),
           z3.If(V.is_VChan(v), z3.Concat(L_("B"), be32(V.chanid(v))), L_("?"))))))))))))))


def sup_def(v):
    V = Val
    okseq = lambda xs: z3.And(z3.Length(xs) <= I32_MAX, sup_upto(xs, z3.Length(xs)))
    return z3.If(V.is_VStr(v), z3.And(encodable(V.strval(v)), z3.Length(utf8(V.strval(v))) <= I32_MAX),
           z3.If(V.is_VBytes(v), z3.Length(V.bytesval(v)) <= I32_MAX,
           z3.If(V.is_VInt(v), z3.Or(z3.And(V.ival(v) >= I32_MIN, V.ival(v) <= I32_MAX), z3.Length(dec(V.ival(v))) <= I32_MAX),
           z3.If(V.is_VList(v), okseq(V.litems(v)),
           z3.If(V.is_VTuple(v), okseq(V.titems(v)),
           z3.If(V.is_VDict(v), z3.And(z3.Length(V.dkeys(v)) == z3.Length(V.dvals(v)), sup_upto(V.dkeys(v), z3.Length(V.dkeys(v))), sup_upto(V.dvals(v), z3.Length(V.dvals(v)))),
           z3.If(V.is_VSet(v), okseq(V.sitems(v)),
           z3.If(V.is_VFrozenSet(v), okseq(V.fitems(v)),
           z3.If(V.is_VChan(v), z3.And(V.chanid(v) >= I32_MIN, V.chanid(v) <= I32_MAX),
           z3.If(V.is_VOther(v), z3.BoolVal(False), z3.BoolVal(True)))))))))))


def ax_enc(t):
    return [t == enc_def(t.arg(0)), z3.Length(t) >= 1]


ax_enc.names = ["enc"]


def ax_sup(t):
    return [t == sup_def(t.arg(0))]


ax_sup.names = ["sup"]


def _upto_axioms(t, xs, k, step):
    return [z3.Implies(k <= 0, t == z3.StringVal("")),
            z3.Implies(z3.And(k >= 1, k <= z3.Length(xs)), t == step(k - 1))]


def ax_enc_upto(t):
    xs, k = t.arg(0), t.arg(1)
    return _upto_axioms(t, xs, k, lambda j: z3.Concat(enc_upto(xs, j), enc(xs[j])))


ax_enc_upto.names = ["enc_upto"]


def ax_enc_litems_upto(t):
    xs, k = t.arg(0), t.arg(1)
    return _upto_axioms(t, xs, k, lambda j: z3.Concat(enc_litems_upto(xs, j), enc(Val.VInt(j)), enc(xs[j]), L_("P")))


ax_enc_litems_upto.names = ["enc_litems_upto"]


def ax_enc_kvs_upto(t):
    ks, vs, k = t.arg(0), t.arg(1), t.arg(2)
    return _upto_axioms(t, ks, k, lambda j: z3.Concat(enc_kvs_upto(ks, vs, j), enc(ks[j]), enc(vs[j]), L_("P")))


ax_enc_kvs_upto.names = ["enc_kvs_upto"]


def ax_sup_upto(t):
    xs, k = t.arg(0), t.arg(1)
    n = z3.Length(xs)
    return [z3.Implies(k <= 0, t),
            z3.Implies(z3.And(k >= 1, k <= n), t == z3.And(sup_upto(xs, k - 1), sup(xs[k - 1]))),
            # monotone in k (an inductive consequence of the step equation, stated as a lemma about the spec function)
            z3.Implies(z3.And(k >= 0, k <= n, sup_upto(xs, n)), t)]


ax_sup_upto.names = ["sup_upto"]


def ax_strable(t):
    i = t.arg(0)
    return [z3.Implies(z3.And(i > -DIGIT_LIMIT, i < DIGIT_LIMIT), t)]


ax_strable.names = ["strable"]

def ax_otag(t):
    v = t.arg(0)
    return [z3.Implies(Val.is_VOther(v), t >= 100)]  # classes other than the 13 supported ones


ax_otag.names = ["otag"]


def ax_dkeys(t):
    v = t.arg(0)
    return [z3.Implies(Val.is_VDict(v), z3.Length(t) == z3.Length(Val.dvals(v)))]  # a dict has as many keys as values


ax_dkeys.names = ["dkeys"]

def ax_chanid(t):
    v = t.arg(0)
    return [z3.Implies(Val.is_VChan(v), t >= 1)]  # channel ids are issued from 1 (initiator) / 2 (worker) upwards


ax_chanid.names = ["chanid"]

PROVIDERS = [ax_chanid, ax_otag, ax_dkeys, ax_tagname, ax_enc, ax_sup, ax_enc_upto, ax_enc_litems_upto, ax_enc_kvs_upto, ax_sup_upto, ax_strable]


class IterD:
    """Python-side descriptor of an iterable with symbolic length and element access."""

    def __init__(self, length, elem_at):
        self.length, self.elem_at = length, elem_at


class DispatchCacheD:
    pass


# ---------------------------------------------------------------------------
def declare(w):
    s = w.schema
    w.axiom_providers.extend(PROVIDERS)
    s.declare("_Serializer", "$out", BYTES, ghost=True)            # everything passed to self._write, concatenated
    s.declare("_Serializer", "$has_streamlist", BOOL, ghost=True)   # no write callable was supplied
    s.declare("_Serializer", "_streamlist", BYTES)                  # list of fragments, represented by its concatenation

    # ---- coercions between the dynamic grammar and typed parameters ----------------------
    def co(val, ty):
        k = val.ty.kind
        if ty == VAL:
            if k == "int":
                return SV(VAL, Val.VInt(val.v))
            if k == "bool":
                return SV(VAL, Val.VBool(val.v))
            if k == "none":
                return SV(VAL, Val.VNone)
            if k == "bytes":
                return SV(VAL, Val.VBytes(val.v))
            if k == "str":
                return SV(VAL, Val.VStr(val.v))
            if k == "float":
                return SV(VAL, Val.VFloat(val.v))
            if k == "seq" and val.ty == VSEQ:
                return None
        if k == "dt" and val.ty == VAL:
            if ty == INT:
                return SV(INT, Val.ival(val.v))
            if ty == BOOL:
                return SV(BOOL, Val.bval(val.v))
            if ty == BYTES:
                return SV(BYTES, Val.bytesval(val.v))
            if ty == STR:
                return SV(STR, Val.strval(val.v))
            if ty == FLOAT:
                return SV(FLOAT, Val.fbits(val.v))
            if ty == COMPLEX:
                return SV(COMPLEX, (SV(FLOAT, Val.cre(val.v)), SV(FLOAT, Val.cim(val.v))))
            if ty == NONE:
                return NONEV
            if isinstance(ty, LISTOF):
                return SV(ty, ty.acc(val.v))
        return None

    def type_test(val, ty):
        v = val.v
        if ty == INT:
            return Val.is_VInt(v)
        if ty == BOOL:
            return Val.is_VBool(v)
        if ty == BYTES:
            return Val.is_VBytes(v)
        if ty == STR:
            return Val.is_VStr(v)
        if ty == FLOAT:
            return Val.is_VFloat(v)
        if ty == COMPLEX:
            return Val.is_VComplex(v)
        if ty == NONE:
            return Val.is_VNone(v)
        if isinstance(ty, LISTOF):
            return {"litems": Val.is_VList, "titems": Val.is_VTuple, "sitems": Val.is_VSet, "fitems": Val.is_VFrozenSet}[ty.acc.name()](v)
        return z3.BoolVal(False)

    w.call_hooks[("coerce-pre", "dt")] = type_test

    def isinstance_val(ex, v, names):
        tests = {"NoneType": Val.is_VNone, "bool": Val.is_VBool, "float": Val.is_VFloat, "complex": Val.is_VComplex, "bytes": Val.is_VBytes, "str": Val.is_VStr,
                 "list": Val.is_VList, "tuple": Val.is_VTuple, "dict": Val.is_VDict, "set": Val.is_VSet, "frozenset": Val.is_VFrozenSet, "Channel": Val.is_VChan}
        alts = []
        for n in names:
            if n == "int":
                alts += [Val.is_VInt(v.v), Val.is_VBool(v.v)]
            elif n in tests:
                alts.append(tests[n](v.v))
            else:
                raise Unsupported(f"isinstance of a dynamic value against {n}")
        return z3.Or(*alts) if alts else z3.BoolVal(False)

    w.call_hooks[("isinstance", "dt")] = isinstance_val
    core.COERCE_HOOKS[:] = [h for h in core.COERCE_HOOKS if getattr(h, "__name__", "") != "co_ser"]
    co.__name__ = "co_ser"
    core.COERCE_HOOKS.append(co)

    # ---- type(), __name__, by-name dispatch --------------------------------------------
    def b_type(ex, args, kwargs, st, sink, node):
        (v,) = args
        if v.ty != VAL:
            raise Unsupported(f"type() of {v.ty!r}")
        yield st, SV(TYPETAG, type_of(v.v))

    w.externals["builtins.type"] = b_type
    w.attr_hooks[("typetag", "__name__")] = lambda ex, st, recv: SV(STR, tagname(recv.v))
    w.attr_hooks[("_Serializer", "__class__")] = lambda ex, st, recv: SV(FUNCT, ClassD("_Serializer", __import__("pyvc.extract", fromlist=["x"]).load(GB)))
    w.attr_hooks[("_Serializer", "_dispatch")] = lambda ex, st, recv: SV(FUNCT, DispatchCacheD())

    def name_is(c, x):
        """tagname(c) == x, split into the builtin code and the foreign-class case (no string equation over a concatenation)"""
        alts = [z3.And(c >= 100, tagname(c) == z3.StringVal(x))]
        if x in TAG:
            alts.append(c == TAG[x])
        return z3.Or(*alts)

    def tag_of_methodname(name_t):
        """'save_' + tp.__name__  ->  the tag term, if the name has exactly that shape"""
        if z3.is_app(name_t) and name_t.decl().kind() == z3.Z3_OP_SEQ_CONCAT and name_t.num_args() == 2:
            a0, a1 = name_t.arg(0), name_t.arg(1)
            if z3.is_string_value(a0) and a0.as_string() == "save_" and z3.is_app(a1) and a1.decl().name() == "tagname":
                return a1.arg(0)
        return None

    def method_branches(ex, st, mod, cls, name_t):
        c = tag_of_methodname(name_t)
        rest = st
        for m in mod.class_methods(cls):
            if c is not None:
                if not m.startswith("save_"):
                    continue
                x = m[len("save_"):]
                # two separate paths: the builtin type of that name, and a foreign class that merely has that __name__
                conds = ([c == TAG[x]] if x in TAG else []) + [z3.And(c >= 100, tagname(c) == z3.StringVal(x))]
            else:
                conds = [name_t == z3.StringVal(m)]
            for cond in conds:
                s2 = rest.fork().assume(cond)
                if ex.feasible(s2):
                    yield s2, SV(FUNCT, FuncD(mod, f"{cls}.{m}"))
                rest = rest.fork().assume(z3.Not(cond))
        yield rest, None

    def by_name(ex, args, st, sink, node):
        """getattr(cls, name, None) with a symbolic name: one branch per real method of the class."""
        obj, name, default = args
        if not (obj.ty.kind == "func" and isinstance(obj.v, ClassD)):
            raise Unsupported("dynamic getattr on a non-class")
        for s2, m in method_branches(ex, st, obj.v.module, obj.v.name, name.v):
            if m is not None:
                yield s2, m
            elif ex.feasible(s2):
                yield s2, default

    w.call_hooks[("getattr", "dynamic")] = by_name

    def cache_lookup(ex, base, idx, st, sink, node):
        """self._dispatch[tp]: a cache whose entries equal what the by-name lookup yields (invariant of the
        class-level dict, re-established by the only store `self._dispatch[tp] = meth`): either a miss or that method."""
        if not isinstance(base.v, DispatchCacheD):
            raise Unsupported("subscript of a callable")
        miss = st.fork()
        ex.raise_(miss, sink, "KeyError", origin="_dispatch miss")
        mod = __import__("pyvc.extract", fromlist=["x"]).load(GB)
        nm = z3.Concat(z3.StringVal("save_"), tagname(idx.v))
        for s2, m in method_branches(ex, st, mod, "_Serializer", nm):
            if m is not None:
                yield s2, m

    w.call_hooks[("index", "func")] = cache_lookup

    def cache_store(ex, base, idx, v, st, sink, node):
        if not isinstance(base.v, DispatchCacheD):
            raise Unsupported("item store on a callable")
        ok = v.ty.kind == "func" and isinstance(v.v, FuncD)
        want = name_is(idx.v, v.v.qualname.split(".")[-1][len("save_"):]) if ok and v.v.qualname.split(".")[-1].startswith("save_") else z3.BoolVal(False)
        ex.oblige(st, "inv", "_dispatch-cache-holds-by-name-method", want)
        return [st]

    w.call_hooks[("setitem", "func")] = cache_store

    # ---- iteration helpers ------------------------------------------------------------------
    def b_enumerate(ex, args, kwargs, st, sink, node):
        (xs,) = args
        if xs.ty.kind != "seq":
            raise Unsupported("enumerate over a non-list")
        yield st, SV(FUNCT, IterD(z3.Length(xs.v), lambda i: mk_tuple([mk_int(i), core.unflat(xs.ty.elem, [xs.v[i]])])))

    w.externals["builtins.enumerate"] = b_enumerate

    def iter_func(ex, it, st):
        if isinstance(it.v, IterD):
            return it.v.length, it.v.elem_at
        raise Unsupported("iteration over a callable")

    w.call_hooks[("iter", "func")] = iter_func

    def dict_items(ex, d, args, kwargs, st, sink, node):
        v = d.recv.v
        yield st, SV(FUNCT, IterD(z3.Length(Val.dkeys(v)), lambda i: mk_tuple([SV(VAL, Val.dkeys(v)[i]), SV(VAL, Val.dvals(v)[i])])))

    w.call_hooks[("dt", "items")] = dict_items
    w.attr_hooks[("tuple", "real")] = lambda ex, st, recv: recv.v[0]
    w.attr_hooks[("tuple", "imag")] = lambda ex, st, recv: recv.v[1]

    # ---- str(i), rstrip, ascii encode ---------------------------------------------------------
    def str_of_int(ex, v, st, sink, node):
        for s2, ok in ex.fork(st, strable(v.v)):
            if ok:
                yield s2, mk_str(dec(v.v))
            else:
                ex.raise_(s2, sink, "ValueError", origin="str(int) beyond the int/str digit limit")

    w.externals["int.__str__limit"] = str_of_int

    def rstrip(ex, recv, args, st, sink):
        # decimal text never ends with 'L' on Python 3: rstrip('L') is the identity there
        t = recv.v
        if z3.is_app(t) and t.decl().name() == "dec":
            yield st, recv
        else:
            raise Unsupported("rstrip on a non-decimal string")

    w.externals["str.rstrip"] = rstrip

    def encode_ascii(ex, recv, st, sink):
        t = recv.v
        if z3.is_app(t) and t.decl().name() == "dec":
            yield st, mk_bytes(t)  # decimal digits and '-' are ASCII: same characters
        else:
            raise Unsupported("encode('ascii') of a non-decimal string")

    w.externals["str.encode.ascii"] = encode_ascii
    w.externals["bytes.join"] = lambda ex, recv, args, st, sink: iter([(st, args[0])])  # fragments are represented by their concatenation

    # ---- the write callable ---------------------------------------------------------------------
    def out(h, r):
        return h("_Serializer", r, "$out")

    def append_post(a, h, h2, r):
        return [out(h2, a.self) == z3.Concat(out(h, a.self), a.data),
                h2("_Serializer", a.self, "_streamlist") == z3.If(h("_Serializer", a.self, "$has_streamlist"),
                                                                  z3.Concat(h("_Serializer", a.self, "_streamlist"), a.data), h("_Serializer", a.self, "_streamlist"))]

    w.add(Contract("model:_Serializer._write", {"self": REF("_Serializer"), "data": BYTES},
                   modifies=lambda a, h: [("_Serializer", a.self, "$out"), ("_Serializer", a.self, "_streamlist")],
                   cases=[Case("ok", post=append_post)], trusted=True,
                   note="self._write is _streamlist.append or the caller's stream.write: appends the fragment (set up by _Serializer.__init__, static obligation)"))
    w.attr_hooks[("_Serializer", "_write")] = lambda ex, st, recv: SV(FUNCT, ExternD("contract:model:_Serializer._write", bound=recv))

    def streamlist_attr(ex, st, recv):
        sink = ex._cur_sink
        for s2, has in ex.fork(st, st.heap.get(recv, "$has_streamlist").v):
            if has:
                yield s2, s2.heap.get(recv, "_streamlist")
            else:
                ex.raise_(s2, sink, "AttributeError", origin="_streamlist")

    w.attr_hooks[("_Serializer", "_streamlist")] = streamlist_attr

    MOD = lambda a, h: [("_Serializer", a.self, "$out"), ("_Serializer", a.self, "_streamlist")]
    inv = lambda h, r: z3.Implies(h("_Serializer", r, "$has_streamlist"), h("_Serializer", r, "_streamlist") == out(h, r))

    def ser(name, params, val_of, extra_requires=None, props=("C01", "C12"), dump_err=True, when_ok=None):
        """save_* / _write_*: appends exactly the reference bytes of the value, or raises DumpError iff unsupported."""
        def post_ok(a, h, h2, r):
            v = val_of(a)
            return [sup(v), out(h2, a.self) == z3.Concat(out(h, a.self), enc(v)), inv(h2, a.self)]

        cases = [Case("ok", post=post_ok)]
        if dump_err:
            cases.append(Case("unsupported", "raise", "DumpError", post=lambda a, h, h2, e: [z3.Not(sup(val_of(a))), inv(h2, a.self)]))
        return w.add(Contract(f"{GB}:_Serializer.{name}", dict({"self": REF("_Serializer")}, **params),
                              requires=lambda a, h: [("repr-inv", inv(h, a.self))] + (extra_requires(a, h) if extra_requires else []),
                              modifies=MOD, cases=cases, props=list(props)))

    ser("save_NoneType", {"non": NONE}, lambda a: Val.VNone, dump_err=False)
    ser("save_bool", {"boolean": BOOL}, lambda a: Val.VBool(a.boolean), dump_err=False)
    ser("save_bytes", {"bytes_": BYTES}, lambda a: Val.VBytes(a.bytes_))
    ser("save_str", {"s": STR}, lambda a: Val.VStr(a.s))
    ser("save_int", {"i": INT}, lambda a: Val.VInt(a.i))
    ser("save_float", {"flt": FLOAT}, lambda a: Val.VFloat(a.flt), dump_err=False)
    ser("save_complex", {"cpx": COMPLEX}, lambda a: Val.VComplex(a.sv("cpx").v[0].v, a.sv("cpx").v[1].v), dump_err=False)
    ser("save_list", {"L": LISTOF(Val.litems)}, lambda a: Val.VList(a.L))
    ser("save_tuple", {"tup": LISTOF(Val.titems)}, lambda a: Val.VTuple(a.tup))
    ser("save_set", {"s": LISTOF(Val.sitems)}, lambda a: Val.VSet(a.s))
    ser("save_frozenset", {"s": LISTOF(Val.fitems)}, lambda a: Val.VFrozenSet(a.s))
    ser("save_dict", {"d": VAL}, lambda a: a.d, extra_requires=lambda a, h: [("is-dict", Val.is_VDict(a.d))])
    ser("_save", {"obj": VAL}, lambda a: a.obj)

    # helpers with their own shapes -----------------------------------------------------------
    def write_int4_post(a, h, h2, r):
        return [out(h2, a.self) == z3.Concat(out(h, a.self), be32(a.i)), inv(h2, a.self)]

    w.add(Contract(f"{GB}:_Serializer._write_int4", {"self": REF("_Serializer"), "i": INT, "error": STR}, defaults={"error": "int must be less than 2147483647"},
                   requires=lambda a, h: [("repr-inv", inv(h, a.self)), ("lower-bound", a.i >= I32_MIN)],
                   modifies=MOD,
                   cases=[Case("ok", when=lambda a, h: a.i <= I32_MAX, post=write_int4_post),
                          Case("too-big", "raise", "DumpError", when=lambda a, h: a.i > I32_MAX, post=lambda a, h, h2, e: [out(h2, a.self) == out(h, a.self), inv(h2, a.self)])],
                   props=["C01", "C12"]))
    w.add(Contract(f"{GB}:_Serializer._write_byte_sequence", {"self": REF("_Serializer"), "bytes_": BYTES},
                   requires=lambda a, h: [("repr-inv", inv(h, a.self))], modifies=MOD,
                   cases=[Case("ok", when=lambda a, h: slen(a.bytes_) <= I32_MAX,
                               post=lambda a, h, h2, r: [out(h2, a.self) == z3.Concat(out(h, a.self), be32(slen(a.bytes_)), a.bytes_), inv(h2, a.self)]),
                          Case("too-long", "raise", "DumpError", when=lambda a, h: slen(a.bytes_) > I32_MAX, post=lambda a, h, h2, e: [inv(h2, a.self)])],
                   props=["C01", "C12"]))
    w.add(Contract(f"{GB}:_Serializer._write_unicode_string", {"self": REF("_Serializer"), "s": STR},
                   requires=lambda a, h: [("repr-inv", inv(h, a.self))], modifies=MOD,
                   cases=[Case("ok", when=lambda a, h: z3.And(encodable(a.s), slen(utf8(a.s)) <= I32_MAX),
                               post=lambda a, h, h2, r: [out(h2, a.self) == z3.Concat(out(h, a.self), be32(slen(utf8(a.s))), utf8(a.s)), inv(h2, a.self)]),
                          Case("bad", "raise", "DumpError", when=lambda a, h: z3.Not(z3.And(encodable(a.s), slen(utf8(a.s)) <= I32_MAX)), post=lambda a, h, h2, e: [inv(h2, a.self)])],
                   props=["C01", "C12"]))
    w.add(Contract(f"{GB}:_Serializer._save_integral", {"self": REF("_Serializer"), "i": INT, "short_op": BYTES, "long_op": BYTES},
                   requires=lambda a, h: [("repr-inv", inv(h, a.self))], modifies=MOD,
                   cases=[Case("ok", post=lambda a, h, h2, r: [
                       z3.Or(z3.And(a.i >= I32_MIN, a.i <= I32_MAX), slen(dec(a.i)) <= I32_MAX),
                       out(h2, a.self) == z3.Concat(out(h, a.self), z3.If(z3.And(a.i >= I32_MIN, a.i <= I32_MAX), z3.Concat(a.short_op, be32(a.i)),
                                                                         z3.Concat(a.long_op, be32(slen(dec(a.i))), dec(a.i)))), inv(h2, a.self)]),
                          Case("absurdly-long", "raise", "DumpError", post=lambda a, h, h2, e: [
                              z3.Not(z3.Or(z3.And(a.i >= I32_MIN, a.i <= I32_MAX), slen(dec(a.i)) <= I32_MAX)), inv(h2, a.self)])],
                   props=["C01", "C12"], probes=lambda a, h: {"i": a.i}))
    w.add(Contract(f"{GB}:_Serializer._write_setitem", {"self": REF("_Serializer"), "key": VAL, "value": VAL},
                   requires=lambda a, h: [("repr-inv", inv(h, a.self))],
                   modifies=MOD,
                   cases=[Case("ok", post=lambda a, h, h2, r: [sup(a.key), sup(a.value), out(h2, a.self) == z3.Concat(out(h, a.self), enc(a.key), enc(a.value), L_("P")), inv(h2, a.self)]),
                          Case("unsupported", "raise", "DumpError", post=lambda a, h, h2, e: [z3.Not(z3.And(sup(a.key), sup(a.value))), inv(h2, a.self)])],
                   props=["C01", "C12"]))
    w.add(Contract(f"{GB}:_Serializer._write_set", {"self": REF("_Serializer"), "s": VSEQ, "op": BYTES},
                   requires=lambda a, h: [("repr-inv", inv(h, a.self))], modifies=MOD,
                   cases=[Case("ok", post=lambda a, h, h2, r: [slen(a.s) <= I32_MAX, sup_upto(a.s, slen(a.s)),
                                                               out(h2, a.self) == z3.Concat(out(h, a.self), enc_upto(a.s, slen(a.s)), a.op, be32(slen(a.s))), inv(h2, a.self)]),
                          Case("unsupported", "raise", "DumpError", post=lambda a, h, h2, e: [z3.Not(z3.And(slen(a.s) <= I32_MAX, sup_upto(a.s, slen(a.s)))), inv(h2, a.self)])],
                   props=["C01", "C12"]))
    ser("save_Channel", {"channel": VAL}, lambda a: a.channel, extra_requires=lambda a, h: [("is-channel", Val.is_VChan(a.channel))], props=("C01", "C18"))
    w.attr_hooks[("dt", "id")] = lambda ex, st, recv: SV(INT, Val.chanid(recv.v))
    s.declare("Channel", "id", INT)

    # loops -------------------------------------------------------------------------------------
    def seq_loop(fn, var, upto, prefix_bytes, havoc=None, wf_elem=True):
        w.add_loop(LoopSpec(
            f"{GB}:_Serializer.{fn}", 0,
            invariant=lambda L: [
                ("out-is-prefix-encoding", out(L.h, L.inp("self")) == z3.Concat(out(L.old, L.inp("self")), prefix_bytes(L), upto(L, L.k))),
                ("items-so-far-supported", sup_upto_for(L, var)),
                ("repr-inv", inv(L.h, L.inp("self"))),
                ("params", L.self == L.inp("self")),
            ],
            havoc_cells=lambda L: [("_Serializer", L.inp("self"), "$out"), ("_Serializer", L.inp("self"), "_streamlist")], props=["C01", "C12"]))

    def mention(t):
        """exposes a spec-function term so that its defining axioms are instantiated for it"""
        return t == t

    def sup_upto_for(L, var):
        xs = L.inp(var)
        if var == "d":
            ks, vs = Val.dkeys(xs), Val.dvals(xs)
            return z3.And(sup_upto(ks, L.k), sup_upto(vs, L.k), mention(sup_upto(ks, L.k + 1)), mention(sup_upto(vs, L.k + 1)))
        return z3.And(sup_upto(xs, L.k), mention(sup_upto(xs, L.k + 1)))

    seq_loop("save_list", "L", lambda L, k: enc_litems_upto(L.inp("L"), k), lambda L: z3.Concat(L_("K"), be32(slen(L.inp("L")))))
    seq_loop("save_tuple", "tup", lambda L, k: enc_upto(L.inp("tup"), k), lambda L: z3.StringVal(""))
    seq_loop("_write_set", "s", lambda L, k: enc_upto(L.inp("s"), k), lambda L: z3.StringVal(""))
    seq_loop("save_dict", "d", lambda L, k: enc_kvs_upto(Val.dkeys(L.inp("d")), Val.dvals(L.inp("d")), k), lambda L: L_("J"))

    # ---- top level ---------------------------------------------------------------------------------
    w.add(Contract(f"{GB}:_Serializer.__init__", {"self": REF("_Serializer"), "write": OPT(ANY)}, defaults={"write": None},
                   modifies=lambda a, h: [("_Serializer", a.self, f) for f in ("$out", "$has_streamlist", "_streamlist")],
                   cases=[Case("ok", post=lambda a, h, h2, r: [slen(out(h2, a.self)) == 0, slen(h2("_Serializer", a.self, "_streamlist")) == 0,
                                                               h2("_Serializer", a.self, "$has_streamlist") == a.sv("write").v[0]])],
                   trusted=True, note="_Serializer.__init__: without a write callable fragments go to self._streamlist (static obligation on the body text)"))

    def save_post(a, h, h2, r):
        full = z3.Concat(out(h, a.self), z3.If(a.versioned, VERSION, z3.StringVal("")), enc(a.obj), L_("Q"))
        res = r  # OPT(BYTES)
        return [sup(a.obj), out(h2, a.self) == full,
                z3.If(h("_Serializer", a.self, "$has_streamlist"), z3.And(z3.Not(res.v[0]), res.v[1].v == full), res.v[0])]

    w.add(Contract(f"{GB}:_Serializer.save", {"self": REF("_Serializer"), "obj": VAL, "versioned": BOOL}, defaults={"versioned": False},
                   requires=lambda a, h: [("repr-inv", inv(h, a.self))],
                   modifies=MOD,
                   cases=[Case("ok", restype=OPT(BYTES), post=save_post),
                          Case("unsupported", "raise", "DumpError", post=lambda a, h, h2, e: [z3.Not(sup(a.obj))])],
                   props=["C01", "C12"]))

    def dumps_contract(name, versioned):
        w.add(Contract(f"{GB}:{name}", {"obj": VAL},

                       cases=[Case("ok", restype=BYTES, post=lambda a, h, h2, r: [sup(a.obj), r == z3.Concat(VERSION if versioned else z3.StringVal(""), enc(a.obj), L_("Q"))]),
                              Case("unsupported", "raise", "DumpError", post=lambda a, h, h2, e: [z3.Not(sup(a.obj))])],
                       props=["C01", "C12"]))

    dumps_contract("dumps", True)
    dumps_contract("dumps_internal", False)
    declare_decoder(w)
    declare_toplevel(w)
    return w


class LISTOF(core.Ty):
    """A list/tuple/set parameter: Seq(Val) obtained from a Val through a given accessor."""
    kind = "seq"

    def __init__(self, acc):
        self.acc = acc
        self.elem = VAL

    def sorts(self):
        return [VSeq]

    def __eq__(self, other):
        return isinstance(other, (LISTOF, SEQ)) and getattr(other, "elem", None) == VAL

    def __hash__(self):
        return hash("seq(Val)")

    def __repr__(self):
        return "seq(Val)"


# =====================================================================================================
# Decoder
# =====================================================================================================
class TableD:
    def __init__(self, table, cls):
        self.table, self.cls = table, cls


hashable = z3.Function("hashable", Val, B)          # usable as dict key / set member
val_setitem = z3.Function("val_setitem", Val, Val, Val, Val)   # container with container[key] = value applied
nones = z3.Function("nones", I, VSeq)                # [None] * n
chan_id_of = z3.Function("chan_id_of", I, I)
mk_set_seq = z3.Function("mk_set_seq", VSeq, VSeq)   # iteration order of set(xs): each distinct member once


def hashable_def(v):
    V = Val
    return z3.If(z3.Or(V.is_VList(v), V.is_VDict(v), V.is_VSet(v)), z3.BoolVal(False),
                 z3.If(V.is_VTuple(v), hashable_upto(V.titems(v), z3.Length(V.titems(v))),
                       z3.If(V.is_VFrozenSet(v), z3.BoolVal(True), z3.BoolVal(True))))


hashable_upto = z3.Function("hashable_upto", VSeq, I, B)


def ax_hashable(t):
    return [t == hashable_def(t.arg(0))]


ax_hashable.names = ["hashable"]


def ax_hashable_upto(t):
    xs, k = t.arg(0), t.arg(1)
    return [z3.Implies(k <= 0, t), z3.Implies(z3.And(k >= 1, k <= z3.Length(xs)), t == z3.And(hashable_upto(xs, k - 1), hashable(xs[k - 1])))]


ax_hashable_upto.names = ["hashable_upto"]


def ax_nones(t):
    n = t.arg(0)
    return [z3.Length(t) == z3.If(n > 0, n, 0)]


ax_nones.names = ["nones"]


def setitem_ok(c, k):
    """container[key] = value succeeds (no TypeError / IndexError)"""
    V = Val
    n = z3.Length(V.litems(c))
    i = V.ival(k)
    list_ok = z3.And(V.is_VList(c), z3.Or(z3.And(V.is_VInt(k), i >= -n, i < n), z3.And(V.is_VBool(k), n >= z3.If(V.bval(k), 2, 1))))
    dict_ok = z3.And(V.is_VDict(c), hashable(k))
    return z3.Or(list_ok, dict_ok)


def declare_decoder(w):
    s = w.schema
    w.axiom_providers.extend([ax_hashable, ax_hashable_upto, ax_nones])
    s.declare("BytesIO", "unread", BYTES, ghost=True)
    s.set_bases("BytesIO", ["object"])
    s.declare("Unserializer", "stream", REF("BytesIO"))
    s.declare("Unserializer", "stack", VSEQ)
    s.declare("Unserializer", "py2str_as_py3str", BOOL)
    s.declare("Unserializer", "py3str_as_py2str", BOOL)
    s.declare("Unserializer", "channelfactory", REF("ChannelFactory"))
    from pyvc import extract

    mod = extract.load(GB)

    def unread(h, u):
        return h("BytesIO", h("Unserializer", u, "stream"), "unread")

    def stack(h, u):
        return h("Unserializer", u, "stack")

    def push(h, h2, u, v):
        return stack(h2, u) == z3.Concat(stack(h, u), z3.Unit(v))

    # BytesIO.read: the next n bytes (fewer at the end); everything for n < 0   [checked against CPython each run]
    def bio_read_post(a, h, h2, r):
        u = h("BytesIO", a.self, "unread")
        got = z3.If(a.n < 0, u, z3.SubSeq(u, 0, a.n))
        return [r == got, h2("BytesIO", a.self, "unread") == z3.SubSeq(u, z3.Length(got), z3.Length(u) - z3.Length(got))]

    w.add(Contract("model:BytesIO.read", {"self": REF("BytesIO"), "n": INT}, modifies=lambda a, h: [("BytesIO", a.self, "unread")],
                   cases=[Case("ok", restype=BYTES, post=bio_read_post)], trusted=True))

    def mk_bytesio(ex, args, kwargs, st, sink, node):
        r = ex.allocate(st, "BytesIO")
        ex.set_field(st, r, "unread", args[0])
        yield st, r

    w.externals["io.BytesIO"] = mk_bytesio

    # ---- plumbing hooks -------------------------------------------------------------------------
    table = mod.class_consts["Unserializer"]["num2func"]
    w.attr_hooks[("Unserializer", "num2func")] = lambda ex, st, recv: SV(FUNCT, TableD(table, "Unserializer"))
    prev_index = w.call_hooks.get(("index", "func"))

    def index_func(ex, base, idx, st, sink, node):
        if isinstance(base.v, TableD):
            rest = st
            aliases = mod.class_consts[base.v.cls]
            for key, val in base.v.table.items():
                c = idx.v == mk_bytes(key).v
                s2 = rest.fork().assume(c)
                if ex.feasible(s2):
                    name = val[1]
                    al = aliases.get(name)
                    if isinstance(al, tuple) and al and al[0] == "alias":
                        name = al[1]
                    yield s2, SV(FUNCT, FuncD(mod, f"{base.v.cls}.{name}"))
                rest = rest.fork().assume(z3.Not(c))
            if ex.feasible(rest):
                ex.raise_(rest, sink, "KeyError", origin="num2func lookup")
            return
        yield from prev_index(ex, base, idx, st, sink, node)

    w.call_hooks[("index", "func")] = index_func

    old_co = [h for h in core.COERCE_HOOKS if getattr(h, "__name__", "") == "co_ser"][0]

    def co_dec(val, ty):
        if ty == VAL and val.ty.kind == "tuple" and val.ty == COMPLEX:
            return SV(VAL, Val.VComplex(val.v[0].v, val.v[1].v))
        if ty == VAL and val.ty.kind == "ref" and val.ty.cls == "Channel":
            return SV(VAL, Val.VChan(chan_id_of(val.v)))
        if ty == TYPETAG and val.ty.kind == "func" and isinstance(val.v, ExternD) and val.v.name.startswith("builtins."):
            nm = val.v.name.split(".", 1)[1]
            if nm in TAG:
                return SV(TYPETAG, z3.IntVal(TAG[nm]))
        return None

    core.COERCE_HOOKS[:] = [h for h in core.COERCE_HOOKS if getattr(h, "__name__", "") != "co_dec"]
    co_dec.__name__ = "co_dec"
    core.COERCE_HOOKS.append(co_dec)

    def star_call(ex, node, st, sink):
        # complex(*struct.unpack(COMPLEX_FORMAT, binary))
        if isinstance(node.func, ast_Name()) and node.func.id == "complex" and len(node.args) == 1:
            for s2, tup in ex.ev(node.args[0].value, st, sink):
                if tup.ty.kind == "tuple" and len(tup.v) == 2:
                    yield s2, SV(COMPLEX, (tup.v[0], tup.v[1]))
                else:
                    raise Unsupported("complex(*x) with x not a pair")
            return
        raise Unsupported(f"*args call at line {node.lineno}")

    w.call_hooks[("call", "star")] = star_call

    def empty_dict(ex, node, st, sink):
        if node.keys:
            raise Unsupported("non-empty dict display")
        yield st, SV(VAL, Val.VDict(z3.Empty(VSeq), z3.Empty(VSeq)))

    w.call_hooks[("display", "dict")] = empty_dict

    def list_times(ex, a, b, st, sink, node):
        # [None] * length
        if a.ty.kind == "tuple" and len(a.v) == 1 and a.v[0].ty.kind == "none" and b.ty.kind in ("int", "bool"):
            yield st, SV(VAL, Val.VList(nones(core.coerce(b, INT).v)))
            return
        raise Unsupported(f"binop Mult on {a.ty!r},{b.ty!r}")

    w.call_hooks[("binop", "Mult")] = list_times
    # `fmt % value` with a value of the serializer's grammar: a tuple value is the argument list (TypeError unless it has one element per directive)
    # (an instance of a foreign class - VOther - may be a tuple subclass of any length: namedtuples, struct_time ...)
    w.call_hooks[("fmt", "dt")] = lambda ex, v, ndir, st: z3.Or(z3.And(Val.is_VTuple(v.v), z3.Length(Val.titems(v.v)) != ndir),
                                                                 z3.And(Val.is_VOther(v.v), z3.FreshConst(z3.BoolSort(), "is_tuple_subclass"))) if v.ty == VAL else None

    def call_typetag(ex, callee, args, kwargs, st, sink, node):
        """type_(xs) / type_() for type_ in {tuple, set, frozenset}"""
        c = callee.v
        xs = args[0].v if args else z3.Empty(VSeq)
        for code, ctor, needs_hash in ((TAG["tuple"], Val.VTuple, False), (TAG["set"], Val.VSet, True), (TAG["frozenset"], Val.VFrozenSet, True)):
            s2 = st.fork().assume(c == code)
            if not ex.feasible(s2):
                continue
            if not needs_hash:
                yield s2, SV(VAL, ctor(xs))
                continue
            for s3, okh in ex.fork(s2, hashable_upto(xs, z3.Length(xs))):
                if okh:
                    yield s3, SV(VAL, ctor(mk_set_seq(xs)))
                else:
                    ex.raise_(s3, sink, "TypeError", origin="unhashable set member")

    w.call_hooks[("call", "typetag")] = call_typetag

    def setitem_dt(ex, base, idx, v, st, sink, node):
        c, k, val = base.v, core.coerce(idx, VAL).v, core.coerce(v, VAL).v
        res = []
        ok = setitem_ok(c, k)
        for s2, good in ex.fork(st, ok):
            if good:
                ex.write_back(s2, base.loc, SV(VAL, val_setitem(c, k, val)))
                res.append(s2)
            else:
                # list index out of range -> IndexError; anything else (non-container, unhashable key, bad index type) -> TypeError
                n = z3.Length(Val.litems(c))
                for s3, isidx in ex.fork(s2, z3.And(Val.is_VList(c), z3.Or(Val.is_VInt(k), Val.is_VBool(k)))):
                    ex.raise_(s3, sink, "IndexError" if isidx else "TypeError", origin="stack[-1][key] = value")
        return res

    w.call_hooks[("setitem", "dt")] = setitem_dt

    def del_slice(ex, tgt, st, sink):
        # del self.stack[-length:]
        import ast as _ast

        if not isinstance(tgt.slice, _ast.Slice) or tgt.slice.upper is not None or tgt.slice.step is not None:
            raise Unsupported("del of a non-suffix slice")
        for s2, base in ex.ev(tgt.value, st, sink):
            for s3, lo in ex.ev(tgt.slice.lower, s2, sink):
                from pyvc.symexec import py_clamp

                n = z3.Length(base.v)
                cut = py_clamp(core.coerce(lo, INT).v, n)
                ex.write_back(s3, base.loc, SV(base.ty, z3.SubSeq(base.v, 0, cut)))
                yield s3

    w.call_hooks[("del", "subscript")] = del_slice
    w.call_hooks[("dt", "truth")] = lambda ex, v: z3.BoolVal(True)

    def b_type_any(ex, args, kwargs, st, sink, node):
        (v,) = args
        if v.ty == VAL:
            yield st, SV(TYPETAG, type_of(v.v))
        else:
            yield st, core.fresh(TYPETAG, "type")

    w.externals["builtins.type"] = b_type_any

    # ---- contracts ----------------------------------------------------------------------------------
    MODU = lambda a, h: [("Unserializer", a.self, "stack"), ("BytesIO", h("Unserializer", a.self, "stream"), "unread")]
    P = {"self": REF("Unserializer")}
    REQ = lambda a, h: [("has-stream", h("Unserializer", a.self, "stream") != 0)]

    def consumed(h, h2, u, n):
        """exactly the next n bytes were consumed"""
        return z3.And(z3.Length(unread(h, u)) >= n, unread(h2, u) == z3.SubSeq(unread(h, u), n, z3.Length(unread(h, u)) - n))

    def short(h, u, n):
        return z3.Length(unread(h, u)) < n

    EOF_ = lambda when=None: Case("eof", "raise", "EOFError", when=when)
    LERR = lambda when=None: Case("corrupt", "raise", "LoadError", when=when)

    w.add(Contract(f"{GB}:Unserializer._read_exact", dict(P, numbytes=INT), requires=REQ, modifies=MODU,
                   cases=[Case("ok", restype=BYTES, when=lambda a, h: z3.And(a.numbytes >= 0, z3.Not(short(h, a.self, a.numbytes))),
                               post=lambda a, h, h2, r: [r == z3.SubSeq(unread(h, a.self), 0, a.numbytes), consumed(h, h2, a.self, a.numbytes), stack(h2, a.self) == stack(h, a.self)]),
                          EOF_(lambda a, h: z3.And(a.numbytes >= 0, short(h, a.self, a.numbytes))),
                          LERR(lambda a, h: a.numbytes < 0)], props=["C13", "C01"]))
    w.add(Contract(f"{GB}:Unserializer._read_int4", dict(P), requires=REQ, modifies=MODU,
                   cases=[Case("ok", restype=INT, when=lambda a, h: z3.Not(short(h, a.self, 4)),
                               post=lambda a, h, h2, r: [r == pb().unbe32(z3.SubSeq(unread(h, a.self), 0, 4)), consumed(h, h2, a.self, 4), stack(h2, a.self) == stack(h, a.self)]),
                          EOF_(lambda a, h: short(h, a.self, 4))], props=["C13", "C01"]))

    def bs_len(h, u):
        return pb().unbe32(z3.SubSeq(unread(h, u), 0, 4))

    def bs_ok(a, h):
        n = bs_len(h, a.self)
        return z3.And(z3.Not(short(h, a.self, 4)), n >= 0, z3.Length(unread(h, a.self)) >= 4 + n)

    w.add(Contract(f"{GB}:Unserializer._read_byte_string", dict(P), requires=REQ, modifies=MODU,
                   cases=[Case("ok", restype=BYTES, when=bs_ok,
                               post=lambda a, h, h2, r: [r == z3.SubSeq(unread(h, a.self), 4, bs_len(h, a.self)), consumed(h, h2, a.self, 4 + bs_len(h, a.self)), stack(h2, a.self) == stack(h, a.self)]),
                          EOF_(lambda a, h: z3.Or(short(h, a.self, 4), z3.And(bs_len(h, a.self) >= 0, z3.Length(unread(h, a.self)) < 4 + bs_len(h, a.self)))),
                          LERR(lambda a, h: z3.And(z3.Not(short(h, a.self, 4)), bs_len(h, a.self) < 0))], props=["C13", "C01"]))
    w.add(Contract(f"{GB}:Unserializer._decode_utf8", dict(P, as_bytes=BYTES),
                   cases=[Case("ok", restype=STR, when=lambda a, h: utf8_ok(a.as_bytes), post=lambda a, h, h2, r: [r == unutf8(a.as_bytes)]),
                          LERR(lambda a, h: z3.Not(utf8_ok(a.as_bytes)))], props=["C13", "C12"]))

    def pusher(name, nbytes_or_none, value, props=("C13", "C01"), extra_cases=(), ok_when=None):
        """loaders that read a fixed layout and push exactly one value"""
        def ok_post(a, h, h2, r):
            n, v = value(a, h)
            return [push(h, h2, a.self, v), consumed(h, h2, a.self, n)]

        cases = [Case("ok", when=ok_when, post=ok_post)] + list(extra_cases)
        w.add(Contract(f"{GB}:Unserializer.{name}", dict(P), requires=REQ, modifies=MODU, cases=cases, props=list(props)))

    zero = z3.IntVal(0)
    pusher("load_none", 0, lambda a, h: (zero, Val.VNone))
    pusher("load_true", 0, lambda a, h: (zero, Val.VBool(True)))
    pusher("load_false", 0, lambda a, h: (zero, Val.VBool(False)))
    pusher("load_newdict", 0, lambda a, h: (zero, Val.VDict(z3.Empty(VSeq), z3.Empty(VSeq))))
    pusher("load_int", 4, lambda a, h: (z3.IntVal(4), Val.VInt(bs_len(h, a.self))), ok_when=lambda a, h: z3.Not(short(h, a.self, 4)),
           extra_cases=[EOF_(lambda a, h: short(h, a.self, 4))])
    pusher("load_float", 8, lambda a, h: (z3.IntVal(8), Val.VFloat(pb().unbe64(z3.SubSeq(unread(h, a.self), 0, 8)))), ok_when=lambda a, h: z3.Not(short(h, a.self, 8)),
           extra_cases=[EOF_(lambda a, h: short(h, a.self, 8))])
    pusher("load_complex", 16, lambda a, h: (z3.IntVal(16), Val.VComplex(pb().unbe64(z3.SubSeq(unread(h, a.self), 0, 8)), pb().unbe64(z3.SubSeq(unread(h, a.self), 8, 8)))),
           ok_when=lambda a, h: z3.Not(short(h, a.self, 16)), extra_cases=[EOF_(lambda a, h: short(h, a.self, 16))])
    bs_eof = lambda a, h: z3.Or(short(h, a.self, 4), z3.And(bs_len(h, a.self) >= 0, z3.Length(unread(h, a.self)) < 4 + bs_len(h, a.self)))
    bs_neg = lambda a, h: z3.And(z3.Not(short(h, a.self, 4)), bs_len(h, a.self) < 0)
    payload = lambda a, h: z3.SubSeq(unread(h, a.self), 4, bs_len(h, a.self))
    pusher("load_bytes", None, lambda a, h: (4 + bs_len(h, a.self), Val.VBytes(payload(a, h))), ok_when=bs_ok, extra_cases=[EOF_(bs_eof), LERR(bs_neg)])
    pusher("load_longint", None, lambda a, h: (4 + bs_len(h, a.self), Val.VInt(undec(payload(a, h)))), ok_when=lambda a, h: z3.And(bs_ok(a, h), is_dec(payload(a, h))),
           extra_cases=[EOF_(bs_eof), LERR(lambda a, h: z3.Or(bs_neg(a, h), z3.And(bs_ok(a, h), z3.Not(is_dec(payload(a, h))))))])
    # string opcodes and the two coercion switches (C12): exactly as documented
    pusher("load_py3string", None,
           lambda a, h: (4 + bs_len(h, a.self), z3.If(h("Unserializer", a.self, "py3str_as_py2str"), Val.VBytes(payload(a, h)), Val.VStr(unutf8(payload(a, h))))),
           ok_when=lambda a, h: z3.And(bs_ok(a, h), z3.Or(h("Unserializer", a.self, "py3str_as_py2str"), utf8_ok(payload(a, h)))),
           extra_cases=[EOF_(bs_eof), LERR(lambda a, h: z3.Or(bs_neg(a, h), z3.And(bs_ok(a, h), z3.Not(h("Unserializer", a.self, "py3str_as_py2str")), z3.Not(utf8_ok(payload(a, h))))))],
           props=("C13", "C12", "C01"))
    pusher("load_py2string", None,
           lambda a, h: (4 + bs_len(h, a.self), z3.If(h("Unserializer", a.self, "py2str_as_py3str"), Val.VStr(pb().latin1(payload(a, h))), Val.VBytes(payload(a, h)))),
           ok_when=bs_ok, extra_cases=[EOF_(bs_eof), LERR(bs_neg)], props=("C13", "C12"))
    pusher("load_unicode", None, lambda a, h: (4 + bs_len(h, a.self), Val.VStr(unutf8(payload(a, h)))),
           ok_when=lambda a, h: z3.And(bs_ok(a, h), utf8_ok(payload(a, h))),
           extra_cases=[EOF_(bs_eof), LERR(lambda a, h: z3.Or(bs_neg(a, h), z3.And(bs_ok(a, h), z3.Not(utf8_ok(payload(a, h))))))], props=("C13", "C12"))
    pusher("load_newlist", 4, lambda a, h: (z3.IntVal(4), Val.VList(nones(bs_len(h, a.self)))), ok_when=lambda a, h: z3.Not(short(h, a.self, 4)),
           extra_cases=[EOF_(lambda a, h: short(h, a.self, 4))])

    # setitem: needs three stack entries; the container below key and value gets container[key] = value
    def setitem_post(a, h, h2, r):
        st = stack(h, a.self)
        n = z3.Length(st)
        return [stack(h2, a.self) == z3.Concat(z3.SubSeq(st, 0, n - 3), z3.Unit(val_setitem(st[n - 3], st[n - 2], st[n - 1]))), unread(h2, a.self) == unread(h, a.self)]

    def setitem_good(a, h):
        st = stack(h, a.self)
        n = z3.Length(st)
        return z3.And(n >= 3, setitem_ok(st[n - 3], st[n - 2]))

    w.add(Contract(f"{GB}:Unserializer.load_setitem", dict(P), requires=REQ, modifies=MODU,
                   cases=[Case("ok", when=setitem_good, post=setitem_post), LERR(lambda a, h: z3.Not(setitem_good(a, h)))], props=["C13", "C01"]))

    # collections: tuple/set/frozenset of the last `length` stack entries (all of them if there are fewer: the decoder is lenient)
    def coll_post(code):
        def post(a, h, h2, r):
            n = bs_len(h, a.self)
            st = stack(h, a.self)
            from pyvc.symexec import py_clamp

            lo = z3.If(n == 0, z3.Length(st), py_clamp(-n, z3.Length(st)))
            tk = z3.SubSeq(st, lo, z3.Length(st) - lo)          # the last n entries (all of them if there are fewer; none for n == 0)
            tag = z3.IntVal(code) if code is not None else a.type_
            built = z3.If(tag == TAG["tuple"], Val.VTuple(tk), z3.If(tag == TAG["set"], Val.VSet(mk_set_seq(tk)), Val.VFrozenSet(mk_set_seq(tk))))
            return [consumed(h, h2, a.self, 4), z3.Length(stack(h2, a.self)) >= 1,
                    z3.Implies(z3.And(n > 0, n <= z3.Length(st)), z3.Length(stack(h2, a.self)) == z3.Length(st) - n + 1),
                    z3.Implies(n == 0, z3.Length(stack(h2, a.self)) == z3.Length(st) + 1),
                    # whole view: everything below the taken entries is untouched, and exactly one value - of the requested type, built from exactly those entries in order - is on top
                    stack(h2, a.self) == z3.Concat(z3.SubSeq(st, 0, lo), z3.Unit(built))]
        return post

    def coll_contract(name, code, hashy):
        def taken(a, h):
            n = bs_len(h, a.self)
            st = stack(h, a.self)
            from pyvc.symexec import py_clamp

            lo = py_clamp(-n, z3.Length(st))
            return z3.SubSeq(st, lo, z3.Length(st) - lo)

        def good(a, h):
            n = bs_len(h, a.self)
            base = z3.Not(short(h, a.self, 4))
            if hashy:
                return z3.And(base, z3.Or(n == 0, hashable_upto(taken(a, h), z3.Length(taken(a, h)))))
            return base

        cases = [Case("ok", when=good, post=coll_post(code)), EOF_(lambda a, h: short(h, a.self, 4))]
        if hashy:
            cases.append(LERR(lambda a, h: z3.And(z3.Not(short(h, a.self, 4)), z3.Not(good(a, h)))))
        w.add(Contract(f"{GB}:Unserializer.{name}", dict(P), requires=REQ, modifies=MODU, cases=cases, props=["C13", "C01"]))

    coll_contract("load_buildtuple", TAG["tuple"], False)
    coll_contract("load_set", TAG["set"], True)
    coll_contract("load_frozenset", TAG["frozenset"], True)

    def lc_good(a, h):
        n = bs_len(h, a.self)
        st = stack(h, a.self)
        from pyvc.symexec import py_clamp

        lo = py_clamp(-n, z3.Length(st))
        tk = z3.SubSeq(st, lo, z3.Length(st) - lo)
        return z3.And(z3.Not(short(h, a.self, 4)), z3.Or(a.type_ == TAG["tuple"], n == 0, hashable_upto(tk, z3.Length(tk))))

    w.add(Contract(f"{GB}:Unserializer._load_collection", dict(P, type_=TYPETAG),
                   requires=lambda a, h: REQ(a, h) + [("one-of-tuple-set-frozenset", z3.Or(a.type_ == TAG["tuple"], a.type_ == TAG["set"], a.type_ == TAG["frozenset"]))],
                   modifies=MODU,
                   cases=[Case("ok", when=lc_good, post=coll_post(None)), EOF_(lambda a, h: short(h, a.self, 4)),
                          LERR(lambda a, h: z3.And(z3.Not(short(h, a.self, 4)), z3.Not(lc_good(a, h))))], props=["C13", "C01"]))
    w.add(Contract(f"{GB}:Unserializer.load_stop", dict(P), cases=[Case("stop", "raise", "_Stop")], props=["C13", "C01"]))

    # channels: only inside a gateway
    s.declare("ChannelFactory", "$newcalls", INT, ghost=True)
    w.add(Contract(f"{GB}:ChannelFactory.new", {"self": REF("ChannelFactory"), "id": OPT(INT)}, defaults={"id": None},
                   modifies=lambda a, h: [("ChannelFactory", a.self, "$newcalls")],
                   cases=[Case("ok", restype=REF("Channel"), post=lambda a, h, h2, r: [r != 0, z3.Implies(z3.Not(a.sv("id").v[0]), chan_id_of(r) == a.sv("id").v[1].v),
                                                                                      h2("ChannelFactory", a.self, "$newcalls") == h("ChannelFactory", a.self, "$newcalls") + 1]),
                          Case("finished", "raise", "OSError")], trusted=True, note="decided in C18"))
    w.add(Contract(f"{GB}:Unserializer.load_channel", dict(P), requires=REQ,
                   modifies=lambda a, h: MODU(a, h) + [("ChannelFactory", h("Unserializer", a.self, "channelfactory"), "$newcalls")],
                   cases=[Case("ok", when=lambda a, h: z3.And(z3.Not(short(h, a.self, 4)), h("Unserializer", a.self, "channelfactory") != 0),
                               post=lambda a, h, h2, r: [z3.Length(stack(h2, a.self)) == z3.Length(stack(h, a.self)) + 1, consumed(h, h2, a.self, 4),
                                                         Val.is_VChan(stack(h2, a.self)[z3.Length(stack(h, a.self))]),
                                                         Val.chanid(stack(h2, a.self)[z3.Length(stack(h, a.self))]) == bs_len(h, a.self)]),
                          EOF_(lambda a, h: short(h, a.self, 4)),
                          # outside a gateway: rejected, and no channel object is created (frame: $newcalls untouched)
                          Case("no-gateway", "raise", "LoadError", when=lambda a, h: z3.And(z3.Not(short(h, a.self, 4)), h("Unserializer", a.self, "channelfactory") == 0),
                               post=lambda a, h, h2, e: [stack(h2, a.self) == stack(h, a.self)]),
                          Case("connection-closed", "raise", "OSError", when=lambda a, h: h("Unserializer", a.self, "channelfactory") != 0)],
                   props=["C13", "C18"]))

    # ---- load(): total, typed errors only ---------------------------------------------------------------
    def load_post(a, h, h2, r):
        return []

    w.add(Contract(f"{GB}:Unserializer.load", dict(P, versioned=BOOL), defaults={"versioned": False}, requires=REQ,
                   modifies=lambda a, h: MODU(a, h) + [("ChannelFactory", h("Unserializer", a.self, "channelfactory"), "$newcalls")],
                   cases=[Case("value", restype=VAL, post=load_post), EOF_(), LERR(),
                          Case("connection-closed", "raise", "OSError", when=lambda a, h: h("Unserializer", a.self, "channelfactory") != 0)],
                   props=["C13", "C01"], probes=lambda a, h: {"data": unread(h, a.self)}))
    w.add_loop(LoopSpec(
        f"{GB}:Unserializer.load", 0,
        invariant=lambda L: [("same-stream", z3.And(L.h("Unserializer", L.inp("self"), "stream") == L.old("Unserializer", L.inp("self"), "stream"), L.self == L.inp("self"))),
                             ("same-factory", L.h("Unserializer", L.inp("self"), "channelfactory") == L.old("Unserializer", L.inp("self"), "channelfactory"))],
        variant=lambda L: z3.Length(unread(L.h, L.inp("self"))),   # every iteration consumes the opcode byte: termination
        havoc_cells=lambda L: [("Unserializer", L.inp("self"), "stack"), ("BytesIO", L.old("Unserializer", L.inp("self"), "stream"), "unread"),
                               ("ChannelFactory", L.old("Unserializer", L.inp("self"), "channelfactory"), "$newcalls")],
        props=["C13"]))
    return w


def pb():
    from pyvc import pybuiltins

    return pybuiltins


def ast_Name():
    import ast

    return ast.Name


decode_v = z3.Function("decode_v", S, B, B, B, B, Val)   # what the decoder returns for (data, versioned, py2str_as_py3str, py3str_as_py2str, inside a gateway)


def declare_toplevel(w):
    """Unserializer.__init__ (flag precedence), load/loads/loads_internal plumbing (C12, C13)."""
    s = w.schema
    s.declare("Channel", "gateway", REF("BaseGateway"))
    s.declare("Channel", "_strconfig", TUP(BOOL, BOOL))
    s.declare("BaseGateway", "_strconfig", TUP(BOOL, BOOL))
    s.declare("BaseGateway", "_channelfactory", REF("ChannelFactory"))
    STRCFG = OPT(TUP(BOOL, BOOL))

    def flags_post(f1, f2, cf):
        def post(a, h, h2, r):
            sc = a.sv("strconfig")
            given = z3.Not(sc.v[0])
            p2, p3 = f1(a, h, sc, given), f2(a, h, sc, given)
            return [h2("Unserializer", a.self, "stream") == a.stream,
                    h2("Unserializer", a.self, "py2str_as_py3str") == p2, h2("Unserializer", a.self, "py3str_as_py2str") == p3,
                    h2("Unserializer", a.self, "channelfactory") == cf(a, h)]
        return post

    MODI = lambda a, h: [("Unserializer", a.self, f) for f in ("stream", "py2str_as_py3str", "py3str_as_py2str", "channelfactory")]
    cls_default = (True, False)  # documented class defaults; the real ones are read from the class body at allocation
    w.add(Contract(f"{GB}:Unserializer.__init__", {"self": REF("Unserializer"), "stream": REF("BytesIO"), "channel_or_gateway": NONE, "strconfig": STRCFG},
                   defaults={"channel_or_gateway": None, "strconfig": None},
                   requires=lambda a, h: [("class-defaults", z3.And(h("Unserializer", a.self, "py2str_as_py3str") == cls_default[0], h("Unserializer", a.self, "py3str_as_py2str") == cls_default[1]))],
                   modifies=MODI,
                   cases=[Case("ok", post=flags_post(lambda a, h, sc, g: z3.If(g, sc.v[1].v[0].v, cls_default[0]), lambda a, h, sc, g: z3.If(g, sc.v[1].v[1].v, cls_default[1]), lambda a, h: 0))],
                   props=["C12", "C13"]), variant="none")
    w.add(Contract(f"{GB}:Unserializer.__init__", {"self": REF("Unserializer"), "stream": REF("BytesIO"), "channel_or_gateway": REF("Channel"), "strconfig": STRCFG},
                   defaults={"strconfig": None},
                   requires=lambda a, h: [("channel-not-none", a.channel_or_gateway != 0), ("channel-has-gateway", h("Channel", a.channel_or_gateway, "gateway") != 0)],
                   modifies=MODI,
                   cases=[Case("ok", post=flags_post(lambda a, h, sc, g: h.sv("Channel", a.channel_or_gateway, "_strconfig").v[0].v,
                                                     lambda a, h, sc, g: h.sv("Channel", a.channel_or_gateway, "_strconfig").v[1].v,
                                                     lambda a, h: h("BaseGateway", h("Channel", a.channel_or_gateway, "gateway"), "_channelfactory")))],
                   props=["C12", "C18"]), variant="channel")
    w.add(Contract(f"{GB}:Unserializer.__init__", {"self": REF("Unserializer"), "stream": REF("BytesIO"), "channel_or_gateway": REF("BaseGateway"), "strconfig": STRCFG},
                   defaults={"strconfig": None},
                   requires=lambda a, h: [("gateway-not-none", a.channel_or_gateway != 0)],
                   modifies=MODI,
                   cases=[Case("ok", post=flags_post(lambda a, h, sc, g: h.sv("BaseGateway", a.channel_or_gateway, "_strconfig").v[0].v,
                                                     lambda a, h, sc, g: h.sv("BaseGateway", a.channel_or_gateway, "_strconfig").v[1].v,
                                                     lambda a, h: h("BaseGateway", a.channel_or_gateway, "_channelfactory")))],
                   props=["C12", "C18"]), variant="gateway")

    # the decoder's result as a (deterministic) function of the data and the settings: assumed at call sites only
    ul = w.contracts[f"{GB}:Unserializer.load"]

    def unread(h, u):
        return h("BytesIO", h("Unserializer", u, "stream"), "unread")

    ul.cases[0].post_assume = lambda a, h, h2, r: [r == decode_v(unread(h, a.self), a.versioned, h("Unserializer", a.self, "py2str_as_py3str"),
                                                                 h("Unserializer", a.self, "py3str_as_py2str"), h("Unserializer", a.self, "channelfactory") != 0)]

    def toplevel(name, params, defaults, data, f1, f2, versioned):
        w.add(Contract(f"{GB}:{name}", params, defaults=defaults,
                       cases=[Case("value", restype=VAL, post=lambda a, h, h2, r: [r == decode_v(data(a, h), versioned, f1(a), f2(a), False)]),
                              Case("eof", "raise", "EOFError"), Case("corrupt", "raise", "LoadError")],
                       props=["C12", "C13"], allocates=False, probes=(lambda a, h: {"data": a.bytestring}) if "bytestring" in params else None))

    toplevel("loads", {"bytestring": BYTES, "py2str_as_py3str": BOOL, "py3str_as_py2str": BOOL}, {"py2str_as_py3str": False, "py3str_as_py2str": False},
             lambda a, h: a.bytestring, lambda a: a.py2str_as_py3str, lambda a: a.py3str_as_py2str, True)
    toplevel("load", {"io": REF("BytesIO"), "py2str_as_py3str": BOOL, "py3str_as_py2str": BOOL}, {"py2str_as_py3str": False, "py3str_as_py2str": False},
             lambda a, h: h("BytesIO", a.io, "unread"), lambda a: a.py2str_as_py3str, lambda a: a.py3str_as_py2str, True)
    # loads_internal(bytestring, channel-or-gateway-or-None, strconfig-or-None): an unversioned load whose switches come from the channel/gateway when one is
    # given, else from strconfig, else are the class defaults (the pair a collected channel's callback keeps is passed this way, C12)
    def li(variant, cgty, requires, f1, f2, inside):
        w.add(Contract(f"{GB}:loads_internal", {"bytestring": BYTES, "channelfactory": cgty, "strconfig": STRCFG}, defaults={"channelfactory": None, "strconfig": None},
                       requires=requires, modifies=lambda a, h: [("ChannelFactory", None, "$newcalls")],
                       cases=[Case("value", restype=VAL, post=lambda a, h, h2, r: [r == decode_v(a.bytestring, False, f1(a, h), f2(a, h), inside(a, h))]),
                              Case("eof", "raise", "EOFError"), Case("corrupt", "raise", "LoadError")] + (
                           [Case("connection-closed", "raise", "OSError")] if variant != "none" else []),   # a carried channel and a factory that has finished
                       props=["C12", "C13"], allocates=False), variant=variant)

    given = lambda a: z3.Not(a.sv("strconfig").v[0])
    li("none", NONE, None, lambda a, h: z3.If(given(a), a.sv("strconfig").v[1].v[0].v, cls_default[0]),
       lambda a, h: z3.If(given(a), a.sv("strconfig").v[1].v[1].v, cls_default[1]), lambda a, h: z3.BoolVal(False))
    li("channel", REF("Channel"), lambda a, h: [("channel-not-none", a.channelfactory != 0), ("channel-has-gateway", h("Channel", a.channelfactory, "gateway") != 0)],
       lambda a, h: h.sv("Channel", a.channelfactory, "_strconfig").v[0].v, lambda a, h: h.sv("Channel", a.channelfactory, "_strconfig").v[1].v,
       lambda a, h: h("BaseGateway", h("Channel", a.channelfactory, "gateway"), "_channelfactory") != 0)
    li("gateway", REF("BaseGateway"), lambda a, h: [("gateway-not-none", a.channelfactory != 0)],
       lambda a, h: h.sv("BaseGateway", a.channelfactory, "_strconfig").v[0].v, lambda a, h: h.sv("BaseGateway", a.channelfactory, "_strconfig").v[1].v,
       lambda a, h: h("BaseGateway", a.channelfactory, "_channelfactory") != 0)
    w.contracts[f"{GB}:loads"].modifies = lambda a, h: [("ChannelFactory", z3.IntVal(0), "$newcalls")]
    w.contracts[f"{GB}:load"].requires = lambda a, h: [("io-not-none", a.io != 0)]
    # consumes the stream; the ghost call counter of the (absent: null) channel factory is formally in the callee's frame
    w.contracts[f"{GB}:load"].modifies = lambda a, h: [("BytesIO", a.io, "unread"), ("ChannelFactory", z3.IntVal(0), "$newcalls")]
    return w
