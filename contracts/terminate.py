"""Timing and effect contracts on the termination paths (C11, C05).

A ghost clock (seconds) is advanced by the assumed contracts of blocking primitives: a wait with a numeric timeout
advances it by at most that timeout; a wait without timeout is *unbounded* (clock becomes arbitrary) unless the
contract states a readiness condition.  Non-blocking code costs epsilon, which is not counted (assumption).
"""
from __future__ import annotations

import struct

import z3

from pyvc import core
from pyvc.contracts import Case, Contract, LoopSpec
from pyvc.core import ANY, BOOL, BYTES, FLOAT, FUNCT, INT, NONE, NONEV, OPT, REF, SEQ, STR, SV, TUP, ExcV, U, Unsupported, mk_bool, mk_int, mk_str
from pyvc.symexec import ExternD, ModuleD

from .base import GB, GIO, GW, MULTI, slen

PROC = z3.IntVal(1)


def declare_clock(w):
    s = w.schema
    s.set_bases("Proc", ["object"])
    s.declare("Proc", "$clock", INT, ghost=True)          # elapsed seconds (upper bound)
    s.declare("Proc", "$unbounded", BOOL, ghost=True)     # a wait without any time bound happened
    s.declare("Proc", "$exited", BOOL, ghost=True)        # os._exit was called
    s.declare("Proc", "$sigint_sent", BOOL, ghost=True)

    def co_float(val, ty):
        if ty == INT and val.ty.kind == "float" and z3.is_int_value(z3.simplify(val.v)):
            bits = z3.simplify(val.v).as_long()
            f = struct.unpack("!d", bits.to_bytes(8, "big"))[0]
            if f == int(f):
                return SV(INT, z3.IntVal(int(f)))    # whole seconds (5.0, 10.0, 1.0)
        if isinstance(ty, core.OPT) and ty.inner == INT and val.ty.kind == "float":
            inner = co_float(val, INT)
            if inner is not None:
                return core.mk_opt_some(inner)
        return None

    co_float.__name__ = "co_float"
    core.COERCE_HOOKS[:] = [h for h in core.COERCE_HOOKS if getattr(h, "__name__", "") != "co_float"] + [co_float]
    return w


def clock(h):
    return h("Proc", PROC, "$clock")


def declare_worker_termination(w):
    """WorkerGateway._terminate_execution, serve (C11)."""
    declare_clock(w)
    s = w.schema
    s.declare("WorkerGateway", "_execpool", REF("WorkerPool"))
    s.declare("WorkerGateway", "_executetask_complete", REF("Event"))
    s.declare("WorkerPool", "$idle", BOOL, ghost=True)       # no accepted task is unfinished
    s.declare("WorkerPool", "_shuttingdown", BOOL)
    s.set_bases("WorkerGateway", ["BaseGateway", "object"])
    CLK = [("Proc", PROC, "$clock"), ("Proc", PROC, "$unbounded")]

    # C09: waitall(t) returns True only when nothing is unfinished; with a numeric timeout it takes at most t seconds
    def waitall_post(a, h, h2, r):
        t = a.sv("timeout")
        return [z3.Implies(r, h2("WorkerPool", a.self, "$idle")),
                z3.If(t.v[0], h2("Proc", PROC, "$unbounded"), z3.And(clock(h2) <= clock(h) + t.v[1].v, clock(h2) >= clock(h), h2("Proc", PROC, "$unbounded") == h("Proc", PROC, "$unbounded"))),
                z3.Implies(t.v[0], r)]

    w.add(Contract(f"{GB}:WorkerPool.waitall", {"self": REF("WorkerPool"), "timeout": OPT(INT)}, defaults={"timeout": None},
                   modifies=lambda a, h: CLK + [("WorkerPool", a.self, "$idle")], cases=[Case("ok", restype=BOOL, post=waitall_post)], trusted=True,
                   note="C09: waitall returns True only when no accepted task is unfinished; a timed wait takes at most its timeout; user tasks may never finish (havoc)"))
    w.add(Contract(f"{GB}:WorkerPool.trigger_shutdown", {"self": REF("WorkerPool")}, modifies=lambda a, h: [("WorkerPool", a.self, "_shuttingdown")],
                   cases=[Case("ok", post=lambda a, h, h2, r: [h2("WorkerPool", a.self, "_shuttingdown")])], trusted=True, note="C09"))

    def os_kill(ex, args, kwargs, st, sink, node):
        ex.set_field(st, SV(REF("Proc"), PROC), "$sigint_sent", mk_bool(True))
        yield st, NONEV

    def os_exit(ex, args, kwargs, st, sink, node):
        ex.set_field(st, SV(REF("Proc"), PROC), "$exited", mk_bool(True))
        e = ExcV("$ProcessExit", (), None, origin="os._exit")
        e.exact, e.excluded = True, ()
        sink.append((st, ("raise", e)))
        return
        yield

    w.schema.set_bases("$ProcessExit", [])
    w.externals.update({"os.kill": os_kill, "os._exit": os_exit, "os.getpid": lambda ex, args, kwargs, st, sink, node: iter([(st, core.fresh(INT, "pid"))])})
    if "builtins.interrupt_main" not in w.externals:
        w.attr_hooks[("module:" + GB, "interrupt_main")] = lambda ex, st, recv: SV(FUNCT, ExternD("interrupt_main"))

    def te_post(a, h, h2, r):
        pool = h("WorkerGateway", a.self, "_execpool")
        return [h2("WorkerPool", pool, "_shuttingdown"), h2("WorkerPool", pool, "$idle"),        # returns only with an idle execution pool ...
                clock(h2) <= clock(h) + 15, h2("Proc", PROC, "$unbounded") == h("Proc", PROC, "$unbounded")]   # ... within 5 + 10 seconds

    def te_exit_post(a, h, h2, e):
        return [h2("Proc", PROC, "$exited"), h2("Proc", PROC, "$sigint_sent"), clock(h2) <= clock(h) + 15, h2("Proc", PROC, "$unbounded") == h("Proc", PROC, "$unbounded")]

    TEMOD = lambda a, h: CLK + [("Proc", PROC, "$exited"), ("Proc", PROC, "$sigint_sent"), ("WorkerPool", h("WorkerGateway", a.self, "_execpool"), "_shuttingdown"),
                                ("WorkerPool", h("WorkerGateway", a.self, "_execpool"), "$idle")]
    w.add(Contract(f"{GB}:WorkerGateway._terminate_execution", {"self": REF("WorkerGateway")},
                   requires=lambda a, h: [("has-pool", h("WorkerGateway", a.self, "_execpool") != 0)], modifies=TEMOD,
                   cases=[Case("pool-idle", post=te_post), Case("process-exited", "raise", "$ProcessExit", post=te_exit_post)], props=["C11"]))
    return w


def declare_serve(w):
    """WorkerGateway.serve: every path returns (KeyboardInterrupt out of the primary loop or join is swallowed)."""
    s = w.schema
    s.declare("BaseGateway", "execmodel", REF("ExecModel"))
    s.declare("ExecModel", "backend", STR)
    s.declare("BaseGateway", "_receivepool", REF("WorkerPool"))
    s.declare("WorkerGateway", "$receiver_started", BOOL, ghost=True)
    s.set_bases("Event", ["object"])
    s.declare("Event", "$set", BOOL, ghost=True)
    THREAD, MTO = z3.StringVal("thread"), z3.StringVal("main_thread_only")
    CLK = [("Proc", PROC, "$clock"), ("Proc", PROC, "$unbounded")]
    w.add(Contract(f"{GB}:WorkerPool.__init__", {"self": REF("WorkerPool"), "execmodel": REF("ExecModel"), "hasprimary": BOOL}, defaults={"hasprimary": False},
                   modifies=lambda a, h: [("WorkerPool", a.self, "$hasprimary"), ("WorkerPool", a.self, "_shuttingdown")],
                   cases=[Case("ok", post=lambda a, h, h2, r: [h2("WorkerPool", a.self, "$hasprimary") == a.hasprimary, z3.Not(h2("WorkerPool", a.self, "_shuttingdown"))])], trusted=True, note="C09"))
    s.declare("WorkerPool", "$hasprimary", BOOL, ghost=True)
    w.add(Contract("model:ExecModel.Event", {"self": REF("ExecModel")}, cases=[Case("ok", restype=REF("Event"), post=lambda a, h, h2, r: [r != 0, z3.Not(h2("Event", r, "$set"))])], trusted=True, allocates=True))
    w.add(Contract("model:Event.set", {"self": REF("Event")}, modifies=lambda a, h: [("Event", a.self, "$set")], cases=[Case("ok", post=lambda a, h, h2, r: [h2("Event", a.self, "$set")])], trusted=True))
    w.add(Contract(f"{GB}:BaseGateway._initreceive", {"self": REF("BaseGateway")}, modifies=lambda a, h: [("WorkerGateway", a.self, "$receiver_started")],
                   cases=[Case("ok", post=lambda a, h, h2, r: [h2("WorkerGateway", a.self, "$receiver_started")])], trusted=True, note="spawns _thread_receiver in the receive pool (C09)"))
    # the integrated primary loop returns after shutdown once the current task ends (C09), or is interrupted by SIGINT (KeyboardInterrupt in the main thread)
    w.add(Contract(f"{GB}:WorkerPool.integrate_as_primary_thread", {"self": REF("WorkerPool")}, modifies=lambda a, h: CLK + [("WorkerPool", a.self, "_shuttingdown")],
                   cases=[Case("left-after-shutdown", post=lambda a, h, h2, r: [h2("WorkerPool", a.self, "_shuttingdown")]), Case("interrupted", "raise", "KeyboardInterrupt")],
                   trusted=True, note="C09"))
    w.add(Contract(f"{GB}:BaseGateway.join", {"self": REF("BaseGateway"), "timeout": OPT(INT)}, defaults={"timeout": None}, modifies=lambda a, h: CLK,
                   cases=[Case("ok"), Case("interrupted", "raise", "KeyboardInterrupt")], trusted=True, note="waitall on the receive pool: released when _thread_receiver returns (C09)"))

    def serve_post(a, h, h2, r):
        g = a.self
        be = h("ExecModel", h("BaseGateway", g, "execmodel"), "backend")
        pool = h2("WorkerGateway", g, "_execpool")
        ev = h2("WorkerGateway", g, "_executetask_complete")
        return [pool != 0, h2("WorkerPool", pool, "$hasprimary") == z3.Or(be == THREAD, be == MTO),       # the main thread integrates itself for thread and main_thread_only
                z3.If(be == MTO, z3.And(ev != 0), ev == 0), h2("WorkerGateway", g, "$receiver_started")]

    w.add(Contract(f"{GB}:WorkerGateway.serve", {"self": REF("WorkerGateway")},
                   requires=lambda a, h: [("has-model", h("BaseGateway", a.self, "execmodel") != 0)],
                   modifies=lambda a, h: CLK + [("WorkerGateway", a.self, f) for f in ("_execpool", "_executetask_complete", "$receiver_started")] + [("WorkerPool", None, "_shuttingdown"), ("WorkerPool", None, "$hasprimary"),
                                                                                                                                                     ("Event", None, "$set")],
                   cases=[Case("returns", post=serve_post)], props=["C11", "C14"], allocates=True))     # no exception escapes serve(): the worker process then exits

    # publication order: the receiver thread handles CHANNEL_EXEC as soon as it exists (a request may already wait in the pipe), and _local_schedulexec reads the
    # execution pool and - for main_thread_only - the completion event, which must be there and set ("no previous task") by then
    def at_initreceive(a, h0, call, hnow, loc=None):
        g = a.self
        be = h0("ExecModel", h0("BaseGateway", g, "execmodel"), "backend")
        pool, ev = hnow("WorkerGateway", g, "_execpool"), hnow("WorkerGateway", g, "_executetask_complete")
        return [("execution-pool-exists-before-the-receiver-thread-is-started", z3.Implies(call.self == g, z3.And(pool != 0, hnow("WorkerPool", pool, "$hasprimary") == z3.Or(be == THREAD, be == MTO)))),
                ("completion-event-created-and-set-before-the-receiver-thread-is-started",
                 z3.Implies(call.self == g, z3.If(be == MTO, z3.And(ev != 0, hnow("Event", ev, "$set")), ev == 0)))]

    w.contracts[f"{GB}:WorkerGateway.serve"].at_call = {f"{GB}:BaseGateway._initreceive": at_initreceive}
    return w
