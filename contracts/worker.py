"""Contracts for WorkerGateway: _local_schedulexec, executetask, _terminate_execution, serve (C14, C06, C11)."""
from __future__ import annotations

import z3

from pyvc import core
from pyvc.contracts import Case, Contract, LoopSpec
from pyvc.core import ANY, BOOL, BYTES, FUNCT, INT, NONE, NONEV, OPT, REF, SEQ, STR, SV, TUP, ExcV, Unsupported, mk_bool, mk_str
from pyvc.symexec import ExternD

from .base import GB, slen

MTO = z3.StringVal("main_thread_only")
THREAD = z3.StringVal("thread")
INTERRUPT_TEXT = z3.StringVal("keyboard-interrupted")
DEADLOCK_TEXT = z3.StringVal("concurrent remote_exec would cause deadlock for main_thread_only execmodel")
TASK = TUP(STR, OPT(STR), OPT(STR), ANY)


BODY_OUTCOME = {"Exception": 1, "KeyboardInterrupt": 2, "SystemExit": 3, "EOFError": 4}


def declare(w):
    """requires contracts.pool.declare(w) first (Event, ExecModel, WorkerPool)."""
    s = w.schema
    s.declare("Channel", "id", INT)
    s.declare("Channel", "_executing", BOOL)
    s.declare("Channel", "gateway", REF("BaseGateway"))
    s.declare("Channel", "$closecalls", INT, ghost=True)      # how often close() was called on it
    s.declare("Channel", "$closed_with", OPT(STR), ghost=True)  # the error text of the last close()
    s.declare("BaseGateway", "_channelfactory", REF("ChannelFactory"))
    s.declare("BaseGateway", "execmodel", REF("ExecModel"))
    s.declare("ChannelFactory", "finished", BOOL)
    s.declare("WorkerGateway", "_execpool", REF("WorkerPool"))
    s.declare("WorkerGateway", "_executetask_complete", REF("Event"))
    s.declare("WorkerGateway", "$spawned", SEQ(REF("Channel")), ghost=True)   # channels whose task was handed to the exec pool, in order
    ev_set = lambda h, e: h("Event", e, "$set")

    # Channel.close as seen by the worker: counts the call and records the error text (C03 decides the real one)
    def close_post(a, h, h2, r):
        return [h2("Channel", a.self, "$closecalls") == h("Channel", a.self, "$closecalls") + 1,
                core.eq_sv(h2.sv("Channel", a.self, "$closed_with"), a.sv("error"))]

    w.add(Contract(f"{GB}:Channel.close", {"self": REF("Channel"), "error": OPT(STR)}, defaults={"error": None},
                   modifies=lambda a, h: [("Channel", a.self, "$closecalls"), ("Channel", a.self, "$closed_with")],
                   cases=[Case("ok", when=lambda a, h: z3.Not(h("Channel", a.self, "_executing")), post=close_post),
                          Case("refused-inside-remote_exec", "raise", "OSError", when=lambda a, h: h("Channel", a.self, "_executing"),
                               post=lambda a, h, h2, e: [h2("Channel", a.self, "$closecalls") == h("Channel", a.self, "$closecalls")])],
                   trusted=True, note="Channel.close: refused with OSError while the channel's remote_exec body runs; sending failures are swallowed or raise OSError in C03"))

    # opaque pieces of executetask -----------------------------------------------------------------------
    def user_code(kind):
        def h_(ex, args, kwargs, st, sink, node):
            ok = st.fork()
            yield ok, core.fresh(ANY, kind)
            for cls, exact in (("Exception", False), ("KeyboardInterrupt", True), ("SystemExit", True), ("EOFError", True)):
                s2 = st.fork()
                e = ExcV(cls, (), None, origin=kind)
                e.exact, e.excluded = exact, (("EOFError",) if cls == "Exception" else ())
                if "self" in s2.locals and s2.locals["self"].ty == REF("WorkerGateway"):
                    ex.set_field(s2, s2.locals["self"], "$body_outcome", core.mk_int(BODY_OUTCOME[cls]))    # ghost: how the remote body ended
                sink.append((s2, ("raise", e)))
        return h_

    w.externals["builtins.compile"] = user_code("compile")
    w.externals["builtins.exec"] = user_code("exec of the remote source")
    w.call_hooks[("call", "any")] = lambda ex, callee, args, kwargs, st, sink, node: user_code("remote function")(ex, args, kwargs, st, sink, node)

    def star_call(ex, node, st, sink):
        for s2, callee in ex.ev(node.func, st, sink):
            if callee.ty.kind == "any":
                yield from user_code("remote function")(ex, [], {}, s2, sink, node)
            else:
                raise Unsupported(f"*args call of {callee.ty!r} at line {node.lineno}")

    w.call_hooks[("call", "star")] = star_call

    def dict_display(ex, node, st, sink):
        yield st, SV(ANY, z3.Const(core.fresh_name("namespace"), core.U))

    w.call_hooks[("display", "dict")] = dict_display

    def index_any(ex, base, idx, st, sink, node):
        ok = st.fork()
        yield ok, core.fresh(ANY, "item")
        s2 = st.fork()
        if "self" in s2.locals and s2.locals["self"].ty == REF("WorkerGateway"):
            ex.set_field(s2, s2.locals["self"], "$body_outcome", core.mk_int(BODY_OUTCOME["Exception"]))    # the named function is not in the namespace: a failure of the body
        ex.raise_(s2, sink, "KeyError", origin="namespace lookup")

    w.call_hooks[("index", "any")] = index_any
    w.attr_hooks[("BaseGateway", "_geterrortext")] = lambda ex, st, recv: SV(FUNCT, ExternD("geterrortext"))

    def geterrortext(ex, args, kwargs, st, sink, node):
        txt = core.fresh(STR, "errortext")
        if "self" in st.locals and st.locals["self"].ty == REF("WorkerGateway"):
            ex.set_field(st, st.locals["self"], "$errortext", txt)     # ghost: the formatted type/message/traceback of the exception
        yield st, txt

    w.externals["geterrortext"] = geterrortext
    s.declare("WorkerGateway", "$body_outcome", INT)
    s.declare("WorkerGateway", "$errortext", STR)

    # ---- executetask ----------------------------------------------------------------------------------------
    def chan(a):
        return a.sv("item").v[0].v

    def closed_once(a, h, h2):
        c = chan(a)
        return [h2("Channel", c, "$closecalls") == h("Channel", c, "$closecalls") + 1, z3.Not(h2("Channel", c, "_executing"))]

    def completion_signalled(a, h, h2):
        e = h("WorkerGateway", a.self, "_executetask_complete")
        return z3.Or(e == 0, ev_set(h2, e))   # whenever a body has finished - return, exception or interrupt - the completion event is set

    def error_reported(a, h, h2):
        """C07: a body that raised (anything but EOFError, which means "receiving finished", and KeyboardInterrupt, reported as interrupt) is reported to the
        peer: the channel is closed with the text _geterrortext made of the exception - unless the connection is gone; a body that returned is closed plainly"""
        c = chan(a)
        out, cw = h2("WorkerGateway", a.self, "$body_outcome"), h2.sv("Channel", c, "$closed_with")
        fin = h("ChannelFactory", h("BaseGateway", h("Channel", c, "gateway"), "_channelfactory"), "finished")
        raised = z3.Or(out == BODY_OUTCOME["Exception"], out == BODY_OUTCOME["SystemExit"])
        return [z3.Implies(z3.And(raised, z3.Not(fin)), core.eq_sv(cw, core.mk_opt_some(SV(STR, h2("WorkerGateway", a.self, "$errortext"))))),
                z3.Implies(z3.Or(out == 0, out == BODY_OUTCOME["EOFError"]), cw.v[0])]

    EMOD = lambda a, h: [("Channel", chan(a), f) for f in ("_executing", "$closecalls", "$closed_with")] + [("Event", h("WorkerGateway", a.self, "_executetask_complete"), "$set"),
                                                                                                         ("WorkerGateway", a.self, "$body_outcome"), ("WorkerGateway", a.self, "$errortext")]
    w.add(Contract(f"{GB}:WorkerGateway.executetask", {"self": REF("WorkerGateway"), "item": TUP(REF("Channel"), TASK)},
                   requires=lambda a, h: [("channel-not-none", chan(a) != 0), ("not-executing-yet", z3.Not(h("Channel", chan(a), "_executing"))),
                                          ("channel-has-gateway", z3.And(h("Channel", chan(a), "gateway") != 0, h("BaseGateway", h("Channel", chan(a), "gateway"), "_channelfactory") != 0)),
                                          ("ghost-no-body-outcome-yet", h("WorkerGateway", a.self, "$body_outcome") == 0)],
                   modifies=EMOD,
                   cases=[Case("finished", post=lambda a, h, h2, r: closed_once(a, h, h2) + [completion_signalled(a, h, h2)] + error_reported(a, h, h2)),
                          Case("interrupted", "raise", "KeyboardInterrupt",
                               post=lambda a, h, h2, e: closed_once(a, h, h2) + [completion_signalled(a, h, h2),
                                                                                  core.eq_sv(h2.sv("Channel", chan(a), "$closed_with"), mk_str(INTERRUPT_TEXT))])],
                   props=["C14", "C06", "C07"]))

    # ---- _local_schedulexec -----------------------------------------------------------------------------------
    # the decoded request (source, file name, call name, kwargs) is a function of the payload and of the string coercion pair it was decoded with; a request is always
    # decoded with the class defaults - the gateway's pair is for channel DATA (a reconfigured gateway would turn the source text into bytes)
    dsrc = z3.Function("dsrc", z3.StringSort(), z3.BoolSort(), z3.BoolSort(), z3.StringSort())
    s.declare("BaseGateway", "_strconfig", TUP(BOOL, BOOL))
    w.add(Contract(f"{GB}:loads_internal", {"bytestring": BYTES, "channelfactory": NONE, "strconfig": NONE}, defaults={"channelfactory": None, "strconfig": None},
                   cases=[Case("ok", restype=TASK, post=lambda a, h, h2, r: [r.v[0].v == dsrc(a.bytestring, z3.BoolVal(True), z3.BoolVal(False))]),
                          Case("corrupt", "raise", "LoadError"), Case("eof", "raise", "EOFError")], trusted=True,
                   note="decoding of the CHANNEL_EXEC payload (C01/C13)"), variant="none")
    w.add(Contract(f"{GB}:loads_internal", {"bytestring": BYTES, "channelfactory": REF("BaseGateway"), "strconfig": NONE}, defaults={"strconfig": None},
                   cases=[Case("ok", restype=TASK, post=lambda a, h, h2, r: [r.v[0].v == dsrc(a.bytestring, h.sv("BaseGateway", a.channelfactory, "_strconfig").v[0].v,
                                                                                        h.sv("BaseGateway", a.channelfactory, "_strconfig").v[1].v)]),
                          Case("corrupt", "raise", "LoadError"), Case("eof", "raise", "EOFError")], trusted=True,
                   note="decoding with a gateway given: that gateway's coercion pair applies (C12)"), variant="gateway")
    s.declare("WorkerGateway", "$spawned_src", SEQ(STR), ghost=True)     # the source text of every task handed to the pool

    def spawn_post(a, h, h2, r):
        return [h2("WorkerGateway", a.gw, "$spawned") == z3.Concat(h("WorkerGateway", a.gw, "$spawned"), z3.Unit(a.channel)),
                h2("WorkerGateway", a.gw, "$spawned_src") == z3.Concat(h("WorkerGateway", a.gw, "$spawned_src"), z3.Unit(a.source))]

    # the exec pool's spawn as seen from the gateway: the task is accepted (C09: it will run exactly once) or refused
    w.add(Contract("model:execpool.spawn", {"gw": REF("WorkerGateway"), "channel": REF("Channel"), "source": STR},
                   modifies=lambda a, h: [("WorkerGateway", a.gw, "$spawned"), ("WorkerGateway", a.gw, "$spawned_src")],
                   cases=[Case("accepted", post=spawn_post), Case("shutting-down", "raise", "ValueError")], trusted=True))

    def pool_spawn_hook(ex, d, args, kwargs, st, sink, node):
        raise Unsupported("unexpected")

    def execpool_spawn(ex, st, recv):
        return SV(FUNCT, ExternD("execpool.spawn", bound=recv))

    def execpool_spawn_call(ex, args, kwargs, st, sink, node):
        pool, func, targs = args
        gw = st.locals["self"]
        ch, task = targs.v[0], targs.v[1]
        if task.ty.kind != "tuple" or not task.v or task.v[0].ty.kind != "str":
            raise Unsupported("the task handed to the pool is not the decoded (source, file, call, kwargs) tuple")
        yield from ex.apply_contract(w.contracts["model:execpool.spawn"], [gw, ch, task.v[0]], {}, st, sink, node)

    w.externals["execpool.spawn"] = execpool_spawn_call
    w.attr_hooks[("WorkerPool", "spawn")] = execpool_spawn

    def sched_deadlock(a, h):
        e = h("WorkerGateway", a.self, "_executetask_complete")
        return z3.And(is_mto(a, h), z3.Not(ev_set(h, e)))

    def is_mto(a, h):
        return h("ExecModel", h("WorkerPool", h("WorkerGateway", a.self, "_execpool"), "execmodel"), "backend") == MTO

    def sched_post(a, h, h2, r):
        e = h("WorkerGateway", a.self, "_executetask_complete")
        spawned = z3.And(h2("WorkerGateway", a.self, "$spawned") == z3.Concat(h("WorkerGateway", a.self, "$spawned"), z3.Unit(a.channel)),
                         # the task is the request as sent: decoded with the class defaults, never with the gateway's (re)configured pair
                         h2("WorkerGateway", a.self, "$spawned_src") == z3.Concat(h("WorkerGateway", a.self, "$spawned_src"),
                                                                                  z3.Unit(dsrc(a.sourcetask, z3.BoolVal(True), z3.BoolVal(False)))))
        refused = z3.And(h2("WorkerGateway", a.self, "$spawned") == h("WorkerGateway", a.self, "$spawned"), h2("WorkerGateway", a.self, "$spawned_src") == h("WorkerGateway", a.self, "$spawned_src"),
                         h2("Channel", a.channel, "$closecalls") == h("Channel", a.channel, "$closecalls") + 1,
                         core.eq_sv(h2.sv("Channel", a.channel, "$closed_with"), mk_str(DEADLOCK_TEXT)))
        # main_thread_only: the wait may time out only if the completion event stayed unset; then the NEW channel, and nothing else,
        # is closed with the documented text and the event is left alone; otherwise the event is cleared and the task handed over
        return [z3.If(is_mto(a, h),
                      z3.Or(z3.And(refused, z3.Not(ev_set(h, e)), ev_set(h2, e) == ev_set(h, e)),
                            z3.And(spawned, z3.Not(ev_set(h2, e)), h2("Channel", a.channel, "$closecalls") == h("Channel", a.channel, "$closecalls"))),
                      z3.And(spawned, h2("Channel", a.channel, "$closecalls") == h("Channel", a.channel, "$closecalls")))]

    w.add(Contract(f"{GB}:WorkerGateway._local_schedulexec", {"self": REF("WorkerGateway"), "channel": REF("Channel"), "sourcetask": BYTES},
                   requires=lambda a, h: [("channel-not-none", a.channel != 0), ("not-executing", z3.Not(h("Channel", a.channel, "_executing"))),
                                          ("has-pool", z3.And(h("WorkerGateway", a.self, "_execpool") != 0, h("WorkerPool", h("WorkerGateway", a.self, "_execpool"), "execmodel") != 0)),
                                          ("inv-mto-has-completion-event", z3.Implies(is_mto(a, h), h("WorkerGateway", a.self, "_executetask_complete") != 0))],
                   modifies=lambda a, h: [("WorkerGateway", a.self, "$spawned"), ("WorkerGateway", a.self, "$spawned_src"), ("Event", h("WorkerGateway", a.self, "_executetask_complete"), "$set"),
                                          ("Channel", a.channel, "$closecalls"), ("Channel", a.channel, "$closed_with")],
                   cases=[Case("ok", post=sched_post),
                          Case("corrupt-task", "raise", "LoadError"), Case("truncated-task", "raise", "EOFError"), Case("pool-shutting-down", "raise", "ValueError")],
                   props=["C14", "C06"]))
    # publication order: the completion event is cleared ("main thread busy") BEFORE the task is handed to the pool - the main thread may run and finish the
    # task at once, and its set() must come after this clear(), or every later remote_exec is refused as a deadlock
    def at_spawn(a, h0, call, hnow, loc=None):
        e = h0("WorkerGateway", a.self, "_executetask_complete")
        return [("completion-event-cleared-before-the-task-is-handed-over", z3.Implies(z3.And(call.gw == a.self, is_mto(a, h0)), z3.Not(ev_set(hnow, e))))]

    w.contracts[f"{GB}:WorkerGateway._local_schedulexec"].at_call = {"model:execpool.spawn": at_spawn}
    # Event.wait(timeout=1) in _local_schedulexec: with a timeout the flag may still be unset on return
    return w
