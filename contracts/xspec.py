"""Contracts for XSpec (parse / print / eq / hash) and Group id management (C20)."""
from __future__ import annotations

import z3

from pyvc import core
from pyvc.contracts import Case, Contract, LoopSpec
from pyvc.core import ANY, BOOL, INT, MAP, NONE, NONEV, OPT, REF, SEQ, SETT, STR, SV, TUP, Unsupported, mk_bool, mk_str
from pyvc.pybuiltins import dec
from pyvc.symexec import FUNCT, ExternD

from .base import MULTI, XSPEC, prefix, slen, suffix

S = z3.StringSort()
XVAL = TUP(BOOL, STR)  # (is the bare-key True, text value)

split_len = z3.Function("split_len", S, z3.IntSort())          # len(s.split("//"))
split_item = z3.Function("split_item", S, z3.IntSort(), S)     # s.split("//")[i]
split2 = z3.Function("split2", S, z3.SeqSort(S))               # carrier term only; elements via split_item
strhash = z3.Function("strhash", S, z3.IntSort())

SEP = z3.StringVal("//")
EQ = z3.StringVal("=")
ENVP = z3.StringVal("env:")


def ax_split_item(t):
    s, i = t.arg(0), t.arg(1)
    n = split_len(s)
    return [n >= 1,
            z3.Implies(z3.And(i >= 0, i < n), z3.Not(z3.Contains(t, SEP))),
            # leftmost splitting: a non-final piece cannot end with '/' (else the separator would start one char earlier)
            z3.Implies(z3.And(i >= 0, i < n - 1), z3.Not(z3.SuffixOf(z3.StringVal("/"), t)))]


ax_split_item.names = ["split_item"]


def ax_split_len(t):
    return [t >= 1]


ax_split_len.names = ["split_len"]


def key_of(item):
    i = z3.IndexOf(item, EQ, 0)
    return z3.If(i < 0, item, prefix(item, i))


def bare_of(item):
    return z3.IndexOf(item, EQ, 0) < 0


def val_of(item):
    i = z3.IndexOf(item, EQ, 0)
    return z3.If(i < 0, z3.StringVal(""), suffix(item, i + 1))


def isenv(key):
    return z3.PrefixOf(ENVP, key)


def declare(w):
    s = w.schema
    s.declare("XSpec", "_spec", STR)
    s.declare("XSpec", "env", MAP(STR, XVAL))
    s.declare("XSpec", "$attr", MAP(STR, XVAL))     # instance attributes set through setattr()
    s.declare("XSpec", "$keys", SETT(STR))          # key set of the instance __dict__
    w.axiom_providers.extend([ax_split_item, ax_split_len])

    def co(val, ty):
        if ty == XVAL and val.ty.kind == "str":
            return SV(XVAL, (mk_bool(False), val))
        if ty == XVAL and val.ty.kind == "bool":
            return SV(XVAL, (val, mk_str("")))
        return None

    if co not in core.COERCE_HOOKS:
        core.COERCE_HOOKS[:] = [h for h in core.COERCE_HOOKS if getattr(h, "__name__", "") != "co"] + [co]

    # a spec value is `True` (bare key) or a text: the pair's truth is that value's truth (the empty text is falsy)
    w.call_hooks[("truth", "tuple")] = lambda ex, v, st: z3.Or(v.v[0].v, slen(v.v[1].v) > 0) if v.ty == XVAL else None

    # --- python-level plumbing of the XSpec object model -----------------------
    def xspec_setattr(ex, recv, attr, v, st, sink):
        keys = st.heap.get(recv, "$keys")
        if attr == "_spec":
            ex.set_field(st, recv, "_spec", v)
        elif attr == "env":
            ex.set_field(st, recv, "env", v)
        else:
            am = st.heap.get(recv, "$attr")
            val = core.coerce(v, XVAL)
            k = z3.StringVal(attr)
            ex.set_field(st, recv, "$attr", SV(am.ty, (z3.Store(am.v[0], k, True), [z3.Store(a, k, t) for a, t in zip(am.v[1], val.flat())])))
        ex.set_field(st, recv, "$keys", SV(keys.ty, z3.Store(keys.v, z3.StringVal(attr), True)))
        return [st]

    w.call_hooks[("setattr", "ref:XSpec")] = xspec_setattr

    def b_setattr(ex, args, kwargs, st, sink, node):
        obj, name, v = args
        if obj.ty.kind != "ref" or obj.ty.cls != "XSpec":
            raise Unsupported("setattr on a non-XSpec object")
        am = st.heap.get(obj, "$attr")
        keys = st.heap.get(obj, "$keys")
        val = core.coerce(v, XVAL)
        ex.set_field(st, obj, "$attr", SV(am.ty, (z3.Store(am.v[0], name.v, True), [z3.Store(a, name.v, t) for a, t in zip(am.v[1], val.flat())])))
        ex.set_field(st, obj, "$keys", SV(keys.ty, z3.Store(keys.v, name.v, True)))
        yield st, NONEV

    w.externals["builtins.setattr"] = b_setattr
    w.attr_hooks[("XSpec", "__dict__")] = lambda ex, st, recv: st.heap.get(recv, "$keys")

    def empty_dict(ex, node, st, sink):
        if node.keys:
            raise Unsupported("non-empty dict display")
        yield st, SV(MAP(STR, XVAL), (z3.K(S, z3.BoolVal(False)), [z3.K(S, z3.BoolVal(False)), z3.K(S, z3.StringVal(""))]))

    w.call_hooks[("display", "dict")] = empty_dict

    wssplit = z3.Function("wssplit", z3.StringSort(), z3.SeqSort(z3.StringSort()))      # s.split(): the whitespace-separated words (a function of s; nothing else is used)

    def m_split(ex, d, args, kwargs, st, sink, node):
        if not args and not kwargs:
            yield st, SV(SEQ(STR), wssplit(d.recv.v))
            return
        sep = z3.simplify(args[0].v)
        if not (z3.is_string_value(sep) and sep.as_string() == "//"):
            raise Unsupported("str.split with a separator other than '//'")
        yield st, SV(SEQ(STR), split2(d.recv.v))

    w.call_hooks[("str", "split")] = m_split

    def iter_seq(ex, it, st):
        t = it.v
        if z3.is_app(t) and t.decl().name() == "split2":
            s0 = t.arg(0)
            return split_len(s0), (lambda i: SV(STR, split_item(s0, i)))
        return z3.Length(t), (lambda i: core.unflat(it.ty.elem, [t[i]]))

    w.call_hooks[("iter", "seq")] = iter_seq

    # --- XSpec.__init__ -----------------------------------------------------------
    J, J1, J2 = z3.Int("J"), z3.Int("J1"), z3.Int("J2")

    def item(string, j):
        return split_item(string, j)

    def stored(h, self, string, j):
        it = item(string, j)
        k, bare, v = key_of(it), bare_of(it), val_of(it)
        env = h.sv("XSpec", self, "env")
        att = h.sv("XSpec", self, "$attr")
        keys = h("XSpec", self, "$keys")
        ek = suffix(k, 4)
        in_env = z3.And(z3.Select(env.v[0], ek), z3.Select(env.v[1][0], ek) == bare, z3.Implies(z3.Not(bare), z3.Select(env.v[1][1], ek) == v))
        in_att = z3.And(z3.Select(att.v[0], k), z3.Select(att.v[1][0], k) == bare, z3.Implies(z3.Not(bare), z3.Select(att.v[1][1], k) == v), z3.Select(keys, k))
        return z3.If(isenv(k), in_env, in_att)

    # Universally quantified facts are carried for two arbitrary but fixed indices J1, J2 (free constants):
    # proving init/preservation for free J1, J2 proves them for every pair, by induction per pair, and keeps
    # every obligation quantifier-free, so a broken step yields a concrete counter-model.
    def parsed_upto(h, self, string, k):
        return z3.And(*[z3.Implies(z3.And(j >= 0, j < k), stored(h, self, string, j)) for j in (J1, J2)])

    def distinct_upto(string, k):
        return z3.Implies(z3.And(J1 >= 0, J1 < J2, J2 < k), key_of(item(string, J1)) != key_of(item(string, J2)))

    def init_post(a, h, h2, r):
        n = split_len(a.string)
        return [h2("XSpec", a.self, "_spec") == a.string, parsed_upto(h2, a.self, a.string, n), distinct_upto(a.string, n)]

    w.add(Contract(
        f"{XSPEC}:XSpec.__init__", {"self": REF("XSpec"), "string": STR},
        modifies=lambda a, h: [("XSpec", a.self, f) for f in ("_spec", "env", "$attr", "$keys")],
        cases=[Case("parsed", post=init_post),
               Case("duplicate", "raise", "ValueError"),
               Case("underscore-key", "raise", "AttributeError"),
               Case("empty-key", "raise", "IndexError")],
        props=["C20"], probes=lambda a, h: {"string": a.string, "J1": J1, "J2": J2, "n": split_len(a.string),
                                             "item1": split_item(a.string, J1), "item2": split_item(a.string, J2)}))
    w.add_loop(LoopSpec(
        f"{XSPEC}:XSpec.__init__", 0,
        invariant=lambda L: [
            ("spec-kept", L.h("XSpec", L.inp("self"), "_spec") == L.inp("string")),
            ("reserved-names-present", z3.And(z3.Select(L.h("XSpec", L.inp("self"), "$keys"), z3.StringVal("_spec")),
                                              z3.Select(L.h("XSpec", L.inp("self"), "$keys"), z3.StringVal("env")))),
            ("items-so-far-stored", parsed_upto(L.h, L.inp("self"), L.inp("string"), L.k)),
            ("keys-so-far-distinct", distinct_upto(L.inp("string"), L.k)),
            ("params", z3.And(L.string == L.inp("string"), L.self == L.inp("self"))),
        ],
        havoc_cells=lambda L: [("XSpec", L.inp("self"), f) for f in ("env", "$attr", "$keys")], props=["C20"]))

    # --- small methods ------------------------------------------------------------
    w.add(Contract(f"{XSPEC}:XSpec.__getattr__", {"self": REF("XSpec"), "name": STR},
                   cases=[Case("absent", when=lambda a, h: z3.And(slen(a.name) > 0, z3.Not(z3.PrefixOf(z3.StringVal("_"), a.name))), restype=NONE),
                          Case("private", "raise", "AttributeError", when=lambda a, h: z3.PrefixOf(z3.StringVal("_"), a.name)),
                          Case("empty", "raise", "IndexError", when=lambda a, h: slen(a.name) == 0)], props=["C20"]))
    w.add(Contract(f"{XSPEC}:XSpec.__str__", {"self": REF("XSpec")},
                   cases=[Case("ok", restype=STR, post=lambda a, h, h2, r: [r == h("XSpec", a.self, "_spec")])], props=["C20"]))
    w.add(Contract(f"{XSPEC}:XSpec.__hash__", {"self": REF("XSpec")},
                   cases=[Case("ok", restype=INT, post=lambda a, h, h2, r: [r == strhash(h("XSpec", a.self, "_spec"))])], props=["C20"]))
    w.externals["builtins.hash"] = lambda ex, args, kwargs, st, sink, node: iter([(st, SV(INT, strhash(args[0].v)))]) if args[0].ty.kind == "str" else (_ for _ in ()).throw(Unsupported("hash of non-str"))

    def getattr_spec(ex, args, st, sink, node):
        obj, name, default = args
        if obj.ty.kind == "ref" and obj.ty.cls == "XSpec":
            for s2, isnull in ex.fork(st, obj.v == 0):
                if isnull:
                    yield s2, default
                else:
                    yield s2, core.mk_opt_some(s2.heap.get(obj, "_spec")) if False else s2.heap.get(obj, "_spec")
            return
        raise Unsupported("getattr(_spec) on a non-XSpec")

    w.call_hooks[("getattr", "ref:XSpec._spec")] = getattr_spec
    for name, neg in (("__eq__", False), ("__ne__", True)):
        w.add(Contract(
            f"{XSPEC}:XSpec.{name}", {"self": REF("XSpec"), "other": REF("XSpec")},
            cases=[Case("ok", restype=BOOL, post=(lambda neg: lambda a, h, h2, r: [
                r == z3.Xor(z3.BoolVal(neg), z3.And(a.other != 0, h("XSpec", a.self, "_spec") == h("XSpec", a.other, "_spec")))])(neg))],
            props=["C20"], note="other is an XSpec or None (an object without _spec behaves like None)"))
    declare_group(w)
    return w


# ======================================================================================
# Group: ids of member gateways stay unique; lookup by id / index / membership agree
# ======================================================================================
def declare_group(w):
    s = w.schema
    s.declare("Group", "_gateways", SEQ(REF("Gateway")))
    s.declare("Group", "_gateways_to_join", SEQ(REF("Gateway")))
    s.declare("Group", "_autoidcounter", INT)
    s.declare("Group", "_autoidlock", REF("Lock"))
    s.declare("Gateway", "id", STR)
    s.declare("Gateway", "$has_group", BOOL, ghost=True)
    s.declare("Gateway", "_group", REF("Group"))
    s.set_bases("Lock", ["object"])
    G1, G2 = z3.Int("G1"), z3.Int("G2")
    Jg = z3.Int("Jg")

    def gws(h, g):
        return h("Group", g, "_gateways")

    def gid(h, gw):
        return h("Gateway", gw, "id")

    def distinct_ids(h, g):
        """class invariant of Group, for two arbitrary fixed positions G1 < G2: members are non-null, distinct objects with distinct ids"""
        L = gws(h, g)
        return z3.Implies(z3.And(G1 >= 0, G1 < G2, G2 < slen(L)), z3.And(gid(h, L[G1]) != gid(h, L[G2]), L[G1] != L[G2]))

    def distinct_ids_all(h, g):
        L = gws(h, g)
        a, b = z3.Int("qa"), z3.Int("qb")
        return z3.ForAll([a, b], z3.Implies(z3.And(a >= 0, a < b, b < slen(L)), z3.And(gid(h, L[a]) != gid(h, L[b]), L[a] != L[b])),
                         patterns=[z3.MultiPattern(L[a], L[b])])

    def members_nonnull(h, g):
        L = gws(h, g)
        return z3.Implies(z3.And(Jg >= 0, Jg < slen(L)), L[Jg] != 0)

    def members_nonnull_all(h, g):
        L = gws(h, g)
        q = z3.Int("qn")
        return z3.ForAll([q], z3.Implies(z3.And(q >= 0, q < slen(L)), L[q] != 0), patterns=[L[q]])

    w.group_inv = (distinct_ids, distinct_ids_all, members_nonnull, members_nonnull_all)

    def trig(h, g):
        L = gws(h, g)
        return z3.And(L[G1] == L[G1], L[G2] == L[G2], L[Jg] == L[Jg])

    # ---- __getitem__ : three argument kinds ------------------------------------------
    def first_match_post(a, h, h2, r):
        L = gws(h, a.self)
        return [z3.Contains(L, z3.Unit(r)), r != 0, gid(h, r) == a.key]

    def no_match_post(a, h, h2, e):
        L = gws(h, a.self)
        return [z3.Implies(z3.And(Jg >= 0, Jg < slen(L)), gid(h, L[Jg]) != a.key)]

    def no_match_all(a, h, h2, e):
        L = gws(h, a.self)
        q = z3.Int("qk")
        return [z3.ForAll([q], z3.Implies(z3.And(q >= 0, q < slen(L)), gid(h, L[q]) != a.key), patterns=[L[q]])]

    w.add(Contract(
        f"{MULTI}:Group.__getitem__", {"self": REF("Group"), "key": STR},
        requires=lambda a, h: [("members-nonnull", members_nonnull_all(h, a.self))],
        cases=[Case("found", restype=REF("Gateway"), post=first_match_post),
               Case("missing", "raise", "KeyError", post=no_match_post, post_assume=no_match_all)],
        props=["C20"]), variant="id")
    w.add_loop(LoopSpec(
        f"{MULTI}:Group.__getitem__", 0,
        invariant=lambda L: [("none-matched-so-far", z3.Implies(z3.And(Jg >= 0, Jg < L.k), gid(L.h, gws(L.h, L.inp("self"))[Jg]) != L.inp("key"))),
                             ("params", z3.And(L.self == L.inp("self"), eq_any(L.sv("key"), L.ex.inputs["key"])))],
        props=["C20"]))
    w.add(Contract(
        f"{MULTI}:Group.__getitem__", {"self": REF("Group"), "key": INT},
        cases=[Case("index", restype=REF("Gateway"), when=lambda a, h: z3.And(a.key >= -slen(gws(h, a.self)), a.key < slen(gws(h, a.self))),
                    post=lambda a, h, h2, r: [r == gws(h, a.self)[z3.If(a.key < 0, a.key + slen(gws(h, a.self)), a.key)]]),
               Case("out-of-range", "raise", "IndexError", when=lambda a, h: z3.Not(z3.And(a.key >= -slen(gws(h, a.self)), a.key < slen(gws(h, a.self)))))],
        props=["C20"]), variant="index")

    # ---- __contains__ / __len__ / __iter__ -------------------------------------------------
    def contains_post(a, h, h2, r):
        L = gws(h, a.self)
        return [z3.Implies(z3.Not(r), z3.Implies(z3.And(Jg >= 0, Jg < slen(L)), gid(h, L[Jg]) != a.key))]

    def contains_all(a, h, h2, r):
        L = gws(h, a.self)
        q, e = z3.Int("qc"), z3.Int(core.fresh_name("wit"))
        return [z3.Implies(z3.Not(r), z3.ForAll([q], z3.Implies(z3.And(q >= 0, q < slen(L)), gid(h, L[q]) != a.key), patterns=[L[q]])),
                z3.Implies(r, z3.And(e >= 0, e < slen(L), gid(h, L[e]) == a.key))]

    w.add(Contract(
        f"{MULTI}:Group.__contains__", {"self": REF("Group"), "key": STR},
        requires=lambda a, h: [("members-nonnull", members_nonnull_all(h, a.self))],
        cases=[Case("ok", restype=BOOL, post=contains_post, post_assume=contains_all)], props=["C20"]))
    w.add(Contract(f"{MULTI}:Group.__len__", {"self": REF("Group")},
                   cases=[Case("ok", restype=INT, post=lambda a, h, h2, r: [r == slen(gws(h, a.self))])], props=["C20"]))

    # ---- __iter__: an iterator over a SNAPSHOT of the member list (callers exit/unregister members while they iterate: Group.terminate, C05) ---------------
    s.declare("ListIter", "$seq", SEQ(REF("Gateway")), ghost=True)     # what the iterator will yield if nobody touches the list
    s.declare("ListIter", "$live", BOOL, ghost=True)                   # it walks the group's own list object (removals during the walk make it skip members)
    s.set_bases("ListIter", ["object"])

    def b_list(ex, args, kwargs, st, sink, node):
        (v,) = args
        if v.ty.kind != "seq" or kwargs:
            raise Unsupported(f"list({v.ty!r})")
        yield st, SV(v.ty, v.v)           # a new list object with the same elements

    def b_iter(ex, args, kwargs, st, sink, node):
        (v,) = args
        if v.ty != SEQ(REF("Gateway")) or kwargs:
            raise Unsupported(f"iter({v.ty!r})")
        r = ex.allocate(st, "ListIter")
        ex.set_field(st, r, "$seq", SV(v.ty, v.v))
        ex.set_field(st, r, "$live", mk_bool(v.loc is not None and v.loc[0] == "field"))
        yield st, r

    w.externals["builtins.list"] = b_list
    w.externals["builtins.iter"] = b_iter
    w.add(Contract(f"{MULTI}:Group.__iter__", {"self": REF("Group")},
                   cases=[Case("ok", restype=REF("ListIter"), post=lambda a, h, h2, r: [r != 0, h2("ListIter", r, "$seq") == gws(h, a.self), z3.Not(h2("ListIter", r, "$live"))])],
                   props=["C20", "C05"], allocates=True))

    # ---- allocate_id ----------------------------------------------------------------------
    GW = z3.StringVal("gw")
    ID = z3.StringVal("id")

    def spec_id_none(h, spec):
        att = h.sv("XSpec", spec, "$attr")
        return z3.Not(z3.Select(att.v[0], ID))

    def alloc_post(a, h, h2, r):
        c = h("Group", a.self, "_autoidcounter")
        att, att2 = h.sv("XSpec", a.spec, "$attr"), h2.sv("XSpec", a.spec, "$attr")
        new_id = z3.Concat(GW, dec(c))
        L = gws(h, a.self)
        # nothing but the id of the spec is touched (makegateway goes on reading the other keys)
        others_kept = z3.If(spec_id_none(h, a.spec),
                            z3.And(att2.v[0] == z3.Store(att.v[0], ID, True), att2.v[1][0] == z3.Store(att.v[1][0], ID, False), att2.v[1][1] == z3.Store(att.v[1][1], ID, new_id)),
                            core.eq_sv(att2, att))
        return [others_kept,
                z3.If(spec_id_none(h, a.spec),
                      z3.And(h2("Group", a.self, "_autoidcounter") == c + 1,            # counter strictly increases
                             z3.Select(att2.v[0], ID), z3.Not(z3.Select(att2.v[1][0], ID)), z3.Select(att2.v[1][1], ID) == new_id,
                             z3.Implies(z3.And(Jg >= 0, Jg < slen(L)), gid(h, L[Jg]) != new_id)),    # not the id of a current member
                      z3.And(h2("Group", a.self, "_autoidcounter") == c, z3.Select(att2.v[0], ID)))]

    # C05: a taken explicit id is refused here, i.e. BEFORE makegateway creates the interpreter process (the auto-id branch as above)
    def explicit(h, spec):
        att = h.sv("XSpec", spec, "$attr")
        return z3.And(z3.Select(att.v[0], ID), z3.Not(z3.Select(att.v[1][0], ID)))

    def explicit_id(h, spec):
        return z3.Select(h.sv("XSpec", spec, "$attr").v[1][1], ID)

    def taken(a, h):
        L = gws(h, a.self)
        q = z3.Int("qt")
        return z3.And(explicit(h, a.spec), z3.Exists([q], z3.And(q >= 0, q < slen(L), gid(h, L[q]) == explicit_id(h, a.spec))))

    def id_fresh_all(a, h, h2):
        """the two Jg-clauses of the postcondition, for every position (the body is verified for an arbitrary Jg)"""
        q = z3.Int("q_fr")
        L = gws(h, a.self)
        the_id = z3.Select(h2.sv("XSpec", a.spec, "$attr").v[1][1], ID)
        return z3.Implies(z3.Or(spec_id_none(h, a.spec), explicit(h, a.spec)), z3.ForAll([q], z3.Implies(z3.And(q >= 0, q < slen(L)), gid(h, L[q]) != the_id), patterns=[L[q]]))

    def alloc_explicit_post(a, h, h2, r):
        L = gws(h, a.self)
        return alloc_post(a, h, h2, r) + [z3.Implies(z3.And(explicit(h, a.spec), Jg >= 0, Jg < slen(L)), gid(h, L[Jg]) != explicit_id(h, a.spec)),
                                          z3.Implies(explicit(h, a.spec), slen(explicit_id(h, a.spec)) > 0)]      # an accepted id is not empty (_register asserts it - after the process exists)

    w.add(Contract(
        f"{MULTI}:Group.allocate_id", {"self": REF("Group"), "spec": REF("XSpec")},
        requires=lambda a, h: [("spec-not-none", a.spec != 0), ("lock-exists", h("Group", a.self, "_autoidlock") != 0), ("members-nonnull", members_nonnull_all(h, a.self))],
        linearize_at_lock=True,
        modifies=lambda a, h: [("Group", a.self, "_autoidcounter"), ("XSpec", a.spec, "$attr"), ("XSpec", a.spec, "$keys")],
        cases=[Case("ok", post=alloc_explicit_post, post_assume=lambda a, h, h2, r: alloc_explicit_post(a, h, h2, r) + [id_fresh_all(a, h, h2)]),
               Case("taken", "raise", "ValueError", when=lambda a, h: z3.Or(spec_id_none(h, a.spec), taken(a, h), z3.And(explicit(h, a.spec), slen(explicit_id(h, a.spec)) == 0)),
                    post=lambda a, h, h2, e: [z3.Implies(z3.Not(spec_id_none(h, a.spec)), h2("Group", a.self, "_autoidcounter") == h("Group", a.self, "_autoidcounter"))])],
        props=["C20", "C05"]))

    # XSpec attribute reads that go through __dict__ / class default / __getattr__: spec.id
    def spec_attr_read(name):
        def hook(ex, st, recv):
            att = st.heap.get(recv, "$attr")
            k = z3.StringVal(name)
            pres = z3.Select(att.v[0], k)
            bare = z3.Select(att.v[1][0], k)
            txt = z3.Select(att.v[1][1], k)
            for s2, p in ex.fork(st, pres):
                if not p:
                    yield s2, NONEV
                else:
                    for s3, b in ex.fork(s2, bare):
                        yield s3, (mk_bool(True) if b else SV(STR, txt))
        return hook

    for nm in ("id", "via", "popen", "ssh", "socket", "python", "chdir", "nice", "execmodel", "installvia", "vagrant_ssh", "ssh_config", "dont_write_bytecode"):
        w.attr_hooks[("XSpec", nm)] = spec_attr_read(nm)

    # monitor of _autoidlock: protects the id counter and the member list (check-then-append must be atomic)
    from pyvc.contracts import Monitor

    w.add_monitor(Monitor("Group", "_autoidlock", ["_autoidcounter", "_gateways"],
                          invariant=lambda h, g: [("distinct-ids", z3.And(trig(h, g), distinct_ids(h, g))), ("members-nonnull", members_nonnull(h, g))],
                          invariant_assume=lambda h, g: [("distinct-ids", distinct_ids(h, g)), ("members-nonnull", members_nonnull(h, g)),
                                                         ("members-nonnull-all", members_nonnull_all(h, g)), ("distinct-ids-all", distinct_ids_all(h, g))],
                          props=["C20"]))

    # ---- _register / _unregister ---------------------------------------------------------------
    def reg_ok(a, h):
        return z3.And(z3.Not(h("Gateway", a.gateway, "$has_group")), slen(gid(h, a.gateway)) > 0)

    def reg_post(a, h, h2, r):
        L = gws(h, a.self)
        trig = z3.And(L[G1] == L[G1], L[G2] == L[G2], L[Jg] == L[Jg])  # exposes the index terms the quantified hypotheses are instantiated at
        return [gws(h2, a.self) == z3.Concat(L, z3.Unit(a.gateway)), h2("Gateway", a.gateway, "_group") == a.self,
                h2("Gateway", a.gateway, "$has_group"), gid(h2, a.gateway) == gid(h, a.gateway),
                z3.And(trig, distinct_ids(h2, a.self)), members_nonnull(h2, a.self)]

    w.attr_hooks[("Gateway", "_group")] = None
    del w.attr_hooks[("Gateway", "_group")]

    def has_group(ex, obj, default, st, sink):
        yield st, mk_bool(st.heap.get(obj, "$has_group").v)

    w.call_hooks[("hasattr", "Gateway._group")] = has_group

    def set_group(ex, recv, attr, v, st, sink):
        ex.set_field(st, recv, "_group", v)
        ex.set_field(st, recv, "$has_group", mk_bool(True))
        return [st]

    w.call_hooks[("setattr", "ref:Gateway._group")] = set_group

    def id_among(h, g, i):
        q = z3.Int("q_ia")
        L = gws(h, g)
        return z3.Exists([q], z3.And(q >= 0, q < slen(L), gid(h, L[q]) == i))

    w.add(Contract(
        f"{MULTI}:Group._register", {"self": REF("Group"), "gateway": REF("Gateway")},
        requires=lambda a, h: [("gateway-not-none", a.gateway != 0), ("lock-exists", h("Group", a.self, "_autoidlock") != 0)],
        linearize_at_lock=True,
        modifies=lambda a, h: [("Group", a.self, "_gateways"), ("Group", a.self, "_autoidcounter"), ("Gateway", a.gateway, "_group"), ("Gateway", a.gateway, "$has_group")],
        cases=[Case("ok", post=reg_post, post_assume=lambda a, h, h2, r: reg_post(a, h, h2, r)[:4] + [distinct_ids_all(h2, a.self), members_nonnull_all(h2, a.self)]),
               Case("rejected", "raise", "AssertionError", when=lambda a, h: z3.Or(z3.Not(reg_ok(a, h)), id_among(h, a.self, gid(h, a.gateway))),
                    post=lambda a, h, h2, e: [gws(h2, a.self) == gws(h, a.self)])],
        props=["C20", "C05"]))
    return w


def eq_any(a, b):
    return core.eq_sv(a, b)


def HeapViewHolds(st, lock_ref):
    from pyvc.contracts import HeapView

    return HeapView(st.heap, st.held).holds(lock_ref)


# ======================================================================================
# Group.makegateway: every interpreter that was started ends up registered (or was never started)
# ======================================================================================
def declare_makegateway(w):
    """world `mk`: the xspec/group world plus trusted summaries of what makegateway calls in other layers (transport creation, bootstrap, the configuration channel).
    History variable Group.$bootstrapped: the gateways whose interpreter was started and answered the bootstrap."""
    declare(w)
    s = w.schema
    distinct_ids, distinct_ids_all, members_nonnull, members_nonnull_all = w.group_inv
    s.declare("Group", "defaultspec", STR)
    s.declare("Group", "remote_execmodel", REF("ExecModel"))
    s.declare("Group", "_execmodel", REF("ExecModel"))
    s.declare("Group", "$bootstrapped", SEQ(REF("Gateway")), ghost=True)
    s.declare("ExecModel", "backend", STR)
    s.declare("Gateway", "spec", REF("XSpec"))
    s.declare("Gateway", "$configured", BOOL, ghost=True)       # the chdir/nice/env script was sent to it
    for cls in ("ExecModel", "IOany", "Channel", "ProxyIO"):
        s.set_bases(cls, ["object"])
    gws = lambda h, g: h("Group", g, "_gateways")
    gid = lambda h, x: h("Gateway", x, "id")
    boots = lambda h, g: h("Group", g, "$bootstrapped")
    w.attr_hooks[("Group", "execmodel")] = lambda ex, st, recv: st.heap.get(recv, "_execmodel")
    spec_txt = lambda h, sp, name: z3.Select(h.sv("XSpec", sp, "$attr").v[1][1], z3.StringVal(name))
    spec_has = lambda h, sp, name: z3.Select(h.sv("XSpec", sp, "$attr").v[0], z3.StringVal(name))

    def co(val, ty):
        if ty == ANY and val.ty.kind in ("tuple", "set", "map"):
            return core.fresh(ANY, "item")        # what is sent over the configuration / proxy channel: opaque here
        return None

    co.__name__ = "co_mk"
    core.COERCE_HOOKS[:] = [h_ for h_ in core.COERCE_HOOKS if getattr(h_, "__name__", "") != "co_mk"] + [co]
    w.externals["builtins.vars"] = lambda ex, args, kwargs, st, sink, node: iter([(st, core.fresh(ANY, "vars"))])

    def b_int(ex, args, kwargs, st, sink, node):
        (v,) = args
        if v.ty.kind in ("int", "bool"):
            yield st, core.coerce(v, INT)
            return
        if v.ty.kind != "str":
            raise Unsupported(f"int({v.ty!r})")
        ok = st.fork()
        yield ok, core.fresh(INT, "int")
        ex.raise_(st.fork(), sink, "ValueError", origin="int() of a non-numeric text")

    w.externals["builtins.int"] = b_int
    GIO, GSOCK, GBOOT, GW_ = "execnet.gateway_io", "execnet.gateway_socket", "execnet.gateway_bootstrap", "execnet.gateway"
    fresh_chan = lambda a, h, h2, r: [r != 0]
    for variant, sty in (("module", FUNCT), ("string", STR)):
        w.add(Contract(f"{GW_}:Gateway.remote_exec", {"self": REF("Gateway"), "source": sty},
                       requires=lambda a, h: [("gateway", a.self != 0)], modifies=lambda a, h: [("Gateway", a.self, "$configured")],
                       cases=[Case("ok", restype=REF("Channel"), post=lambda a, h, h2, r: [r != 0, h2("Gateway", a.self, "$configured")]), Case("connection-closed", "raise", "OSError")],
                       trusted=True, allocates=True, note="C06"), variant=variant)
    from contracts.base import GB as GB_
    w.add(Contract(f"{GB_}:Channel.send", {"self": REF("Channel"), "item": ANY}, requires=lambda a, h: [("channel", a.self != 0)],
                   cases=[Case("ok"), Case("closed", "raise", "OSError"), Case("unsupported", "raise", "DumpError")], trusted=True, note="C01/C02"))
    w.add(Contract(f"{GB_}:Channel.waitclose", {"self": REF("Channel"), "timeout": OPT(INT)}, defaults={"timeout": None}, requires=lambda a, h: [("channel", a.self != 0)],
                   cases=[Case("closed"), Case("remote-error", "raise", "RemoteError"), Case("connection-lost", "raise", "EOFError")], trusted=True, note="C03"))
    w.add(Contract(f"{GIO}:ProxyIO.__init__", {"self": REF("ProxyIO"), "proxy_channel": REF("Channel"), "execmodel": REF("ExecModel")},
                   cases=[Case("ok"), Case("cannot-send", "raise", "OSError")], trusted=True, note="C16"))
    w.add(Contract(f"{GIO}:create_io", {"spec": REF("XSpec"), "execmodel": REF("ExecModel")},
                   cases=[Case("ok", restype=REF("IOany"), post=lambda a, h, h2, r: [r != 0]), Case("cannot-start", "raise", "OSError"), Case("bad-spec", "raise", "ValueError")],
                   trusted=True, allocates=True, note="starts the interpreter process (popen / ssh / vagrant_ssh)"))
    w.add(Contract(f"{GSOCK}:create_io", {"spec": REF("XSpec"), "group": REF("Group"), "execmodel": REF("ExecModel")},
                   cases=[Case("ok", restype=REF("IOany"), post=lambda a, h, h2, r: [r != 0]), Case("cannot-connect", "raise", "OSError"), Case("host-not-found", "raise", "HostNotFound"),
                          Case("install-failed", "raise", "RemoteError"), Case("no-via", "raise", "KeyError"), Case("bad-address", "raise", "ValueError")],
                   trusted=True, allocates=True, note="connects (after installing the socket server through installvia)"))

    # spec attributes as makegateway uses them: for truth and, where a value is needed (via, chdir, nice, id, execmodel), as text.  Two outcomes per read instead of
    # three (absent / bare / text) keep the path count of this long function manageable; a key that takes a value is required to have one (precondition `valued-keys`)
    VALUED = ("via", "ssh", "socket", "python", "chdir", "nice", "id", "execmodel", "installvia", "vagrant_ssh", "ssh_config")

    def spec_read2(name):
        def hook(ex, st, recv):
            att = st.heap.get(recv, "$attr")
            k = z3.StringVal(name)
            pres, bare, txt = z3.Select(att.v[0], k), z3.Select(att.v[1][0], k), z3.Select(att.v[1][1], k)
            if name in VALUED:
                for s2, p in ex.fork(st, pres):
                    yield s2, (SV(STR, txt) if p else NONEV)
            else:
                for s2, truthy in ex.fork(st, z3.And(pres, z3.Or(bare, slen(txt) > 0))):
                    yield s2, (mk_bool(True) if truthy else NONEV)      # popen, dont_write_bytecode: only their truth is used here
        return hook

    for nm in VALUED + ("popen", "dont_write_bytecode"):
        w.attr_hooks[("XSpec", nm)] = spec_read2(nm)
    valued_keys = lambda h, sp: z3.And(*[z3.Implies(spec_has(h, sp, n), z3.Not(z3.Select(h.sv("XSpec", sp, "$attr").v[1][0], z3.StringVal(n)))) for n in VALUED])
    PROC = z3.IntVal(1)      # the one process: history of the gateways whose interpreter was started and answered the bootstrap
    s.declare("Proc", "$booted", SEQ(REF("Gateway")), ghost=True)
    s.set_bases("Proc", ["object"])
    booted = lambda h: h("Proc", PROC, "$booted")
    id_given = lambda h, sp: z3.And(spec_has(h, sp, "id"), z3.Not(z3.Select(h.sv("XSpec", sp, "$attr").v[1][0], z3.StringVal("id"))))

    def boot_post(a, h, h2, r):
        return [r != 0, z3.Not(h2("Gateway", r, "$has_group")), z3.Not(h2("Gateway", r, "$configured")), gid(h2, r) == spec_txt(h, a.spec, "id"), slen(gid(h2, r)) > 0,
                z3.Not(z3.Contains(booted(h), z3.Unit(r))), booted(h2) == z3.Concat(booted(h), z3.Unit(r))]

    w.add(Contract(f"{GBOOT}:bootstrap", {"io": REF("object"), "spec": REF("XSpec")},
                   requires=lambda a, h: [("transport", a.io != 0), ("spec", a.spec != 0), ("id-allocated", z3.And(id_given(h, a.spec), slen(spec_txt(h, a.spec, "id")) > 0))],
                   modifies=lambda a, h: [("Proc", PROC, "$booted")],
                   cases=[Case("ok", restype=REF("Gateway"), post=boot_post),
                          Case("failed", "raise", "Exception", post=lambda a, h, h2, e: [booted(h2) == booted(h)])],
                   trusted=True, allocates=True, note="C15: sends the bootstrap, waits for the '1', returns the Gateway object (finding C05-F5: a failing bootstrap may leave the started program behind)"))

    # ---- makegateway ---------------------------------------------------------------------------------------------------------------
    MK = f"{MULTI}:Group.makegateway"

    def none_left_behind(a, h, h2):
        """on EVERY exit: a gateway whose interpreter was started in this call is a member of the group (so terminate() will exit, join and kill it)"""
        B, B2 = booted(h), booted(h2)
        g = B2[slen(B)]
        return z3.Or(B2 == B, z3.And(B2 == z3.Concat(B, z3.Unit(g)), z3.Contains(gws(h2, a.self), z3.Unit(g))))

    def mk_ok(a, h, h2, r):
        L = gws(h, a.self)
        return [r != 0, gws(h2, a.self) == z3.Concat(L, z3.Unit(r)), h2("Gateway", r, "_group") == a.self, h2("Gateway", r, "spec") != 0,
                slen(gid(h2, r)) > 0, booted(h2) == z3.Concat(booted(h), z3.Unit(r)),
                z3.Implies(z3.And(Jm >= 0, Jm < slen(L)), gid(h2, r) != gid(h, L[Jm]))]          # its id is no earlier member's id (carried for an arbitrary position)

    Jm = z3.Int("Jg")      # the free position constant of the group world: allocate_id's postcondition is carried for it
    inv = lambda a, h: [("lock-exists", h("Group", a.self, "_autoidlock") != 0), ("members-nonnull", members_nonnull_all(h, a.self)), ("distinct-ids", distinct_ids_all(h, a.self)),
                        ("has-models", z3.And(h("Group", a.self, "_execmodel") != 0, h("Group", a.self, "remote_execmodel") != 0))]
    MKMOD = lambda a, h: [("Group", a.self, "_gateways"), ("Group", a.self, "_autoidcounter"), ("Proc", PROC, "$booted"), ("Gateway", None, "_group"), ("Gateway", None, "$has_group"),
                          ("Gateway", None, "spec"), ("Gateway", None, "$configured"), ("XSpec", None, "$attr"), ("XSpec", None, "$keys"), ("XSpec", None, "_spec"), ("XSpec", None, "env")]
    failing = [Case(n_, "raise", e_, post=lambda a, h, h2, e: [none_left_behind(a, h, h2)]) for n_, e_ in (
        ("no-type-or-bad-value", "ValueError"), ("unknown-via-gateway", "KeyError"), ("via-with-socket", "AssertionError"), ("transport-or-channel", "OSError"),
        ("connection-lost", "EOFError"), ("remote-side-failed", "RemoteError"), ("bootstrap-failed", "Exception"), ("bad-spec-text", "AttributeError"), ("empty-key", "IndexError"))]
    # One contract, verified in 24 pieces: the input domain is partitioned by which transport key is the first truthy one (in the documented order via, popen, ssh,
    # vagrant_ssh, socket, none) and by which of chdir / nice are given.  The partition is about the INPUT only (it does not follow the code's branch structure);
    # every piece is checked against the same postcondition, and the pieces cover the precondition (lemma obligation below).  It exists to keep the number of
    # paths per symbolic execution small and to spread the work over the worker processes.
    truthy = lambda h, sp, n: z3.And(spec_has(h, sp, n), z3.Or(z3.Select(h.sv("XSpec", sp, "$attr").v[1][0], z3.StringVal(n)), slen(spec_txt(h, sp, n)) > 0))
    ORDER = ("via", "popen", "ssh", "vagrant_ssh", "socket")

    def transport_is(h, sp, t):
        if t == "none":
            return z3.And(*[z3.Not(truthy(h, sp, n)) for n in ORDER])
        i = ORDER.index(t)
        return z3.And(truthy(h, sp, t), *[z3.Not(truthy(h, sp, n)) for n in ORDER[:i]])

    pieces = []
    for t in ORDER + ("none",):
        for cfg in ("plain", "chdir", "nice", "chdir+nice"):
            def narrow(a, h, t=t, cfg=cfg):
                return z3.And(transport_is(h, a.spec, t), truthy(h, a.spec, "chdir") == ("chdir" in cfg), truthy(h, a.spec, "nice") == ("nice" in cfg))
            pieces.append(narrow)
            c = Contract(MK, {"self": REF("Group"), "spec": REF("XSpec")},
                         requires=(lambda narrow: lambda a, h: inv(a, h) + [("spec", a.spec != 0), ("valued-keys", valued_keys(h, a.spec)), ("piece-of-the-input-domain", narrow(a, h))])(narrow),
                         modifies=MKMOD, cases=[Case("ok", restype=REF("Gateway"), post=lambda a, h, h2, r: mk_ok(a, h, h2, r) + [h2("Gateway", r, "spec") == a.spec])] + failing,
                         props=["C05", "C20"], allocates=True)
            c.verify_only = True
            w.add(c, variant=f"{t}.{cfg}")
    w.mk_pieces = pieces
    return w


# ======================================================================================
# command lines that start an interpreter (C15): the remote command is `<python= value, verbatim> -c "<bootstrap line>"`
# ======================================================================================
def declare_command_lines(w):
    """world `cmd`: ssh_args / vagrant_ssh_args / popen_args over the XSpec model.  python= is a COMMAND (an interpreter with options, e.g. `python3 -S -E`): it reaches
    the remote shell verbatim, so that its words are split there; the bootstrap line follows `-c` as one double-quoted word."""
    declare(w)
    GIO = "execnet.gateway_io"
    BOOT = z3.StringVal("import sys;exec(eval(sys.stdin.readline()))")
    wssplit = z3.Function("wssplit", z3.StringSort(), z3.SeqSort(z3.StringSort()))
    shsplit = z3.Function("shsplit", z3.StringSort(), z3.SeqSort(z3.StringSort()))      # shlex.split(path)
    att = lambda h, sp: h.sv("XSpec", sp, "$attr")
    has = lambda h, sp, n: z3.Select(att(h, sp).v[0], z3.StringVal(n))
    bare = lambda h, sp, n: z3.Select(att(h, sp).v[1][0], z3.StringVal(n))
    txt = lambda h, sp, n: z3.Select(att(h, sp).v[1][1], z3.StringVal(n))
    S = lambda *xs: z3.Concat(*[z3.Unit(x if z3.is_expr(x) else z3.StringVal(x)) for x in xs]) if len(xs) > 1 else z3.Unit(xs[0] if z3.is_expr(xs[0]) else z3.StringVal(xs[0]))
    w.externals["builtins.str"] = lambda ex, args, kwargs, st, sink, node: iter([(st, args[0] if args[0].ty.kind == "str" else core.fresh(STR, "str"))])
    w.externals["shlex.split"] = lambda ex, args, kwargs, st, sink, node: iter([(st, SV(SEQ(STR), shsplit(core.coerce(args[0], STR).v)))])
    # shlex.quote(s): s itself when it consists of safe characters only, otherwise a single-quoted word (so a command with options becomes ONE word)
    shquote = z3.Function("shquote", z3.StringSort(), z3.StringSort())
    shsafe = z3.Function("shsafe", z3.StringSort(), z3.BoolSort())

    def ax_shquote(t):
        x = t.arg(0)
        return [z3.Implies(shsafe(x), t == x), z3.Implies(z3.Not(shsafe(x)), z3.And(z3.PrefixOf(z3.StringVal("'"), t), slen(t) >= slen(x) + 2)),
                z3.Implies(z3.Or(z3.Contains(x, z3.StringVal(" ")), slen(x) == 0), z3.Not(shsafe(x)))]

    ax_shquote.names = ["shquote"]
    w.axiom_providers.append(ax_shquote)
    w.externals["shlex.quote"] = lambda ex, args, kwargs, st, sink, node: iter([(st, SV(STR, shquote(core.coerce(args[0], STR).v)))])
    w.externals["sys.executable"] = SV(STR, z3.String("sys_executable"))
    w.externals["sys.platform"] = mk_str("linux")

    def py(h, sp):
        # `spec.python or "python"`: the given command, or plain "python" when it is absent or empty
        return z3.If(z3.And(has(h, sp, "python"), z3.Not(bare(h, sp, "python")), slen(txt(h, sp, "python")) > 0), txt(h, sp, "python"), z3.StringVal("python"))

    def remotecmd(h, sp):
        return z3.Concat(py(h, sp), z3.StringVal(' -c "'), BOOT, z3.StringVal('"'))

    valued = lambda a, h: [("spec", a.spec != 0), ("python-and-config-are-texts", z3.And(*[z3.Implies(has(h, a.spec, n), z3.Not(bare(h, a.spec, n))) for n in ("python", "ssh_config")]))]
    cfg = lambda h, sp: z3.If(has(h, sp, "ssh_config"), S("-F", txt(h, sp, "ssh_config")), z3.Empty(z3.SeqSort(z3.StringSort())))
    w.add(Contract(f"{GIO}:ssh_args", {"spec": REF("XSpec")}, requires=valued,
                   cases=[Case("ok", restype=SEQ(STR), when=lambda a, h: z3.And(has(h, a.spec, "ssh"), z3.Not(bare(h, a.spec, "ssh"))),
                               post=lambda a, h, h2, r: [r == z3.Concat(S("ssh", "-C"), cfg(h, a.spec), wssplit(txt(h, a.spec, "ssh")), z3.Unit(remotecmd(h, a.spec)))]),
                          Case("no-host", "raise", "AssertionError", when=lambda a, h: z3.Not(has(h, a.spec, "ssh"))),
                          Case("host-without-value", "raise", "AttributeError", when=lambda a, h: z3.And(has(h, a.spec, "ssh"), bare(h, a.spec, "ssh")))],
                   props=["C15"]))
    w.add(Contract(f"{GIO}:vagrant_ssh_args", {"spec": REF("XSpec")}, requires=lambda a, h: valued(a, h) + [("host-is-a-text", z3.Implies(has(h, a.spec, "vagrant_ssh"), z3.Not(bare(h, a.spec, "vagrant_ssh"))))],
                   cases=[Case("ok", restype=SEQ(STR), when=lambda a, h: has(h, a.spec, "vagrant_ssh"),
                               post=lambda a, h, h2, r: [r == z3.Concat(S("vagrant", "ssh", txt(h, a.spec, "vagrant_ssh"), "--", "-C"), cfg(h, a.spec), z3.Unit(remotecmd(h, a.spec)))]),
                          Case("no-host", "raise", "AssertionError", when=lambda a, h: z3.Not(has(h, a.spec, "vagrant_ssh")))],
                   props=["C15"]))

    def popen_post(a, h, h2, r):
        sp = a.spec
        given = z3.And(has(h, sp, "python"), slen(txt(h, sp, "python")) > 0)
        head = z3.If(given, shsplit(txt(h, sp, "python")), z3.Unit(z3.String("sys_executable")))       # the command's words, or this interpreter
        dwb = z3.And(has(h, sp, "dont_write_bytecode"), z3.Or(bare(h, sp, "dont_write_bytecode"), slen(txt(h, sp, "dont_write_bytecode")) > 0))
        return [r == z3.Concat(head, S("-u"), z3.If(dwb, S("-B"), z3.Empty(z3.SeqSort(z3.StringSort()))), S("-c", BOOT))]

    w.add(Contract(f"{GIO}:popen_args", {"spec": REF("XSpec")}, requires=valued, cases=[Case("ok", restype=SEQ(STR), post=popen_post)], props=["C15"]))
    w.add(Contract(f"{GIO}:shell_split_path", {"path": STR}, cases=[Case("ok", restype=SEQ(STR), post=lambda a, h, h2, r: [r == shsplit(a.path)])], trusted=True,
                   note="shlex.split (POSIX; the Windows backslash replacement is not taken)"))
    return w
