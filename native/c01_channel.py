"""Native scenario for C01 (through a channel): a rejected send raises DumpError before anything reaches the connection
and the channel stays usable; values arrive equal and type-exact.  prints JSON {failed, results}"""
import json, sys
import execnet
from execnet.gateway_base import DumpError
group = execnet.Group()
bad = []
try:
    gw = group.makegateway("popen")
    ch = gw.remote_exec("for x in channel: channel.send((repr(x), x))")
    seq = [("ok", [1, "valid", (2.5, None)]), ("reject", [7, "valid", object()]), ("ok", {"k": [b"x", -2**40]}), ("reject", {1: {2: object()}}),
           ("reject", ("a", "\ud800")), ("ok", frozenset([1, (2, 3)])), ("ok", 10**30)]
    for kind, v in seq:
        if kind == "reject":
            try:
                ch.send(v); bad.append(f"unsupported value was sent: {v!r:.40}")
            except DumpError:
                pass
            except Exception as e:
                bad.append(f"rejected with {type(e).__name__} instead of DumpError")
        else:
            try:
                ch.send(v)
                r, back = ch.receive(10)
            except Exception as e:
                bad.append(f"channel unusable after a rejected send: {type(e).__name__}: {e!s:.60}"); break
            if back != v or type(back) is not type(v) or r != repr(v):
                bad.append(f"value changed in transit: {back!r:.40} vs {v!r:.40}")
finally:
    group.terminate(timeout=2)
print(json.dumps({"failed": bool(bad), "results": bad[:4], "n": 7}))
