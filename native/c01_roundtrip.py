"""Native oracle for C01/C12: round trip, type exactness, DumpError-only rejection, and byte-for-byte agreement
with an independent reference encoder written from the statement of C12 (format v2).
stdin JSON {"values":[python-expr...], "unsupported":[python-expr...], "known_digit_limit":bool, "known_byname":bool, "legacy":bool}"""
import io, json, math, struct, sys
from execnet import gateway_base as gb
from execnet.gateway_base import dumps, loads, dump, load, DumpError

def ref(v):
    """format v2, from the statement: one opcode letter per type, big-endian 4-byte lengths and small ints,
    decimal text for big ints, IEEE-754 big-endian doubles, post-order containers"""
    t = type(v)
    i4 = lambda n: struct.pack(">i", n)
    if v is None: return b"L"
    if t is bool: return b"R" if v else b"C"
    if t is int:
        if -2**31 <= v <= 2**31 - 1: return b"F" + i4(v)
        old = sys.get_int_max_str_digits(); sys.set_int_max_str_digits(0)   # the reference itself must not hit CPython's conversion limit
        try: d = str(v).encode("ascii")
        finally: sys.set_int_max_str_digits(old)
        return b"H" + i4(len(d)) + d
    if t is float: return b"D" + struct.pack(">d", v)
    if t is complex: return b"T" + struct.pack(">d", v.real) + struct.pack(">d", v.imag)
    if t is bytes: return b"A" + i4(len(v)) + v
    if t is str: u = v.encode("utf-8"); return b"N" + i4(len(u)) + u
    if t is list: return b"K" + i4(len(v)) + b"".join(ref(k) + ref(x) + b"P" for k, x in enumerate(v))
    if t is tuple: return b"".join(ref(x) for x in v) + b"@" + i4(len(v))
    if t is dict: return b"J" + b"".join(ref(k) + ref(x) + b"P" for k, x in v.items())
    if t in (set, frozenset): return b"".join(ref(x) for x in v) + (b"O" if t is set else b"E") + i4(len(v))
    raise TypeError(t)

def same(a, b):
    if type(a) is not type(b): return False
    if isinstance(a, float): return struct.pack(">d", a) == struct.pack(">d", b)
    if isinstance(a, complex): return same(a.real, b.real) and same(a.imag, b.imag)
    if isinstance(a, (list, tuple)): return len(a) == len(b) and all(same(x, y) for x, y in zip(a, b))
    if isinstance(a, dict): return list(a) == list(b) and len(a) == len(b) and all(same(k1, k2) and same(a[k1], b[k2]) for k1, k2 in zip(a, b))
    if isinstance(a, (set, frozenset)): return a == b and all(any(same(x, y) for y in b) for x in a)
    return a == b

class Sub(int): pass
class Named_int(int): pass
Named_int.__name__ = "int"
class Plain: pass
ENV = {"frozenset": frozenset, "float": float, "complex": complex, "Sub": Sub, "Named_int": Named_int, "Plain": Plain, "nan": float("nan"), "inf": float("inf"),
       "snan": struct.unpack(">d", bytes.fromhex("7ff0000000000001"))[0], "object": object}

def check_value(expr, spec):
    v = eval(expr, dict(ENV))
    try:
        d = dumps(v)
    except DumpError as e:
        return {"failed": True, "why": f"supported value rejected: {e}"}
    except Exception as e:
        if isinstance(e, ValueError) and "digit" in str(e) and spec.get("known_digit_limit"):
            return {"failed": False, "known": "digit-limit"}
        return {"failed": True, "why": f"dumps raised {type(e).__name__}: {e!s:.80}"}
    want = b"\x02" + ref(v) + b"Q"
    if d != want:
        return {"failed": True, "why": f"bytes differ from the format-v2 reference: got {d[:24].hex()} want {want[:24].hex()}"}
    try:
        back = loads(d)
    except Exception as e:
        return {"failed": True, "why": f"loads(dumps(v)) raised {type(e).__name__}: {e!s:.80}"}
    if not same(back, v):
        return {"failed": True, "why": f"round trip changed the value or a type: {back!r:.60}"}
    f = io.BytesIO(); dump(f, v); f.seek(0)
    if not same(load(f), v):
        return {"failed": True, "why": "dump/load over a stream differs"}
    return {"failed": False}

def check_unsupported(expr, spec):
    v = eval(expr, dict(ENV))
    try:
        d = dumps(v)
    except DumpError:
        return {"failed": False}
    except Exception as e:
        return {"failed": True, "why": f"unsupported value raised {type(e).__name__} instead of DumpError: {e!s:.60}"}
    if spec.get("known_byname") and "Named_int" in expr:
        return {"failed": False, "known": "by-name"}
    return {"failed": True, "why": "unsupported value was serialised"}

def check_legacy():
    """reference-encoded streams with the Python-2 opcodes under all four coercion settings (C12)"""
    i4 = lambda n: struct.pack(">i", n)
    bad = []
    raw = "é".encode("utf-8")
    for p2 in (False, True):
        for p3 in (False, True):
            got = loads(b"\x02M" + i4(len(raw)) + raw + b"Q", py2str_as_py3str=p2, py3str_as_py2str=p3)
            want = raw.decode("latin-1") if p2 else raw
            if got != want or type(got) is not type(want): bad.append(f"M p2={p2} p3={p3}: {got!r}")
            got = loads(b"\x02N" + i4(len(raw)) + raw + b"Q", py2str_as_py3str=p2, py3str_as_py2str=p3)
            want = raw if p3 else "é"
            if got != want or type(got) is not type(want): bad.append(f"N p2={p2} p3={p3}: {got!r}")
            got = loads(b"\x02S" + i4(len(raw)) + raw + b"Q", py2str_as_py3str=p2, py3str_as_py2str=p3)
            if got != "é": bad.append(f"S p2={p2} p3={p3}: {got!r}")
            if loads(b"\x02G" + i4(-5) + b"Q", p2, p3) != -5: bad.append("G")
            if loads(b"\x02I" + i4(3) + b"-12" + b"Q", p2, p3) != -12: bad.append("I")
    # several string opcodes with the SAME payload in one stream: each is decoded by its own rule, whatever was decoded before it
    def one(op, p2, p3):
        if op == "M": return raw.decode("latin-1") if p2 else raw
        if op == "N": return raw if p3 else "é"
        return "é"
    for p2 in (False, True):
        for p3 in (False, True):
            for a in "MNS":
                for b_ in "MNS":
                    data = b"\x02" + a.encode() + i4(len(raw)) + raw + b_.encode() + i4(len(raw)) + raw + b"@" + i4(2) + b"Q"
                    want = (one(a, p2, p3), one(b_, p2, p3))
                    try: got = loads(data, py2str_as_py3str=p2, py3str_as_py2str=p3)
                    except Exception as e: got = e
                    if not (isinstance(got, tuple) and got == want and [type(x) for x in got] == [type(x) for x in want]):
                        bad.append(f"stream {a}+{b_} with equal payloads, p2={p2} p3={p3}: {got!r}, expected {want!r}")
    # invalid utf-8 stays an error for S/N even after an M item with the same bytes
    inv = b"\xff\xfe"
    try:
        loads(b"\x02M" + i4(2) + inv + b"S" + i4(2) + inv + b"@" + i4(2) + b"Q", py2str_as_py3str=True); bad.append("invalid utf-8 in S accepted after an equal M item")
    except gb.DataFormatError: pass
    except Exception as e: bad.append(f"invalid utf-8 in S after M: {type(e).__name__}")
    if loads(b"\x02M" + i4(1) + b"a" + b"Q") != b"a": bad.append("default py2str_as_py3str must be False for loads()")
    for ver in (b"\x01", b"\x03", b"\x00"):
        try:
            loads(ver + b"LQ"); bad.append(f"foreign version byte {ver!r} accepted")
        except gb.DataFormatError: pass
        except Exception as e: bad.append(f"foreign version byte {ver!r}: {type(e).__name__}")
    return {"failed": bool(bad), "why": bad[:4]}

spec = json.load(sys.stdin)
res = []
for e in spec.get("values", []):
    r = check_value(e, spec); r["expr"] = e[:80]; res.append(r)
for e in spec.get("unsupported", []):
    r = check_unsupported(e, spec); r["expr"] = e[:80]; res.append(r)
if spec.get("legacy"):
    r = check_legacy(); r["expr"] = "legacy opcodes x 4 settings, version byte"; res.append(r)
bad = [r for r in res if r["failed"]]
print(json.dumps({"failed": bool(bad), "results": bad[:8] or res[:1], "n": len(res), "known": sorted({r["known"] for r in res if r.get("known")})}))
