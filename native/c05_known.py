"""Witness scenarios of the recorded C05 findings (run by name; each prints JSON {failed, outcome})."""
import json, os, signal, subprocess, sys, time
WHICH = sys.argv[1]
VIA = r'''
import execnet, os, signal, sys, time
def state(pid):
    with open("/proc/%d/stat" % pid) as f: return f.read().rsplit(")", 1)[1].split()[0]
g = execnet.Group(); m = g.makegateway("popen//id=m"); p = g.makegateway("popen//via=m//id=p")
mpid = m.remote_exec("import os; channel.send(os.getpid())").receive(10)
os.kill(mpid, signal.SIGSTOP)
while state(mpid) != "T": time.sleep(0.01)
print("ready", flush=True)
g.terminate(1.0)
print("returned", flush=True)
'''
BOOT = r'''
import execnet, os, sys, time, stat, tempfile
d = tempfile.mkdtemp(); fake = os.path.join(d, "fake.sh")
open(fake, "w").write("#!/bin/sh\necho x\nexec sleep 30\n"); os.chmod(fake, 0o755)
g = execnet.Group()
try: g.makegateway("popen//python=" + fake); err = None
except BaseException as e: err = type(e).__name__
g.terminate(1.0); time.sleep(0.3)
left = []
for x in os.listdir("/proc"):
    if x.isdigit():
        try:
            fl = open("/proc/%s/stat" % x).read().rsplit(")", 1)[1].split()
            if fl[1] == str(os.getpid()) and fl[0] != "Z": left.append(int(x))
        except OSError: pass
print("RESULT", err, len(left), flush=True)
for p in left: os.kill(p, 9)
'''
if WHICH == "via-master-stopped":
    p = subprocess.Popen([sys.executable, "-c", VIA], stdout=subprocess.PIPE, stderr=subprocess.DEVNULL, text=True, start_new_session=True)
    assert p.stdout.readline().strip() == "ready"
    t0 = time.time()
    import select
    r, _, _ = select.select([p.stdout], [], [], 12)
    line = p.stdout.readline().strip() if r else ""
    blocked = line != "returned"
    try: os.killpg(p.pid, signal.SIGKILL)
    except OSError: pass
    # the stopped master and its child are in the same session: killed with the group
    print(json.dumps({"failed": blocked, "outcome": f"terminate(1.0) with the via gateway SIGSTOPped: {'still blocked after 12 s' if blocked else 'returned after %.1f s' % (time.time() - t0)}"}))
elif WHICH == "bootstrap-live-child":
    p = subprocess.run([sys.executable, "-c", BOOT], capture_output=True, text=True, timeout=60)
    res = [l for l in p.stdout.splitlines() if l.startswith("RESULT")]
    err, n = (res[-1].split()[1], int(res[-1].split()[2])) if res else ("?", 0)
    print(json.dumps({"failed": n > 0, "outcome": f"makegateway(popen//python=<program that prints 'x' and sleeps>) raised {err}; {n} process(es) left after terminate(1.0)"}))
