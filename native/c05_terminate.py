"""Native scenarios for C05: Group.terminate(timeout) returns promptly, empties the group, and leaves no local child behind.
argv: quick|thorough [scenario names...] ; prints JSON {failed, results:[...], n, known:[...]}
Each scenario runs in its own interpreter (a hanging terminate must not hang the oracle)."""
import json, os, signal, subprocess, sys, time

MODE = sys.argv[1] if len(sys.argv) > 1 else "quick"
ONLY = sys.argv[2:]

DRIVER = r'''
import execnet, json, os, signal, sys, time, threading
def state(pid):
    try:
        with open("/proc/%d/stat" % pid) as f: return f.read().rsplit(")", 1)[1].split()[0]
    except OSError: return None
def alive(pid): return state(pid) not in (None, "Z")
def children():
    out = []
    for x in os.listdir("/proc"):
        if x.isdigit():
            try:
                with open("/proc/%s/stat" % x) as f: fl = f.read().rsplit(")", 1)[1].split()
                if fl[1] == str(os.getpid()) and fl[0] != "Z": out.append(int(x))
            except OSError: pass
    return out
BODIES = {
 "idle": "channel.send(1)",
 "receive": "channel.send(1); channel.receive()",
 "busy": "channel.send(1)\nwhile 1: pass",
 "sleep": "channel.send(1)\nimport time\ntime.sleep(1000)",
 "catch": "channel.send(1)\nimport time\nwhile 1:\n  try: time.sleep(1000)\n  except BaseException: pass",
 "sigign": "import signal; signal.signal(signal.SIGINT, signal.SIG_IGN); signal.signal(signal.SIGTERM, signal.SIG_IGN); channel.send(1)\nimport time\nwhile 1: time.sleep(1000)",
 "threads": "import threading, time\nfor i in range(3): threading.Thread(target=time.sleep, args=(1000,)).start()\nchannel.send(1); time.sleep(1000)",
}
def run(cfg):
    g = execnet.Group()
    g.set_execmodel("thread", cfg.get("model", "thread"))
    pids, gws = [], []
    for spec, body, sig in cfg["members"]:
        extra = "//execmodel=main_thread_only" if body == "sigign" else ""     # signal handlers can only be installed from the main thread
        if spec == "socket":
            if "sockhost" not in g: g.makegateway("popen//id=sockhost")
            gw = g.makegateway("socket//installvia=sockhost" + extra)
        elif spec == "via":
            if "master" not in g: g.makegateway("popen//id=master")
            gw = g.makegateway("popen//via=master" + extra)
        else:
            gw = g.makegateway(spec + extra)
        pid = gw.remote_exec("import os; channel.send(os.getpid())").receive(10)
        if body != "dead":
            ch = gw.remote_exec(BODIES[body]); ch.receive(10)
        pids.append(pid); gws.append(gw)
    for (spec, body, sig), pid in zip(cfg["members"], pids):
        if body == "dead" or sig == "KILL":
            os.kill(pid, signal.SIGKILL)
        elif sig == "STOP":
            os.kill(pid, signal.SIGSTOP)
            while state(pid) != "T": time.sleep(0.01)
    if cfg.get("exit_first"):
        for gw in gws: gw.exit()
    if cfg.get("exit_via_first"):
        gws[-1].exit()
    local = children()
    t0 = time.time(); err = None
    try: g.terminate(cfg["timeout"])
    except BaseException as e: err = "%s: %s" % (type(e).__name__, e)
    dt = time.time() - t0
    time.sleep(0.3)
    left = [p for p in local if alive(p)]
    print(json.dumps({"dt": dt, "err": err, "len": len(g), "tojoin": len(g._gateways_to_join), "left": left, "nlocal": len(local)}), flush=True)
    for p in left + [p for p in pids if alive(p)]:
        try: os.kill(p, signal.SIGKILL)
        except OSError: pass
    os._exit(0)
def failing_config(cfg):
    # makegateway fails in its chdir/nice/env step (after the process exists): terminate() must still reap that process
    g = execnet.Group()
    before = set(children())
    errs = []
    for spec in ("popen//chdir=/nonexistent-dir-for-c05/a/b", "popen//nice=high"):
        try: g.makegateway(spec); errs.append(None)
        except BaseException as e: errs.append(type(e).__name__)
    new = [p for p in children() if p not in before]
    g.terminate(1.0); time.sleep(0.3)
    left = [p for p in new if alive(p)]
    print(json.dumps({"err": errs, "left": left, "len": len(g)}), flush=True)
    for p in left: os.kill(p, signal.SIGKILL)
    os._exit(0)
def dup_id(cfg):
    g = execnet.Group(); g.makegateway("popen//id=dup")
    before = set(children())
    try: g.makegateway(cfg.get("spec", "popen//id=dup")); err = None
    except BaseException as e: err = type(e).__name__
    new = [p for p in children() if p not in before]
    g.terminate(1.0); time.sleep(0.3)
    left = [p for p in new if alive(p)]
    print(json.dumps({"err": err, "left": left, "len": len(g)}), flush=True)
    for p in left: os.kill(p, signal.SIGKILL)
    os._exit(0)
cfg = json.loads(sys.argv[1])
try:
    (dup_id if cfg.get("kind") == "dup" else failing_config if cfg.get("kind") == "failcfg" else run)(cfg)
except BaseException as e:
    import traceback
    print(json.dumps({"error": "driver: %s: %s | %s" % (type(e).__name__, e, traceback.format_exc()[-300:])}), flush=True)
    os._exit(1)
'''


def scenario(cfg, limit):
    p = subprocess.Popen([sys.executable, "-c", DRIVER, json.dumps(cfg)], stdout=subprocess.PIPE, stderr=(None if os.environ.get("C05_DEBUG") else subprocess.DEVNULL), text=True, start_new_session=True)
    try:
        out, _ = p.communicate(timeout=limit)
        return json.loads(out.strip().splitlines()[-1])
    except subprocess.TimeoutExpired:
        try:
            os.killpg(p.pid, signal.SIGKILL)
        except OSError:
            pass
        p.wait()
        return {"hang": True}
    except Exception as e:
        return {"error": f"{type(e).__name__}: {e}"}


bodies = ["idle", "receive", "busy", "sleep", "catch", "sigign", "threads", "dead"]
cases = []
# single popen member in every remote state, two timeouts
for b in bodies:
    for t in ([1.0] if MODE == "quick" else [0.5, 1.0, 2.0]):
        cases.append((f"popen-{b}-t{t}", {"members": [["popen", b, None]], "timeout": t}))
for sig in ("STOP", "KILL"):
    cases.append((f"popen-idle-SIG{sig}", {"members": [["popen", "idle", sig]], "timeout": 1.0}))
cases.append(("popen-busy-SIGSTOP", {"members": [["popen", "busy", "STOP"]], "timeout": 1.0}))
cases.append(("three-popen-mixed", {"members": [["popen", "sigign", None], ["popen", "idle", "STOP"], ["popen", "receive", None]], "timeout": 1.0}))
cases.append(("main_thread_only-catch", {"members": [["popen", "catch", None]], "timeout": 1.0, "model": "main_thread_only"}))
cases.append(("socket-sleep", {"members": [["socket", "sleep", None]], "timeout": 1.0}))
cases.append(("via-sleep", {"members": [["via", "sleep", None]], "timeout": 1.0}))
cases.append(("via-sigign", {"members": [["via", "sigign", None]], "timeout": 1.0}))
cases.append(("exit-then-terminate-stopped", {"members": [["popen", "idle", "STOP"]], "timeout": 1.0, "exit_first": True}))
cases.append(("exit-then-terminate-idle", {"members": [["popen", "idle", None], ["popen", "sigign", None]], "timeout": 1.0, "exit_first": True}))
cases.append(("via-exit-then-terminate", {"members": [["via", "idle", None]], "timeout": 1.0, "exit_via_first": True}))
cases.append(("dup-id", {"kind": "dup"}))
cases.append(("empty-id", {"kind": "dup", "spec": "popen//id="}))
cases.append(("failing-config", {"kind": "failcfg"}))
if MODE == "thorough":
    cases.append(("five-popen-sigign", {"members": [["popen", "sigign", None]] * 5, "timeout": 1.0}))
    cases.append(("gevent-sleep", {"members": [["popen", "sleep", None]], "timeout": 1.0, "model": "gevent"}))
    cases.append(("via-stopped-sub", {"members": [["via", "idle", "STOP"]], "timeout": 1.0}))
# known findings are exercised only by name (they hang by design of the defect)
KNOWN_ONLY = {"via-master-stopped": {"members": [["via", "idle", None]], "timeout": 1.0, "stop_master": True}}

bad, n = [], 0
for name, cfg in cases:
    if ONLY and name not in ONLY:
        continue
    t = cfg.get("timeout", 1.0)
    nmem = len(cfg.get("members", [])) + 1
    r = scenario(cfg, limit=20 + 6 * t * nmem)
    n += 1
    if r.get("hang"):
        bad.append(f"{name}: terminate({t}) had not returned after {20 + 6 * t * nmem:.0f} s")
        continue
    if r.get("error"):
        bad.append(f"{name}: scenario error {r['error']}")
        continue
    if cfg.get("kind") == "failcfg":
        if r["left"]:
            bad.append(f"{name}: makegateway failed in its chdir/nice step ({r['err']}) and left child {r['left']} alive after terminate")
        continue
    if cfg.get("kind") == "dup":
        if r["left"]:
            bad.append(f"{name}: makegateway with a taken or empty id raised {r['err']} and left child {r['left']} alive after terminate")
        continue
    if r["err"]:
        bad.append(f"{name}: terminate raised {r['err']}")
    if r["len"] or r["tojoin"]:
        bad.append(f"{name}: after terminate len(group)={r['len']} to_join={r['tojoin']}")
    if r["left"]:
        bad.append(f"{name}: {len(r['left'])} of {r['nlocal']} local child(ren) still alive after terminate({t})")
    # 'a small multiple of the timeout': the contracts give 3*timeout per round for local transports (one more round per via level); 1.5 s scheduling slack
    rounds = 2 if any(m[0] in ("via",) for m in cfg.get("members", [])) else 1
    if r["dt"] > 3 * t * rounds + 1.5:
        bad.append(f"{name}: terminate({t}) took {r['dt']:.2f} s")
print(json.dumps({"failed": bool(bad), "results": bad[:8], "n": n}))
