"""Native scenarios for C06: remote_exec runs exactly the given code with a live channel and clean stdio."""
import json, os, sys, types
import execnet
from execnet.gateway_base import DumpError
bad = []
group = execnet.Group()
G = 5
def ok_func(channel, a, b=None):
    channel.send((a, b, __name__))
def raising(channel):
    raise ValueError("line-check")
RAISE_LINE = raising.__code__.co_firstlineno + 1
try:
    gw = group.makegateway("popen")
    # strings, functions with kwargs, modules; __name__; channel bound; closes by itself
    ch = gw.remote_exec("channel.send((__name__, 'channel' in globals()))")
    if ch.receive(10) != ("__channelexec__", True): bad.append("namespace of a source string")
    ch.waitclose(10)
    kw = {"a": [1, {"k": (2.5, None)}, b"x", frozenset([1])], "b": 10**30}
    ch = gw.remote_exec(ok_func, **kw)
    r = ch.receive(10)
    if r != (kw["a"], kw["b"], "__channelexec__"): bad.append(f"kwargs arrived as {r!r:.60}")
    ch.waitclose(10)
    # traceback names original file and line
    ch = gw.remote_exec(raising)
    try: ch.waitclose(10); bad.append("remote raise not reported")
    except ch.RemoteError as e:
        if os.path.basename(__file__) not in str(e) or f"line {RAISE_LINE}" not in str(e): bad.append(f"traceback does not name {os.path.basename(__file__)}:{RAISE_LINE}")
    # explicit close from inside is refused
    ch = gw.remote_exec("try:\n    channel.close()\nexcept OSError as e:\n    channel.send('refused')")
    if ch.receive(10) != "refused": bad.append("explicit close from inside was not refused")
    ch.waitclose(10)
    # local refusals, before anything is sent
    y = 1
    def closure(channel): channel.send(y)
    def nonbuiltin(channel): channel.send(G)
    def wrongarg(chan): pass
    def nested_global(channel, x=1):
        def helper(v):
            return os.getcwd() + str(v)
        return helper(x)
    def channel_second(data, channel): pass
    def channel_kwonly(*, channel): pass
    def channel_defaulted_later(data=None, channel=None): pass
    sent_before = gw.remote_status().numchannels if False else None
    for f, name in ((closure, "closure"), (nonbuiltin, "non-builtin global"), (wrongarg, "wrong first parameter"), (lambda channel: 1, "lambda"),
                    (nested_global, "non-builtin global used only inside a nested def"), (channel_second, "channel as second parameter"), (channel_kwonly, "keyword-only channel"), (channel_defaulted_later, "channel as later defaulted parameter")):
        try: gw.remote_exec(f); bad.append(f"{name} accepted")
        except ValueError: pass
        except Exception as e: bad.append(f"{name}: {type(e).__name__}")
    try: gw.remote_exec("pass", a=1); bad.append("kwargs with a source string accepted")
    except TypeError: pass
    try: gw.remote_exec(ok_func, a=object()); bad.append("unserialisable kwarg accepted")
    except DumpError: pass
    # a module source: what is sent is the file's CURRENT content, also when size and mtime are those of the version run before
    import importlib.util, tempfile
    d = tempfile.mkdtemp(prefix="c06mod_")
    mp = os.path.join(d, "c06_probe_mod.py")
    open(mp, "w").write("channel.send('first version')\n")
    st0 = os.stat(mp)
    spec_ = importlib.util.spec_from_file_location("c06_probe_mod", mp)
    mod = importlib.util.module_from_spec(spec_)
    got1 = gw.remote_exec(mod).receive(10)
    open(mp, "w").write("channel.send('other version')\n")
    os.utime(mp, ns=(st0.st_atime_ns, st0.st_mtime_ns))
    got2 = gw.remote_exec(mod).receive(10)
    if (got1, got2) != ("first version", "other version"): bad.append(f"remote_exec(module) after an in-place rewrite with equal size and mtime ran {got2!r} (first run {got1!r})")
    import shutil; shutil.rmtree(d, ignore_errors=True)
    # stdout / stderr / raw fd writes never enter the protocol stream
    ch = gw.remote_exec("import os, sys\nprint('x' * 100000)\nsys.stderr.write('')\nos.write(1, b'Y' * 70000)\nsys.stdout.flush()\nchannel.send('still-fine')")
    if ch.receive(20) != "still-fine": bad.append("stdio writes disturbed the protocol")
    ch.waitclose(10)
    if gw.remote_exec("channel.send(42)").receive(10) != 42: bad.append("gateway unusable after stdio writes")
except Exception as e:
    bad.append(f"scenario crashed: {type(e).__name__}: {e!s:.80}")
finally:
    group.terminate(timeout=3)
print(json.dumps({"failed": bool(bad), "results": bad[:5], "n": 19}))
