"""Witness for C08: several threads sending large items on one socket gateway (frames must not interleave).
usage: c08_concurrent_send.py <spec> <nthreads> <nitems> <size>   -> prints JSON {failed, detail}"""
import json, sys, threading, time
import execnet
spec, nthreads, nitems, size = sys.argv[1], int(sys.argv[2]), int(sys.argv[3]), int(sys.argv[4])
group = execnet.Group()
try:
    if spec.startswith("socket"):
        group.makegateway("popen//id=base")
        gw = group.makegateway("socket//installvia=base//id=sock")
    else:
        gw = group.makegateway(spec)
    chans = []
    for t in range(nthreads):
        ch = gw.remote_exec("""
import hashlib
n = channel.receive()
for i in range(n):
    x = channel.receive()
    channel.send((len(x), x[:1], x[-1:]))
""")
        chans.append(ch)
    errors = []
    def worker(t, ch):
        try:
            ch.send(nitems)
            payload = bytes([65 + t]) * size
            for i in range(nitems):
                ch.send(payload)
            for i in range(nitems):
                got = ch.receive(timeout=60)
                if got != (size, payload[:1], payload[-1:]):
                    errors.append(f"thread {t} item {i}: got {got!r:.80}")
        except Exception as e:
            errors.append(f"thread {t}: {type(e).__name__}: {e!s:.100}")
    stop = []
    def headers_only():
        # data-less frames (CHANNEL_CLOSE of fresh channels, STATUS requests) from yet another thread while the bulk frames are in flight
        try:
            while not stop:
                c = gw.newchannel(); c.close()
                gw.remote_status()
        except Exception as e:
            if not stop: errors.append(f"header-only sender: {type(e).__name__}: {e!s:.100}")
    ths = [threading.Thread(target=worker, args=(t, ch)) for t, ch in enumerate(chans)]
    hd = threading.Thread(target=headers_only)
    for th in ths: th.start()
    hd.start()
    for th in ths: th.join(120)
    stop.append(1); hd.join(30)
    print(json.dumps({"failed": bool(errors), "detail": errors[:4]}))
finally:
    group.terminate(timeout=2)
