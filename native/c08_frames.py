"""Native oracle for C08/C04 (sequential part): frames written by Message.to_io are read back by
Message.from_io through Popen2IO.read / SocketIO.read under an explicit chunking; a cut stream raises EOFError.
stdin: JSON {"cases":[{"code":int,"cid":int,"data_hex":str,"rest_hex":str,"chunks":[int...],"cut":int|null,"transport":"popen"|"socket"}]}
stdout: JSON {"failed":bool,"results":[...]}"""
import io, json, sys
from execnet import gateway_base as gb
from execnet.gateway_socket import SocketIO

class Chunked:
    """Environment double: a pipe/socket delivering exactly the scripted chunk sizes (cycled), then b''."""
    def __init__(self, data, chunks):
        self.data, self.chunks, self.i = data, chunks or [1 << 30], 0
    def _next(self, n):
        k = max(1, min(n, self.chunks[self.i % len(self.chunks)])); self.i += 1
        out, self.data = self.data[:k], self.data[k:]
        return out
    def read(self, n): return self._next(n)
    def recv(self, n): return self._next(n)
    def setsockopt(self, *a): pass
    def flush(self): pass
    def close(self): pass

class Sink:
    def __init__(self): self.writes = []
    def write(self, b): self.writes.append(bytes(b))
    def flush(self): pass

def make_io(transport, stream):
    em = gb.get_execmodel("thread")
    if transport == "socket":
        s = object.__new__(SocketIO); s.sock = stream; s.execmodel = em
        return s
    return gb.Popen2IO(Sink(), stream, em)

def run(case):
    code, cid = case["code"], case["cid"]
    data, rest = bytes.fromhex(case["data_hex"]), bytes.fromhex(case.get("rest_hex", ""))
    sink = Sink()
    try:
        gb.Message(code, cid, data).to_io(sink)
    except Exception as e:
        return {"failed": True, "why": f"to_io raised {type(e).__name__}: {e}"}
    if len(sink.writes) != 1:
        return {"failed": True, "why": f"{len(sink.writes)} writes for one frame"}
    wire = sink.writes[0]
    import struct
    ref = struct.pack("!bii", code, cid, len(data)) + data
    if wire != ref:
        return {"failed": True, "why": "wire bytes differ from the reference frame layout", "wire": wire[:32].hex(), "ref": ref[:32].hex()}
    cut = case.get("cut")
    stream_bytes = wire + rest if cut is None else wire[:cut]
    st = Chunked(stream_bytes, case.get("chunks"))
    ioobj = make_io(case.get("transport", "popen"), st)
    try:
        m = gb.Message.from_io(ioobj)
    except EOFError as e:
        if cut is None:
            return {"failed": True, "why": f"EOFError on a complete frame: {e}"}
        return {"failed": False, "why": "EOFError on cut stream"}
    except Exception as e:
        return {"failed": True, "why": f"from_io raised {type(e).__name__}: {e}"}
    if cut is not None:
        return {"failed": True, "why": f"a strict prefix ({cut} of {len(wire)} bytes) produced a message"}
    if (m.msgcode, m.channelid, m.data) != (code, cid, data):
        return {"failed": True, "why": f"read back {(m.msgcode, m.channelid, m.data[:16])!r} != sent {(code, cid, data[:16])!r}"}
    left = st.data
    if left != rest:
        return {"failed": True, "why": f"bytes after the frame were consumed or lost: {len(left)} left, expected {len(rest)}"}
    return {"failed": False}

def main():
    spec = json.load(sys.stdin)
    results = []
    for c in spec["cases"]:
        r = run(c); r["case"] = {k: (v if k != "data_hex" or len(v) < 64 else v[:64] + "...") for k, v in c.items()}
        results.append(r)
    bad = [r for r in results if r["failed"]]
    print(json.dumps({"failed": bool(bad), "results": bad[:5] or results[:2], "n": len(results)}))

main()
