"""Native oracle for C09: WorkerPool runs every accepted task exactly once and reports truthfully.
argv: scenario name(s).  prints JSON {failed, results}"""
import json, sys, threading, time
from execnet.gateway_base import WorkerPool, get_execmodel

def shutdown_after_spawn(model):
    """spawn(f); trigger_shutdown(); integrate_as_primary_thread()  -> f must still run exactly once"""
    pool = WorkerPool(get_execmodel(model), hasprimary=True)
    ran = []
    r = pool.spawn(ran.append, 1)
    pool.trigger_shutdown()
    t = threading.Thread(target=pool.integrate_as_primary_thread, daemon=True); t.start(); t.join(3)
    if t.is_alive():
        return {"failed": True, "why": "integrate_as_primary_thread did not return after shutdown"}
    ok = pool.waitall(timeout=1.0)
    if ran != [1]:
        return {"failed": True, "why": f"accepted task ran {len(ran)} times (waitall -> {ok})"}
    if not ok:
        return {"failed": True, "why": "waitall false although the task finished"}
    return {"failed": False}

def stress(model, nspawners=3, ntasks=40):
    pool = WorkerPool(get_execmodel(model), hasprimary=(model == "thread"))
    counts = {}
    lock = threading.Lock()
    def task(i):
        with lock: counts[i] = counts.get(i, 0) + 1
        return i * 2
    replies = {}
    prim = None
    if model == "thread":
        prim = threading.Thread(target=pool.integrate_as_primary_thread, daemon=True); prim.start()
    def spawner(base):
        for k in range(ntasks):
            i = base * 1000 + k
            try:
                replies[i] = pool.spawn(task, i)
            except ValueError:
                return
    ths = [threading.Thread(target=spawner, args=(b,)) for b in range(nspawners)]
    for t in ths: t.start()
    time.sleep(0.002)
    pool.trigger_shutdown()
    for t in ths: t.join()
    done = pool.waitall(timeout=5.0)
    if prim: prim.join(3)
    bad = []
    if not done: bad.append("waitall timed out")
    for i, r in list(replies.items()):
        try:
            if r.get(timeout=2.0) != i * 2: bad.append(f"wrong result for {i}")
        except Exception as e:
            bad.append(f"reply {i}: {type(e).__name__}")
        if counts.get(i, 0) != 1: bad.append(f"task {i} ran {counts.get(i, 0)} times")
    if prim and prim.is_alive(): bad.append("primary thread did not leave after shutdown")
    try:
        pool.spawn(task, -1); bad.append("spawn accepted after shutdown")
    except ValueError: pass
    return {"failed": bool(bad), "why": bad[:4]}

SC = {"shutdown_after_spawn_thread": lambda: shutdown_after_spawn("thread"), "shutdown_after_spawn_mto": lambda: shutdown_after_spawn("main_thread_only"),
      "stress_thread": lambda: stress("thread"), "stress_nopri": lambda: stress("main_thread_only", 3, 30)}
res = []
for name in sys.argv[1:] or list(SC):
    for rep in range(20 if name.startswith("stress") else 1):
        r = SC[name](); r["scenario"] = name
        res.append(r)
        if r["failed"]: break
bad = [r for r in res if r["failed"]]
print(json.dumps({"failed": bool(bad), "results": bad[:4] or res[:1], "n": len(res)}))
