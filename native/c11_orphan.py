"""Native scenarios for C11: workers terminate by themselves when the initiator is gone.
argv: 'quick' (fast-exiting activities) or 'thorough' (adds the 15 s worst case).  prints JSON"""
import json, os, signal, subprocess, sys, time
MODE = sys.argv[1] if len(sys.argv) > 1 else "quick"
INITIATOR = r'''
import execnet, os, sys, time
gw = execnet.makegateway("popen//execmodel=%(model)s")
ch = gw.remote_exec("import os; channel.send(os.getpid())")
print(ch.receive(10), flush=True)
ch2 = gw.remote_exec(%(body)r)
ch2.receive(10)
print("ready", flush=True)
time.sleep(60)
'''
BODIES = {
    "idle": "channel.send(1)",
    "blocked-in-receive": "channel.send(1); channel.receive()",
    "sleeping": "channel.send(1)\nimport time\ntime.sleep(600)",
    "busy": "channel.send(1)\nwhile True: pass",
    "swallows-interrupt": "channel.send(1)\nimport time\nwhile True:\n    try:\n        time.sleep(0.1)\n    except KeyboardInterrupt:\n        pass",
    "streaming-thread": "import threading, time\ndef pump():\n    i = 0\n    while 1:\n        channel.send(i); i += 1\nt = threading.Thread(target=pump, daemon=True); t.start(); time.sleep(600)",
    "daemon-thread": "import threading, time\nt = threading.Thread(target=time.sleep, args=(600,), daemon=True); t.start(); channel.send(1)",
}
def alive(pid):
    try:
        os.kill(pid, 0)
        with open(f"/proc/{pid}/stat") as f:
            return f.read().split()[2] != "Z"
    except OSError:
        return False
cases = [("idle", "thread", "kill"), ("blocked-in-receive", "thread", "kill"), ("sleeping", "thread", "kill"), ("busy", "thread", "kill"), ("daemon-thread", "thread", "kill"), ("streaming-thread", "thread", "kill"),
         ("blocked-in-receive", "main_thread_only", "kill"), ("sleeping", "main_thread_only", "term")]
if MODE == "thorough":
    cases += [("swallows-interrupt", "thread", "kill"), ("swallows-interrupt", "main_thread_only", "kill")]
bad, n = [], 0
env = dict(os.environ)
for body, model, how in cases:
    p = subprocess.Popen([sys.executable, "-c", INITIATOR % {"model": model, "body": BODIES[body]}], stdout=subprocess.PIPE, text=True, env=env)
    try:
        wpid = int(p.stdout.readline())
        assert p.stdout.readline().strip() == "ready"
        t0 = time.time()
        os.kill(p.pid, signal.SIGKILL if how == "kill" else signal.SIGTERM)
        p.wait()
        limit = 17.5
        while alive(wpid) and time.time() - t0 < limit:
            time.sleep(0.1)
        dt = time.time() - t0
        n += 1
        if alive(wpid):
            bad.append(f"worker ({body}, {model}) still alive {dt:.1f} s after the initiator was killed")
            os.kill(wpid, signal.SIGKILL)
    except Exception as e:
        bad.append(f"({body}, {model}): scenario error {type(e).__name__}: {e!s:.60}")
        p.kill()
print(json.dumps({"failed": bool(bad), "results": bad[:4], "n": n}))
