"""Native oracle for C13: loads() on arbitrary bytes is total and raises only DataFormatError / EOFError.
stdin JSON {"cases":[hex...], "mutate":[values-as-python-literals...], "known_huge_alloc": bool}"""
import ast, json, sys, random
from execnet.gateway_base import dumps, loads, DataFormatError, Channel
SUPPORTED = (type(None), bool, int, float, complex, bytes, str, list, tuple, dict, set, frozenset)

def only_supported(v):
    if type(v) not in SUPPORTED: return False
    if isinstance(v, (list, tuple, set, frozenset)): return all(only_supported(x) for x in v)
    if isinstance(v, dict): return all(only_supported(k) and only_supported(x) for k, x in v.items())
    return True

import resource
resource.setrlimit(resource.RLIMIT_AS, (700 << 20, 700 << 20))  # adversarial length fields hit MemoryError quickly instead of thrashing

def run(b):
    try:
        v = loads(b)
    except (DataFormatError, EOFError):
        return {"failed": False}
    except (RecursionError, MemoryError, OverflowError):
        # length fields demanding more memory than the input justifies: tracked by the statement as a separate known finding
        return {"failed": False, "skipped": True}
    except BaseException as e:
        return {"failed": True, "why": f"{type(e).__name__}: {e!s:.80}"}
    if not only_supported(v):
        return {"failed": True, "why": f"returned a value with an unsupported type: {v!r:.60}"}
    return {"failed": False, "loaded": True}

spec = json.load(sys.stdin)
cases = [bytes.fromhex(h) for h in spec.get("cases", [])]
rng = random.Random(spec.get("seed", 0))
for lit in spec.get("mutate", []):
    d = dumps(eval(lit, {"frozenset": frozenset, "float": float, "complex": complex}))
    for k in range(len(d)):
        cases.append(d[:k])                                 # every strict prefix
    for k in range(len(d)):
        cases.append(d[:k] + d[k+1:])                       # every deletion
        for sub in (spec.get("subs") or (0, 0x7f, 0xff, ord("P"), ord("Q"), ord("B"), ord("@"), ord("K"), rng.randrange(256))):
            cases.append(d[:k] + bytes([sub]) + d[k+1:])    # substitutions
            cases.append(d[:k] + bytes([sub]) + d[k:])      # insertions
prefix_loaded = []
for lit in spec.get("mutate", []):
    d = dumps(eval(lit, {"frozenset": frozenset, "float": float, "complex": complex}))
    for k in range(len(d)):
        try:
            loads(d[:k]); prefix_loaded.append((lit, k))
        except (DataFormatError, EOFError): pass
        except BaseException: pass
res = []
for b in cases:
    r = run(b); r["hex"] = b[:40].hex(); res.append(r)
# valid dumps with long byte/text payloads (on both sides of 2**16 and 2**20) must load, to supported types only, also as dict keys and set members
for n in (65535, 65536, 65537, 70000, (1 << 20) + 3):
    for mk in (lambda n: (b"x" * n,), lambda n: {b"y" * n: 1}, lambda n: frozenset([b"z" * n]), lambda n: ["u" * n, {("t" * n,): None}]):
        v = mk(n)
        try: got = loads(dumps(v))
        except BaseException as e: res.append({"failed": True, "why": f"valid dump with a payload of {n} bytes did not load: {type(e).__name__}: {e!s:.60}", "hex": ""}); continue
        ok = only_supported(got) and got == v
        res.append({"failed": not ok, "why": f"valid dump with a payload of {n} bytes loaded to an unsupported type or another value ({type(got).__name__} of {[type(x).__name__ for x in got][:2]})", "hex": ""} if not ok else {"failed": False, "loaded": True, "hex": ""})
bad = [r for r in res if r["failed"]]
if prefix_loaded:
    bad.append({"failed": True, "why": f"a strict prefix loaded successfully: {prefix_loaded[:3]}"})
print(json.dumps({"failed": bool(bad), "results": bad[:8] or res[:1], "n": len(res), "skipped": sum(1 for r in res if r.get("skipped"))}))
