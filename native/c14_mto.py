"""Native oracle for C14: main_thread_only executes in the main thread, one at a time, never cries deadlock falsely.
prints JSON {failed, results}.  Histories of remote_exec outcomes (return / raise / SystemExit / interrupted) followed by another remote_exec."""
import json, sys, time
import execnet

BODIES = {
    "return": "import threading; channel.send(threading.current_thread() is threading.main_thread())",
    "raise": "raise ValueError('boom')",
    "sysexit": "raise SystemExit(3)",
    "baseexc": "class X(BaseException): pass\nraise X()",
}

def run_history(hist):
    group = execnet.Group()
    gw = group.makegateway("popen//execmodel=main_thread_only")
    try:
        for k, kind in enumerate(hist):
            ch = gw.remote_exec(BODIES[kind])
            try:
                if kind == "return":
                    if ch.receive(10) is not True:
                        return {"failed": True, "why": f"step {k}: body did not run in the main thread"}
                ch.waitclose(10)
            except ch.RemoteError as e:
                if "deadlock" in str(e):
                    return {"failed": True, "why": f"step {k} ({kind}) after {hist[:k]}: false deadlock error although the previous channel had closed"}
                if kind == "return":
                    return {"failed": True, "why": f"step {k}: unexpected RemoteError {str(e)[:60]}"}
            except EOFError:
                return {"failed": True, "why": f"step {k} ({kind}): connection lost"}
        # overlapping submission: the second one must get the documented deadlock error, the first must be undisturbed
        ch1 = gw.remote_exec("channel.receive(); channel.send('first done')")
        ch2 = gw.remote_exec("channel.send('should not run')")
        try:
            ch2.receive(10)
            return {"failed": True, "why": "overlapping remote_exec ran instead of failing with the deadlock error"}
        except ch2.RemoteError as e:
            if "deadlock" not in str(e):
                return {"failed": True, "why": f"overlapping remote_exec failed with another error: {str(e)[:60]}"}
        ch1.send(None)
        if ch1.receive(10) != "first done":
            return {"failed": True, "why": "the earlier remote_exec was disturbed"}
        ch1.waitclose(10)
        ch3 = gw.remote_exec("channel.send(7)")
        if ch3.receive(10) != 7:
            return {"failed": True, "why": "remote_exec after the overlap did not run"}
        return {"failed": False}
    finally:
        group.terminate(timeout=2)

hists = [["return"], ["raise"], ["raise", "return"], ["sysexit", "return"], ["baseexc", "return"], ["return", "raise", "raise", "return"]]
if len(sys.argv) > 1:
    hists = json.loads(sys.argv[1])
res = []
for h in hists:
    r = run_history(h); r["history"] = h; res.append(r)
bad = [r for r in res if r["failed"]]
print(json.dumps({"failed": bool(bad), "results": bad[:4] or res[:1], "n": len(res)}))
