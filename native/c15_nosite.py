"""Native scenario for C15: workers bootstrapped from transmitted source on an interpreter that cannot import execnet."""
import json, os, sys, tempfile, stat
import execnet
bad = []
d = tempfile.mkdtemp(prefix="c15_")
wrapper = os.path.join(d, "py-nosite")
with open(wrapper, "w") as f:
    f.write("#!/bin/sh\nexec env -u PYTHONPATH %s -S -E \"$@\"\n" % sys.executable)
os.chmod(wrapper, 0o755)
PROG = """
try:
    import execnet
    channel.send('execnet importable')
except ImportError:
    channel.send('clean')
for x in channel:
    channel.send(x * 2)
"""
def exercise(gw, name):
    ch = gw.remote_exec(PROG)
    if ch.receive(10) != "clean": bad.append(f"{name}: execnet is importable on the worker (not a from-source bootstrap)")
    ch.send(21); 
    if ch.receive(10) != 42: bad.append(f"{name}: channel program failed")
    ch.close()
    def f(channel, a): channel.send(a + 1)
    if gw.remote_exec(f, a=1).receive(10) != 2: bad.append(f"{name}: remote_exec(function) failed")
    # "behaves like an import-bootstrapped worker": it runs the execution model its spec asked for, with the main-thread guarantee that goes with it
    want = gw.spec.execmodel or "thread"
    got = gw.remote_exec("import threading; channel.send((channel.gateway.execmodel.backend, threading.current_thread() is threading.main_thread()))").receive(10)
    if got[0] != want or (want == "main_thread_only" and not got[1]):
        bad.append(f"{name}: the worker runs execmodel {got[0]!r} (in main thread: {got[1]}), its spec asked for {want!r}")
n = 0
group = execnet.Group()
try:
    for spec, name in ((f"popen//python={wrapper}", "exec-over-pipe"), (f"popen//python={wrapper}//execmodel=main_thread_only", "exec-over-pipe-mto")):
        try:
            exercise(group.makegateway(spec), name); n += 1
        except Exception as e:
            bad.append(f"{name}: {type(e).__name__}: {e!s:.80}")
    try:
        group.makegateway(f"popen//python={wrapper}//id=master")
        exercise(group.makegateway(f"popen//via=master//python={wrapper}"), "exec-via-proxy"); n += 1
    except Exception as e:
        bad.append(f"exec-via-proxy: {type(e).__name__}: {e!s:.80}")
    try:
        exercise(group.makegateway("socket//installvia=master"), "socket-server"); n += 1
    except Exception as e:
        bad.append(f"socket-server: {type(e).__name__}: {e!s:.80}")
finally:
    group.terminate(timeout=3)
    import shutil; shutil.rmtree(d, ignore_errors=True)
print(json.dumps({"failed": bool(bad), "results": bad[:5], "n": n}))
