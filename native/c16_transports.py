"""Native scenarios for C16: the same channel programs on popen, popen//python=, socket//installvia and popen//via must give
the same transcript; control operations (wait / kill / close_write) of a proxied gateway reach the sub process; a cut sub
stream is reported through the proxy like a cut pipe.
argv: quick|thorough ; prints JSON {failed, results, n}"""
import json, os, random, signal, sys, time
import execnet

MODE = sys.argv[1] if len(sys.argv) > 1 else "quick"
T = 20
ECHO = """
import os
for item in channel:
    if item == 'pid':
        channel.send(os.getpid())
    elif isinstance(item, tuple) and item and item[0] == 'sub':
        c = channel.gateway.newchannel(); channel.send(c); c.send(item[1]); c.close()
    elif isinstance(item, tuple) and item and item[0] == 'raise':
        raise ValueError(item[1])
    else:
        channel.send(item)
"""


def payloads(rnd, big):
    # 4081, 8177, 65521, 131057: a bytes item of that size makes a frame (9 header + 15 serializer bytes) of exactly 2**12, 2**13, 2**16, 2**17 bytes
    sizes = [0, 1, 9, 4081, 4095, 4096, 4097, 8177, 65521, 65536 + 3, 131057] + ([1 << 20, (1 << 22) + 1] if big else [])
    out = []
    for n in sizes:
        out.append(bytes(rnd.getrandbits(8) for _ in range(min(n, 4096))) * (n // 4096 + 1))
        out[-1] = out[-1][:n]
    out += [b"\r\n\x00\xff\n\r" * 700, "é€\U0001f600" * 500, "line1\nline2\r\nline3\r", list(range(300)), {"k": (1, 2.5, None, True, b"\n")}, -(2**63), 2**64, 1.5,
            frozenset([1, 2]), {1, "a"}, (), [], {}, "", b""]
    return out


def transcript(gw, rnd, big):
    out = []
    ch = gw.remote_exec(ECHO)
    for p in payloads(rnd, big):
        ch.send(p)
        r = ch.receive(T)
        out.append(("echo", type(r).__name__, r if not isinstance(r, (bytes, str)) or len(r) < 64 else (len(r), hash(r))))
        if r != p or type(r) is not type(p):
            out.append(("MISMATCH", repr(p)[:40], repr(r)[:40]))
    ch.send(("sub", b"x" * 70000))
    c = ch.receive(T)
    out.append(("sub", len(c.receive(T))))
    try:
        c.receive(T); out.append(("sub", "no EOF"))
    except EOFError:
        out.append(("sub", "EOF"))
    ch.send(("raise", "boom é"))
    try:
        ch.receive(T); out.append(("error", "none"))
    except ch.RemoteError as e:
        out.append(("error", "ValueError: boom é" in e.formatted))
    ch.waitclose(T)
    got = []
    ch2 = gw.remote_exec("for i in range(200): channel.send((i, b'\\n' * i))")
    ch2.setcallback(got.append, endmarker="END")
    ch2.waitclose(T)
    t0 = time.time()
    while (not got or got[-1] != "END") and time.time() - t0 < T:
        time.sleep(0.01)
    out.append(("callback", len(got), got[-1] if got else None, all(got[i] == (i, b"\n" * i) for i in range(min(200, len(got))))))
    ch3 = gw.remote_exec("channel.send(channel.receive() * 2)")
    ch3.send(21); out.append(("close", ch3.receive(T))); ch3.waitclose(T)
    try:
        ch3.send(1); out.append(("close", "send allowed"))
    except OSError:
        out.append(("close", "send refused"))
    st = gw.remote_status()
    out.append(("status", st.execmodel))
    return out


def socket_gateway(group):
    group.makegateway("popen//id=sockhost")
    return group.makegateway("socket//installvia=sockhost//id=viasock")


def finish(g, t=3):
    try:
        g.terminate(t)
    except Exception:
        pass   # Group.terminate problems are C05's subject


bad, n = [], 0
specs = [("popen", lambda g: g.makegateway("popen//id=direct")),
         ("popen//python", lambda g: g.makegateway("popen//python=%s//id=py" % sys.executable)),
         ("socket//installvia", socket_gateway),
         ("popen//via", lambda g: (g.makegateway("popen//id=master"), g.makegateway("popen//via=master//id=proxied"))[1])]
models = ["thread", "main_thread_only"]
try:
    import gevent  # noqa: F401  (remote execmodel only; the initiator stays on threads)
    models.append("gevent")
except ImportError:
    pass
ref = None
for seed in ([1] if MODE == "quick" else [1, 2, 3]):
    for model in models:
        for name, mk in specs:
            g = execnet.Group()
            g.set_execmodel("thread", model)
            try:
                gw = mk(g)
                t = transcript(gw, random.Random(seed), MODE == "thorough")
                n += 1
                if any(x[0] == "MISMATCH" for x in t):
                    bad.append(f"{name} ({model}): item changed in transit: {[x for x in t if x[0] == 'MISMATCH'][:2]}")
                if ref is None or ref[0] != (seed, model):
                    ref = ((seed, model), name, t)
                elif t != ref[2]:
                    diff = [(a, b) for a, b in zip(ref[2], t) if a != b][:2]
                    bad.append(f"{name} ({model}) differs from {ref[1]}: {diff!r:.200}")
            except Exception as e:
                bad.append(f"{name} ({model}): {type(e).__name__}: {e!s:.120}")
            finally:
                finish(g)


def alive(pid):
    try:
        with open(f"/proc/{pid}/stat") as f:
            return f.read().split()[2] != "Z"
    except OSError:
        return False


# control operations through the proxy ------------------------------------------------------------------------------
def control():
    out = []
    g = execnet.Group()
    try:
        g.makegateway("popen//id=m")
        gw = g.makegateway("popen//via=m//id=p")
        pid = gw.remote_exec("import os; channel.send(os.getpid())").receive(T)
        io = gw._io
        # kill reaches the sub process
        io.kill()
        t0 = time.time()
        while alive(pid) and time.time() - t0 < 5:
            time.sleep(0.05)
        if alive(pid):
            out.append("ProxyIO.kill(): proxied process still alive after 5 s")
        gw.join(10)   # the receiver thread's epilogue uses the control channel too (close_write): control requests are one at a time
        r = io.wait()
        if r is None or r == 0:
            out.append(f"ProxyIO.wait() after kill returned {r!r}, expected the kill status")
    except Exception as e:
        out.append(f"kill/wait: {type(e).__name__}: {e!s:.100}")
    finally:
        finish(g)
    g = execnet.Group()
    try:
        g.makegateway("popen//id=m")
        gw = g.makegateway("popen//via=m//id=p")
        pid = gw.remote_exec("import os; channel.send(os.getpid())").receive(T)
        gw.exit()   # GATEWAY_TERMINATE + close_write through the proxy
        t0 = time.time()
        while alive(pid) and time.time() - t0 < 8:
            time.sleep(0.05)
        if alive(pid):
            out.append("exit() of a proxied gateway: sub process still alive after 8 s (close_write did not reach it)")
        r = gw._io.wait()
        if r != 0:
            out.append(f"ProxyIO.wait() after exit returned {r!r}")
    except Exception as e:
        out.append(f"exit: {type(e).__name__}: {e!s:.100}")
    finally:
        finish(g)
    return out


# a cut stream: the proxied process dies in the middle; a popen gateway reports this as channel EOF / closed gateway ------------
def cut(spec_mk, name):
    out = []
    g = execnet.Group()
    try:
        gw = spec_mk(g)
        ch = gw.remote_exec("import os; channel.send(os.getpid()); channel.receive()")
        pid = ch.receive(T)
        os.kill(pid, signal.SIGKILL)
        t0 = time.time()
        try:
            ch.receive(10)
            out.append(f"{name}: receive returned an item after the worker was killed")
        except EOFError as e:
            # a popen gateway records the cut stream as gateway error: the EOFError says how many bytes were missing, and waitclose() raises it too
            try:
                ch.waitclose(5)
                out.append(f"{name}: waitclose() returned normally after the worker was killed (popen raises the gateway's EOFError)")
            except EOFError:
                pass
        except ch.TimeoutError:
            out.append(f"{name}: receive still blocked 10 s after the worker was killed (popen reports EOFError)")
        if not out:
            t0 = time.time()
            while gw.hasreceiver() and time.time() - t0 < 5:
                time.sleep(0.05)
            if gw.hasreceiver():
                out.append(f"{name}: receiver thread still alive 5 s after the worker was killed")
    except Exception as e:
        out.append(f"{name}: {type(e).__name__}: {e!s:.100}")
    finally:
        finish(g, 2)
    return out


# the three IO classes on the same byte stream, cut at every position of two frames -------------------------------------------------
def io_level():
    import socket
    from execnet import gateway_base as gb
    from execnet.gateway_io import ProxyIO
    from execnet.gateway_socket import SocketIO
    out = []
    em = gb.get_execmodel("thread")
    stream = b"".join(gb.Message(4, i, bytes([i]) * (3 + i)).pack() if hasattr(gb.Message, "pack") else b"" for i in range(2))
    if not stream:
        import struct
        stream = b"".join(struct.pack("!bii", 4, i, 3 + i) + bytes([i]) * (3 + i) for i in range(2))
    g = execnet.Group()
    gw = g.makegateway("popen")
    try:
        for cut in list(range(len(stream) + 1)):
            data = stream[:cut]
            res = {}
            # pipe
            r, w_ = os.pipe()
            os.write(w_, data); os.close(w_)
            pio = gb.Popen2IO(open(os.devnull, "wb"), os.fdopen(r, "rb"), em)
            # socket
            a, b = socket.socketpair()
            a.sendall(data); a.close()
            sio = SocketIO(b, em)
            # proxy: the io channel carries the same bytes in items of 1..4 bytes, then ends
            ch = gw.remote_exec("d = channel.receive()\nwhile d:\n    channel.send(d[:3]); d = d[3:]")
            ch.send(data)
            xio = ProxyIO.__new__(ProxyIO)
            xio.iochan = ch; xio.iochan_file = ch.makefile("r"); xio.controlchan = None; xio.execmodel = em
            for nm, io in (("popen", pio), ("socket", sio), ("proxy", xio)):
                seq = []
                for _ in range(4):
                    try:
                        m = gb.Message.from_io(io)
                        seq.append((m.msgcode, m.channelid, m.data))
                    except EOFError:
                        seq.append("EOFError"); break
                    except Exception as e:
                        seq.append(type(e).__name__); break
                try:
                    io.close_read(); seq.append("closed")
                except Exception as e:
                    seq.append("close_read:" + type(e).__name__)
                res[nm] = seq
            if not (res["popen"] == res["socket"] == res["proxy"]):
                out.append(f"stream of two frames cut after {cut} bytes: popen {res['popen'][-2:]} socket {res['socket'][-2:]} proxy {res['proxy'][-2:]}")
                if len(out) >= 2:
                    break
    finally:
        finish(g)
    return out


# the worker dies right after a burst of items: whatever it wrote must still arrive, on every transport -----------------------------------------
def dying_burst():
    out = []
    shapes = [(20, 10), (3000, 10), (800, 100), (300, 2000)]
    for name, mk in (specs[0], specs[2], specs[3]):
        g = execnet.Group()
        try:
            gw = mk(g)
            for count, size in shapes:
                ch = gw.remote_exec("import os\nfor i in range(%d): channel.send((i, b'x' * %d))\nos._exit(0)" % (count, size))
                got = 0
                try:
                    while True:
                        i, _b = ch.receive(T)
                        if i != got:
                            out.append(f"{name}: item {got} of a dying worker's burst arrived as {i}")
                            break
                        got += 1
                except EOFError:
                    pass
                if got != count:
                    out.append(f"{name}: {got} of {count} items ({size} bytes each) arrived before EOF after the worker exited")
                break_after = True
                # the gateway is gone now: a new one for the next shape
                finish(g)
                g = execnet.Group()
                gw = mk(g)
        except Exception as e:
            out.append(f"{name}: {type(e).__name__}: {e!s:.100}")
        finally:
            finish(g)
    return out[:4]


for f in (control, io_level, dying_burst, lambda: cut(specs[0][1], "popen"), lambda: cut(specs[3][1], "popen//via"), lambda: cut(socket_gateway, "socket")):
    n += 1
    bad += f()
print(json.dumps({"failed": bool(bad), "results": bad[:6], "n": n}))
