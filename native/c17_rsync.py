"""Native differential oracle for C17: generated source trees x prior target states x delete flag x 1-3 targets x working directories x
modify-then-resync steps, on real popen gateways and the real file system.  After RSync.send() every target must equal the source (kind,
content, permission bits, mtime, link target corresponding), extra entries gone (delete) or untouched (no delete), and a re-sync of an unchanged
tree must transfer no content and change nothing.
argv: quick|thorough [seed] ; prints JSON {failed, results, n}"""
import json, os, random, shutil, stat, sys, tempfile, time
import execnet
from execnet.rsync import RSync

MODE = sys.argv[1] if len(sys.argv) > 1 else "quick"
SEED = int(sys.argv[2]) if len(sys.argv) > 2 else 1
NAMES = ["a", "b c", "é", "x.txt", "sub", "deep", "Z", "ünï", "f1", "link", "..data", "...", ".hidden"]


VARIANT = {"slash": False, "callback": False}      # per round: source directory given with a trailing '/', progress callback registered


class Rep(RSync):
    def __init__(self, src, *a, **k):
        self.events = []
        if VARIANT["callback"]:
            k["callback"] = lambda *ev: self.events.append(ev[:2])
        super().__init__(src + os.sep if VARIANT["slash"] else src, *a, verbose=False, **k)
        self.sent = []

    def _report_send_file(self, gateway, modified_rel_path):
        self.sent.append(modified_rel_path)


def gen_tree(rnd, root, depth=0, outside=None):
    os.makedirs(root, exist_ok=True)
    names = rnd.sample(NAMES, rnd.randint(0 if depth else 1, 4))
    for n in names:
        p = os.path.join(root, n)
        kind = rnd.choice(["file", "file", "dir", "rellink", "abslink", "outlink", "dangling"] if depth < 2 else ["file", "file", "rellink"])
        if kind == "file":
            with open(p, "wb") as f:
                f.write(rnd.choice([b"", b"x", bytes(rnd.getrandbits(8) for _ in range(rnd.randint(1, 300))), b"\r\n\x00" * 50, b"A" * 70000]))
            os.chmod(p, rnd.choice([0o644, 0o600, 0o755, 0o640, 0o444, 0o700, 0o664]))
            t = rnd.choice([1_000_000_000, 1_500_000_000.5, 1_234_567_890.25, time.time() - 1000])
            os.utime(p, (t, t))
        elif kind == "dir":
            gen_tree(rnd, p, depth + 1, outside)
            os.chmod(p, rnd.choice([0o755, 0o700, 0o750, 0o500]))
        elif kind == "rellink":
            os.symlink(rnd.choice(["a", "x.txt", "../a", "sub/a", "nothere"]), p)
        elif kind == "abslink":
            os.symlink(os.path.join(TOP_SRC[0], rnd.choice(["a", "sub", "sub/a", "x.txt", "..data", "..data/a", "...", ".hidden"])), p)
        elif kind == "outlink":
            os.symlink(outside, p)
        else:
            os.symlink("/nonexistent/target", p)


def make_writable(root):
    for d, dirs, files in os.walk(root):
        try:
            os.chmod(d, 0o700)
        except OSError:
            pass


def snapshot(root):
    """relative path -> (kind, perm, mtime, content / link target)"""
    out = {}
    for d, dirs, files in os.walk(root):
        for n in dirs + files:
            p = os.path.join(d, n)
            rel = os.path.relpath(p, root)
            st = os.lstat(p)
            if stat.S_ISLNK(st.st_mode):
                out[rel] = ("link", None, None, os.readlink(p))
            elif stat.S_ISDIR(st.st_mode):
                out[rel] = ("dir", stat.S_IMODE(st.st_mode), None, None)
            else:
                try:
                    with open(p, "rb") as f:
                        c = f.read()
                except OSError:
                    c = None
                out[rel] = ("file", stat.S_IMODE(st.st_mode), st.st_mtime, c)
    return out


def expected_link(src_root, dst_root, target):
    if os.path.isabs(target) and (target == src_root or target.startswith(src_root + os.sep)):
        return os.path.join(dst_root, os.path.relpath(target, src_root)) if target != src_root else None
    return target


def compare(src_root, dst_root, delete, before_dst):
    bad = []
    S, D = snapshot(src_root), snapshot(dst_root)
    for rel, (kind, perm, mtime, data) in S.items():
        if rel not in D:
            bad.append(f"{rel!r}: missing at the target")
            continue
        k2, p2, m2, d2 = D[rel]
        if k2 != kind:
            bad.append(f"{rel!r}: {kind} at the source, {k2} at the target")
        elif kind == "file":
            if d2 != data:
                bad.append(f"{rel!r}: content differs")
            if p2 != perm:
                bad.append(f"{rel!r}: permission bits {oct(perm)} at the source, {oct(p2)} at the target")
            if abs(m2 - mtime) > 1e-6:
                bad.append(f"{rel!r}: mtime {mtime} at the source, {m2} at the target")
        elif kind == "dir":
            if p2 != (perm | 0o700):
                bad.append(f"directory {rel!r}: permission bits {oct(perm)} at the source, {oct(p2)} at the target (expected source | 0o700)")
        else:
            want = expected_link(src_root, dst_root, data)
            if want is not None and d2 != want:
                bad.append(f"link {rel!r} -> {data!r}: target link points to {d2!r}, expected {want!r}")
    for rel in D:
        if rel not in S:
            top = rel.split(os.sep)[0]
            if delete:
                bad.append(f"{rel!r}: extra entry survived delete=True")
            elif rel in before_dst and before_dst[rel] != D[rel] and not any(r == top or r.startswith(top + os.sep) for r in S):
                bad.append(f"{rel!r}: unrelated entry changed without delete")
    if not delete:
        for rel in before_dst:
            if rel not in D and not any(rel == s or rel.startswith(s + os.sep) or s.startswith(rel + os.sep) for s in S):
                bad.append(f"{rel!r}: unrelated entry removed without delete")
    return bad


TOP_SRC = [None]
bad, n = [], 0
rounds = 6 if MODE == "quick" else 40
rnd = random.Random(SEED)
group = execnet.Group()
gws = [group.makegateway("popen") for _ in range(3)]
base = tempfile.mkdtemp(prefix="c17_")
start_cwd = os.getcwd()
try:
    for r in range(rounds):
        work = os.path.join(base, f"r{r}")
        src = os.path.join(work, "src")
        TOP_SRC[0] = src
        outside = os.path.join(work, "outside.txt")
        os.makedirs(work)
        open(outside, "w").write("o")
        gen_tree(rnd, src, outside=outside)
        if r == 0:
            # fixed entries every run has: an entry whose name starts with two dots, and an absolute link into it (inside the tree, not "outside")
            os.makedirs(os.path.join(src, "..data"), exist_ok=True) if not os.path.lexists(os.path.join(src, "..data")) else None
            if os.path.isdir(os.path.join(src, "..data")) and not os.path.islink(os.path.join(src, "..data")):
                open(os.path.join(src, "..data", "cfg"), "w").write("c")
                if not os.path.lexists(os.path.join(src, "current")):
                    os.symlink(os.path.join(src, "..data", "cfg"), os.path.join(src, "current"))
        ntargets = rnd.randint(1, 3)
        delete = rnd.random() < 0.5
        dsts = []
        for t in range(ntargets):
            d = os.path.join(work, f"dst{t}")
            prior = rnd.choice(["absent", "empty", "other-tree", "kinds-swapped", "links-in-the-way"])
            if prior == "empty":
                os.makedirs(d)
            elif prior == "other-tree":
                gen_tree(random.Random(rnd.random()), d, outside=outside)
                make_writable(d)
            elif prior == "links-in-the-way":
                # where the source has a directory / file the target has a symlink to a directory / file OUTSIDE the target tree
                os.makedirs(d)
                side = os.path.join(work, f"side{t}")
                os.makedirs(os.path.join(side, "adir"))
                open(os.path.join(side, "afile"), "w").write("outside file")
                for name, (kind, *_r) in snapshot(src).items():
                    if os.sep in name:
                        continue
                    os.symlink(os.path.join(side, "adir" if kind == "dir" else "afile"), os.path.join(d, name))
            elif prior == "kinds-swapped":
                os.makedirs(d)
                for name, (kind, *_r) in snapshot(src).items():
                    if os.sep in name:
                        continue
                    p = os.path.join(d, name)
                    if kind == "file":
                        os.makedirs(os.path.join(p, "inner"))
                    elif kind == "dir":
                        open(p, "w").write("was a file")
                    else:
                        open(p, "w").write("was a file, now a link")
            dsts.append(d)
        before = [snapshot(d) if os.path.exists(d) else {} for d in dsts]
        # working directory: outside, the source root, or a sub directory of it
        cwds = [work, src] + [os.path.join(src, x) for x, v in snapshot(src).items() if v[0] == "dir"]
        cwd = rnd.choice(cwds)
        try:
            os.chdir(cwd)
        except OSError:
            cwd = work
            os.chdir(work)
        VARIANT["slash"], VARIANT["callback"] = r % 3 == 1, r % 2 == 1
        rs = Rep(src)
        for gw, d in zip(gws, dsts):
            rs.add_target(gw, d, delete=delete) if delete else rs.add_target(gw, d)
        try:
            rs.send()
        except Exception as e:
            bad.append(f"round {r}: send() raised {type(e).__name__}: {e!s:.80}")
            os.chdir(start_cwd)
            continue
        os.chdir(start_cwd)
        n += 1
        for t in range(ntargets):
            side = os.path.join(work, f"side{t}")
            if os.path.isdir(side) and (sorted(os.listdir(side)) != ["adir", "afile"] or os.listdir(os.path.join(side, "adir")) or open(os.path.join(side, "afile")).read() != "outside file"):
                bad.append(f"round {r}: a directory outside target {t} (reached through a symlink that stood in the way) was modified")
        for t, d in enumerate(dsts):
            for b in compare(src, d, delete, before[t])[:3]:
                bad.append(f"round {r} (cwd={'src/' + os.path.relpath(cwd, src) if cwd.startswith(src) else 'outside'}, delete={delete}) target {t}: {b}")
        # re-sync of the unchanged tree: nothing sent, nothing changed
        snaps = [snapshot(d) for d in dsts]
        rs2 = Rep(src)
        for gw, d in zip(gws, dsts):
            rs2.add_target(gw, d, delete=delete) if delete else rs2.add_target(gw, d)
        try:
            rs2.send()
        except Exception as e:
            bad.append(f"round {r}: re-sync of an unchanged tree: send() raised {type(e).__name__}: {e!s:.80}" + (" (progress callback registered)" if VARIANT["callback"] else ""))
            continue
        n += 1
        if rs2.sent:
            bad.append(f"round {r}: re-sync of an unchanged tree transferred {rs2.sent[:3]}")
        for t, d in enumerate(dsts):
            if snapshot(d) != snaps[t]:
                bad.append(f"round {r}: re-sync of an unchanged tree changed target {t}")
        # mode-only change, then content change with the same size, then re-sync
        files = [rel for rel, v in snapshot(src).items() if v[0] == "file"]
        if files:
            f = os.path.join(src, rnd.choice(files))
            st0 = os.lstat(f)
            os.chmod(f, rnd.choice([0o644, 0o604, 0o440, 0o755]))
            os.utime(f, (st0.st_mtime, st0.st_mtime))
            rs3 = Rep(src)
            for gw, d in zip(gws, dsts):
                rs3.add_target(gw, d)
            try:
                rs3.send()
            except Exception as e:
                bad.append(f"round {r} after a mode-only change: send() raised {type(e).__name__}: {e!s:.80}")
                continue
            n += 1
            for t, d in enumerate(dsts):
                for b in compare(src, d, False, {})[:2]:
                    bad.append(f"round {r} after a mode-only change of {os.path.relpath(f, src)!r}: target {t}: {b}")
            # same content, new mtime and mode (touch + chmod): the checksum matches, no content travels, but mtime and mode must follow
            f2 = os.path.join(src, rnd.choice(files))
            os.chmod(f2, rnd.choice([0o600, 0o750, 0o644]))
            t2 = rnd.choice([1_600_000_000, 1_111_111_111.5])
            os.utime(f2, (t2, t2))
            rs4 = Rep(src)
            for gw, d in zip(gws, dsts):
                rs4.add_target(gw, d)
            try:
                rs4.send()
            except Exception as e:
                bad.append(f"round {r} after touch + chmod: send() raised {type(e).__name__}: {e!s:.80}")
                continue
            n += 1
            if os.path.getsize(f2) and os.path.relpath(f2, src).replace(os.sep, "/") in rs4.sent:
                bad.append(f"round {r}: touching {os.path.relpath(f2, src)!r} without changing its content transferred the content again")
            for t, d in enumerate(dsts):
                for b in compare(src, d, False, {})[:2]:
                    bad.append(f"round {r} after touch + chmod of {os.path.relpath(f2, src)!r} (content unchanged): target {t}: {b}")
        if len(bad) > 12:
            break
    # targets in DIFFERENT prior states within one send(): a copy with the same contents but other mtimes (checksum matches: no content for it),
    # next to targets that lack the files or hold other contents - each target must end up complete, whichever request the sender serves first
    for r in range(3 if MODE == "quick" else 10):
        work = os.path.join(base, f"mixed{r}")
        src = os.path.join(work, "src")
        TOP_SRC[0] = src
        os.makedirs(os.path.join(src, "sub"))
        for i in range(24):
            with open(os.path.join(src, "sub" if i % 3 == 0 else "", f"f{i:02d}.txt"), "w") as f:
                f.write(f"content {i} " * (1 + i * 40))
            os.utime(f.name, (1_500_000_000 + i, 1_500_000_000 + i))
        dsts = [os.path.join(work, f"dst{t}") for t in range(3)]
        shutil.copytree(src, dsts[0])                              # same contents, fresh mtimes
        for rel, v in snapshot(dsts[0]).items():
            if v[0] == "file":
                os.utime(os.path.join(dsts[0], rel), (1_400_000_000, 1_400_000_000))
        os.makedirs(os.path.join(dsts[2], "sub"))
        for i in range(0, 24, 2):                                  # other contents of the same and of another size
            with open(os.path.join(dsts[2], "sub" if i % 3 == 0 else "", f"f{i:02d}.txt"), "w") as f:
                f.write("old" if i % 4 else "x" * os.path.getsize(os.path.join(src, "sub" if i % 3 == 0 else "", f"f{i:02d}.txt")))
        VARIANT["slash"], VARIANT["callback"] = False, r % 2 == 1
        rs = Rep(src)
        for gw, d in zip(gws, dsts):
            rs.add_target(gw, d)
        try:
            rs.send()
        except Exception as e:
            bad.append(f"mixed round {r}: send() raised {type(e).__name__}: {e!s:.80}")
            continue
        n += 1
        for t, d in enumerate(dsts):
            for b in compare(src, d, False, {})[:2]:
                bad.append(f"mixed round {r} (targets: same-content copy with other mtimes / absent / other contents) target {t}: {b}")
        if len(bad) > 12:
            break
finally:
    os.chdir(start_cwd)
    group.terminate(2)
    make_writable(base)
    shutil.rmtree(base, ignore_errors=True)
print(json.dumps({"failed": bool(bad), "results": bad[:8], "n": n}))
