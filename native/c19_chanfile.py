"""Native oracle for C19: ChannelFileRead over a scripted channel vs io.StringIO over the concatenation.
stdin JSON {"cases":[{"items":[str...],"calls":[["read",n]|["readline"]...], "proxyclose":bool}]}"""
import io, json, sys
from execnet import gateway_base as gb

class ScriptedChannel:
    """Environment double for the peer: yields the items, then EOFError for ever."""
    def __init__(self, items): self.items = list(items); self.closed = 0; self.sent = []
    def receive(self, timeout=None):
        if self.items: return self.items.pop(0)
        raise EOFError()
    def close(self, error=None): self.closed += 1
    def isclosed(self): return bool(self.closed)
    def send(self, x):
        if self.closed: raise OSError("cannot send")
        self.sent.append(x)
    id = 1

def run(case):
    ch = ScriptedChannel(case["items"])
    f = gb.ChannelFileRead(ch, proxyclose=case.get("proxyclose", False))
    ref = io.StringIO("".join(case["items"]))
    for k, call in enumerate(case["calls"]):
        try:
            if call[0] == "read":
                got, want = f.read(call[1]), ref.read(call[1])
            else:
                got, want = f.readline(), ref.readline()
        except Exception as e:
            return {"failed": True, "why": f"call {k} {call}: {type(e).__name__}: {e}"}
        if got != want:
            return {"failed": True, "why": f"call {k} {call}: got {got!r}, a file returns {want!r}"}
    return {"failed": False}

def run_write(case):
    ch = ScriptedChannel([])
    f = gb.ChannelFileWrite(ch, proxyclose=case.get("proxyclose", False))
    for x in case["writes"]:
        f.write(x); f.flush()
    if ch.sent != case["writes"]:
        return {"failed": True, "why": f"writes {case['writes']!r} arrived as items {ch.sent!r}"}
    f.close()
    if ch.closed != (1 if case.get("proxyclose") else 0):
        return {"failed": True, "why": f"close() closed the channel {ch.closed} times with proxyclose={case.get('proxyclose')}"}
    if case.get("proxyclose"):
        try:
            f.write("x")
            return {"failed": True, "why": "write after close did not raise"}
        except OSError:
            pass
    return {"failed": False}

spec = json.load(sys.stdin)
res = []
for c in spec["cases"]:
    r = run_write(c) if "writes" in c else run(c)
    r["case"] = c
    res.append(r)
bad = [r for r in res if r["failed"]]
print(json.dumps({"failed": bool(bad), "results": bad[:5] or res[:1], "n": len(res)}))
