"""Witness attempt for C20: two threads register gateways with the same explicit id (check-then-append in Group._register).
Environment doubles: the two 'gateways' are bare objects with an id (no process needed to exercise _register)."""
import json, sys, threading
import execnet
sys.setswitchinterval(1e-6)
trials = int(sys.argv[1]) if len(sys.argv) > 1 else 20000
class FakeGw:
    def __init__(self, id): self.id = id
dups = 0
for t in range(trials):
    g = execnet.Group()
    import atexit; atexit.unregister(g._cleanup_atexit)
    a, b = FakeGw("same"), FakeGw("same")
    bar = threading.Barrier(2)
    def reg(x):
        bar.wait()
        try: g._register(x)
        except AssertionError: pass
    ths = [threading.Thread(target=reg, args=(x,)) for x in (a, b)]
    for th in ths: th.start()
    for th in ths: th.join()
    if len(g._gateways) == 2:
        dups += 1
        break
print(json.dumps({"failed": dups > 0, "detail": f"both registrations with id 'same' succeeded after {t+1} trials" if dups else f"no double registration in {trials} trials"}))
