"""Native oracle for C20 (XSpec): a reference parser written from the statement vs execnet.XSpec.
stdin JSON {"cases":[ [item, ...], ... ]} each item is 'key', 'key=value' (the spec is '//'.join(items))."""
import json, sys
from execnet import XSpec

KNOWN_RESERVED = set()
KNOWN_TRAILING_SLASH = False


def ref_parse(items):
    """From the statement: unique non-empty keys (no '=', no '//', not starting with '_'), values without '//'.
    returns ('ok', attrs, env) | ('dup',) | ('outside',) when the statement's side conditions do not hold."""
    attrs, env, seen = {}, {}, set()
    for n, it in enumerate(items):
        key, eq, val = it.partition("=")
        if not key or key.startswith("_") or "//" in it:
            return ("outside",)
        if key in KNOWN_RESERVED:
            return ("outside",)   # recorded known finding: this exact key is excluded, everything else still checked
        if n < len(items) - 1 and it.endswith("/") and KNOWN_TRAILING_SLASH:
            return ("outside",)   # 'a/' + '//' + 'b' is not uniquely splittable: grammar ambiguity (known finding C20-F4)
        if key in seen:
            return ("dup",)
        seen.add(key)
        v = val if eq else True
        if key.startswith("env:"):
            env[key[4:]] = v
        else:
            attrs[key] = v
    return ("ok", attrs, env)

def run(items):
    s = "//".join(items)
    want = ref_parse(items)
    if want[0] == "outside":
        return {"failed": False, "skipped": True}
    try:
        x = XSpec(s)
    except ValueError as e:
        if want[0] == "dup":
            return {"failed": False}
        return {"failed": True, "why": f"unique keys rejected with ValueError: {e}"}
    except Exception as e:
        return {"failed": True, "why": f"{type(e).__name__}: {e}"}
    if want[0] == "dup":
        return {"failed": True, "why": "a repeated key was accepted"}
    _, attrs, env = want
    for k, v in attrs.items():
        if getattr(x, k) != v or type(getattr(x, k)) is not type(v):
            return {"failed": True, "why": f"attribute {k!r} is {getattr(x, k)!r}, expected {v!r}"}
    if x.env != env:
        return {"failed": True, "why": f"env is {x.env!r}, expected {env!r}"}
    for name in ("zzz_absent", "popen", "ssh", "id"):
        if name not in attrs and getattr(x, name) is not None:
            return {"failed": True, "why": f"absent name {name} is {getattr(x, name)!r}"}
    if str(x) != s or x != XSpec(s) or hash(x) != hash(s) or not (x == XSpec(s)) or (x != XSpec(s)):
        return {"failed": True, "why": "str/eq/hash do not follow the text"}
    return {"failed": False}

spec = json.load(sys.stdin)
KNOWN_RESERVED.update(spec.get("known_reserved_keys", []))
KNOWN_TRAILING_SLASH = bool(spec.get("known_trailing_slash"))
res = []
for items in spec["cases"]:
    r = run(items); r["items"] = items; res.append(r)
bad = [r for r in res if r["failed"]]
print(json.dumps({"failed": bool(bad), "results": bad[:6] or res[:1], "n": len(res), "skipped": sum(1 for r in res if r.get("skipped"))}))
