"""Native scenarios for the channel layer on real popen gateways (bounded stand-ins / witness replays for C02 C03 C04 C07 C10 C18).
argv: scenario names; prints JSON {failed, results:[{scenario, why}], n}"""
import json, os, signal, sys, threading, time
import execnet
T = 10

def gwpair(spec="popen"):
    g = execnet.Group(); return g, g.makegateway(spec)

def c02_order():
    g, gw = gwpair()
    try:
        N, K = 4, 60
        chans = [gw.remote_exec("for x in channel: channel.send((channel.id, x))") for _ in range(N)]
        errs = []
        def sender(i, ch):
            for k in range(K): ch.send((i, k))
            ch.send(None)
        def receiver(i, ch):
            for k in range(K):
                cid, x = ch.receive(T)
                if x != (i, k): errs.append(f"channel {i}: item {k} arrived as {x!r}"); return
        ths = [threading.Thread(target=f, args=(i, ch)) for i, ch in enumerate(chans) for f in (sender, receiver)]
        [t.start() for t in ths]; [t.join(30) for t in ths]
        return errs[:2]
    finally: g.terminate(2)

def c02_big_concurrent():
    """large items sent concurrently from several threads on several channels, then a send right after a rejected send on another channel"""
    g, gw = gwpair()
    try:
        N, K = 3, 12
        chans = [gw.remote_exec("for x in channel: channel.send(x)") for _ in range(N)]
        errs = []
        def item(i, k): return [(i, k, j) for j in range(4000)] + ["x" * 2000, {i: k}]
        def sender(i, ch):
            try:
                for k in range(K): ch.send(item(i, k))
            except Exception as e: errs.append(f"channel {i}: send raised {type(e).__name__}: {e}")
        def receiver(i, ch):
            try:
                for k in range(K):
                    x = ch.receive(T)
                    if x != item(i, k): errs.append(f"channel {i}: item {k} arrived as something else ({str(x)[:40]!r}...)"); return
            except Exception as e: errs.append(f"channel {i}: receive raised {type(e).__name__}: {e}")
        ths = [threading.Thread(target=f, args=(i, ch)) for i, ch in enumerate(chans) for f in (sender, receiver)]
        [t.start() for t in ths]; [t.join(60) for t in ths]
        if not errs:
            try: chans[0].send((7, object()))
            except Exception as e:
                if type(e).__name__ != "DumpError": errs.append(f"unsupported item raised {type(e).__name__}")
            else: errs.append("unsupported item was accepted")
            try:
                chans[1].send(("after", 1)); x = chans[1].receive(T)
                if x != ("after", 1): errs.append(f"item sent after a rejected send on another channel arrived as {x!r}")
            except Exception as e: errs.append(f"send/receive after a rejected send on another channel raised {type(e).__name__}: {e}")
        return errs[:3]
    finally: g.terminate(2)

def c02_dropped_callback():
    import gc
    g, gw = gwpair()
    try:
        got = []
        ch = gw.remote_exec("channel.receive()\nfor i in range(6): channel.send(('item', i))")
        ch.setcallback(got.append)
        ch.send(None)
        del ch
        gc.collect()
        t0 = time.time()
        while len(got) < 6 and time.time() - t0 < T: time.sleep(0.02)
        want = [("item", i) for i in range(6)]
        return [] if got == want else [f"callback channel whose object was dropped got {got!r:.120}"]
    finally: g.terminate(2)

def c03_close():
    g, gw = gwpair()
    try:
        ch = gw.remote_exec("for i in range(5): channel.send(i)")
        ch.waitclose(T)
        got = [ch.receive(T) for _ in range(5)]
        bad = []
        if got != list(range(5)): bad.append(f"items before close: {got}")
        for _ in range(3):
            try: ch.receive(1); bad.append("receive after end did not raise EOFError")
            except EOFError: pass
        ch.waitclose(1)
        ch2 = gw.remote_exec("channel.receive()")
        ch2.close(); ch2.close()
        if not ch2.isclosed(): bad.append("isclosed false after close")
        try: ch2.send(1); bad.append("send after close did not raise")
        except OSError: pass
        ch2.waitclose(1)
        # several receivers already BLOCKED when the peer closes: each of them must see EOF
        ch3 = gw.remote_exec("channel.receive(); channel.send(1)")
        res = []
        def rcv():
            try: res.append(ch3.receive(5))
            except EOFError: res.append("EOF")
            except Exception as e: res.append(type(e).__name__)
        ths = [threading.Thread(target=rcv) for _ in range(4)]; [t.start() for t in ths]
        time.sleep(0.3); ch3.send(None)
        [t.join(T) for t in ths]
        if sorted(map(str, res)) != ["1", "EOF", "EOF", "EOF"]: bad.append(f"receivers blocked at close time saw {res}")
        return bad
    finally: g.terminate(2)

def c04_kill():
    g, gw = gwpair()
    try:
        pid = gw.remote_exec("import os; channel.send(os.getpid())").receive(T)
        ch = gw.remote_exec("for i in range(3): channel.send(i)\nchannel.receive()")
        cbitems = []
        chcb = gw.remote_exec("channel.send('x'); channel.receive()")
        late = []
        def cb(item):
            cbitems.append(item)
            if item == "END":
                # the connection is reported lost at this very moment: a new channel must be refused, not handed out and forgotten
                try: late.append(gw.newchannel())
                except OSError: late.append("refused")
                except Exception as e: late.append(type(e).__name__)
        chcb.setcallback(cb, endmarker="END")
        time.sleep(0.3)
        os.kill(pid, signal.SIGKILL)
        bad = []
        got = []
        try:
            while True: got.append(ch.receive(T))
        except EOFError: pass
        except Exception as e: bad.append(f"receive raised {type(e).__name__} instead of EOFError")
        if got != [0, 1, 2]: bad.append(f"complete items before the loss: {got}")
        try: ch.waitclose(T)
        except EOFError: pass
        except Exception as e: bad.append(f"waitclose raised {type(e).__name__}")
        time.sleep(0.3)
        if cbitems != ["x", "END"]: bad.append(f"callback saw {cbitems}")
        if late != ["refused"]: bad.append(f"newchannel() from inside the endmarker callback after the loss: {late!r:.80} (expected OSError)")
        for name, f in (("newchannel", gw.newchannel), ("remote_exec", lambda: gw.remote_exec("pass")), ("send", lambda: ch.send(1))):
            try: f(); bad.append(f"{name} did not raise OSError after connection loss")
            except OSError: pass
            except Exception as e: bad.append(f"{name} raised {type(e).__name__}")
        if gw.hasreceiver(): bad.append("gateway still reports a receiver")
        return bad
    finally: g.terminate(2)

def c04_kill_socket():
    """the same loss on a socket gateway (its host process is killed): the first send afterwards must already be refused"""
    g = execnet.Group()
    try:
        host = g.makegateway("popen//id=sockhost")
        gw = g.makegateway("socket//installvia=sockhost//id=sock1")
        pid = gw.remote_exec("import os; channel.send(os.getpid())").receive(T)
        ch = gw.remote_exec("channel.send(1)\nchannel.receive()")
        ch.receive(T)
        os.kill(pid, signal.SIGKILL)
        bad = []
        try: ch.receive(T); bad.append("receive returned an item after the loss")
        except EOFError: pass
        except Exception as e: bad.append(f"receive raised {type(e).__name__} instead of EOFError")
        t0 = time.time()
        while gw.hasreceiver() and time.time() - t0 < 3: time.sleep(0.02)      # the receiver's epilogue (sweep, half closes) has run
        time.sleep(0.1)
        try: ch.send(1); bad.append("socket gateway: the first send after the connection loss succeeded silently")
        except OSError: pass
        except Exception as e: bad.append(f"send raised {type(e).__name__}")
        try: gw.newchannel(); bad.append("socket gateway: newchannel did not raise OSError after the loss")
        except OSError: pass
        return bad
    finally: g.terminate(2)

def c07_errors():
    g, gw = gwpair()
    try:
        bad = []
        sib = gw.remote_exec("for x in channel: channel.send(x)")
        ch = gw.remote_exec("channel.send(1); channel.send(2); raise ValueError('boom-7')")
        got = []
        try:
            while True: got.append(ch.receive(T))
        except ch.RemoteError as e:
            if "ValueError" not in str(e) or "boom-7" not in str(e) or "Traceback" not in str(e): bad.append("RemoteError lacks type/message/traceback")
        except Exception as e: bad.append(f"remote raise surfaced as {type(e).__name__}")
        if got != [1, 2]: bad.append(f"items before the error: {got}")
        try: ch.receive(1); bad.append("second receive did not raise EOFError")
        except EOFError: pass
        except Exception as e: bad.append(f"error raised twice: {type(e).__name__}")
        # callback raising on the initiator side, channel object alive
        chc = gw.remote_exec("channel.send(5)\ntry: channel.receive()\nexcept Exception as e: pass")
        def cb(x): raise KeyError("cb-boom")
        chc.setcallback(cb)
        try:
            chc.waitclose(T); bad.append("callback error did not surface on the failing side")
        except chc.RemoteError as e:
            if "cb-boom" not in str(e): bad.append("callback RemoteError lacks message")
        except Exception as e: bad.append(f"failing side's channel closed with {type(e).__name__}: {e!s:.60} instead of RemoteError")
        # callback raising with the channel object dropped
        def cb2(x): raise KeyError("cb2")
        c2 = gw.remote_exec("channel.send(6)"); c2.setcallback(cb2); del c2
        # endmarker callback raising
        def cb3(x):
            if x == 999: raise KeyError("end-boom")
        c3 = gw.remote_exec("channel.send(1)"); c3.setcallback(cb3, endmarker=999)
        time.sleep(0.5)
        sib.send(41)
        try:
            if sib.receive(T) != 41: bad.append("sibling channel disturbed")
        except Exception as e: bad.append(f"gateway connection down after a callback error: {type(e).__name__}: {e!s:.50}")
        if not gw.hasreceiver(): bad.append("receiver thread died after a callback error")
        # callback raising on the WORKER side, set on the remote_exec's own channel while its body is still running (close() is refused there)
        w = gw.remote_exec("""
import time
def cb(x): raise KeyError('worker-cb-boom')
channel.setcallback(cb)
channel.send('ready')
time.sleep(1.5)
""")
        try:
            if w.receive(T) != "ready": bad.append("worker-side callback scenario: no 'ready'")
            w.send(1)
            try:
                w.waitclose(T); bad.append("worker-side callback error did not surface on the peer")
            except w.RemoteError as e:
                if "worker-cb-boom" not in str(e): bad.append("worker-side callback RemoteError lacks the message")
            except Exception as e: bad.append(f"worker-side callback error surfaced as {type(e).__name__} instead of RemoteError")
            sib.send(42)
            if sib.receive(T) != 42: bad.append("sibling channel disturbed by a worker-side callback error")
        except Exception as e: bad.append(f"gateway connection down after a worker-side callback error: {type(e).__name__}: {e!s:.50}")
        return bad
    finally: g.terminate(2)

def c10_callback():
    g, gw = gwpair()
    try:
        bad = []
        ch = gw.remote_exec("for i in range(3): channel.send(i)\nchannel.receive()\nfor i in range(3,6): channel.send(i)")
        time.sleep(0.3)
        seen = []
        ch.setcallback(seen.append, endmarker="END")
        try: ch.receive(1); bad.append("receive allowed after setcallback")
        except OSError: pass
        ch.send(None); ch.waitclose(T); time.sleep(0.2)
        if seen != [0, 1, 2, 3, 4, 5, "END"]: bad.append(f"callback saw {seen}")
        # a backlog replayed by a slow callback while the peer keeps sending and then closes: still in send order, endmarker last
        ctl = gw.remote_exec("c = channel.receive()\nfor i in range(3): c.send(i)\nchannel.send('queued'); channel.receive()\nfor i in range(3, 6): c.send(i)\nc.close()")
        sub = gw.newchannel(); ctl.send(sub)
        if ctl.receive(T) != "queued": bad.append("control handshake")
        time.sleep(0.2)
        seen3 = []
        def slow(x):
            if x == 0:
                ctl.send("go"); time.sleep(0.8)
            seen3.append(x)
        sub.setcallback(slow, endmarker="END")
        sub.waitclose(T); time.sleep(0.3)
        if seen3 != [0, 1, 2, 3, 4, 5, "END"]: bad.append(f"slow backlog replay: callback saw {seen3}")
        ch2 = gw.remote_exec("channel.send(1)"); ch2.waitclose(T)
        s2 = []; ch2.setcallback(s2.append, endmarker="E")
        if s2 != [1, "E"]: bad.append(f"setcallback after close saw {s2}")
        mc = g.remote_exec("channel.send(channel.gateway.id)")
        q = mc.make_receive_queue(endmarker=None)
        items = [q.get(timeout=T) for _ in range(2)]
        if [x[1] for x in items] != [gw.id + "-worker", None] and sorted(str(x[1]) for x in items) != sorted([gw.id + "-worker", "None"]): bad.append(f"multichannel queue {items}")
        return bad
    finally: g.terminate(2)

def c10_dropped_endmarker():
    """a callback channel whose Channel object was dropped: when the remote execution ends, the endmarker is due (and the callback table entry goes)"""
    import gc
    g, gw = gwpair()
    try:
        got = []
        ch = gw.remote_exec("channel.receive()\nfor i in range(3): channel.send(i)")
        ch.setcallback(got.append, endmarker="END")
        ch.send(None)
        cid = ch.id
        del ch
        gc.collect()
        t0 = time.time()
        while (not got or got[-1] != "END") and time.time() - t0 < 3: time.sleep(0.02)
        bad = []
        if got != [0, 1, 2, "END"]:
            bad.append(f"dropped-callback-endmarker: after the remote execution ended the callback saw {got!r} - no endmarker (the peer, made send-only by CHANNEL_LAST_MESSAGE, sends no CHANNEL_CLOSE)")
        elif cid in gw._channelfactory._callbacks:
            bad.append("dropped-callback-endmarker: callback table still lists the finished conversation")
        return bad
    finally: g.terminate(2)

def c10_dropped_endmarker_on_loss():
    """the same callback channel (object dropped) when the CONNECTION is lost while the remote side is still sending: items, then the endmarker, exactly once"""
    import gc, os, signal
    g, gw = gwpair()
    try:
        got = []
        ch = gw.remote_exec("import os, time\nchannel.send(os.getpid())\nfor i in range(3): channel.send(i)\ntime.sleep(30)")
        pid = ch.receive(T)
        ch.setcallback(got.append, endmarker="END")
        cid = ch.id
        del ch
        gc.collect()
        t0 = time.time()
        while len(got) < 3 and time.time() - t0 < 3: time.sleep(0.02)
        os.kill(pid, signal.SIGKILL)
        t0 = time.time()
        while (not got or got[-1] != "END") and time.time() - t0 < 4: time.sleep(0.02)
        time.sleep(0.2)
        bad = []
        if got != [0, 1, 2, "END"]:
            bad.append(f"dropped-callback-endmarker-on-connection-loss: the callback saw {got!r}, expected [0, 1, 2, 'END']")
        elif cid in gw._channelfactory._callbacks:
            bad.append("dropped-callback-endmarker-on-connection-loss: callback table still lists the conversation")
        return bad
    finally: g.terminate(2)

def c18_ids():
    g, gw = gwpair()
    try:
        bad = []
        ch = gw.remote_exec("""
import threading
ids = []
def mk():
    for i in range(50): ids.append(channel.gateway.newchannel().id)
ts = [threading.Thread(target=mk) for _ in range(3)]; [t.start() for t in ts]; [t.join() for t in ts]
channel.send(ids)
c = channel.gateway.newchannel(); channel.send(c); c.send(42)
channel.send(len(channel.gateway._channelfactory._channels))
""")
        mine = []
        def mk():
            for i in range(50): mine.append(gw.newchannel().id)
        ts = [threading.Thread(target=mk) for _ in range(3)]; [t.start() for t in ts]; [t.join() for t in ts]
        theirs = ch.receive(T)
        if len(set(mine)) != 150 or len(set(theirs)) != 150: bad.append("ids repeated on one side")
        if set(mine) & set(theirs): bad.append("the two sides issued a common id")
        c = ch.receive(T)
        if c.receive(T) != 42: bad.append("channel sent over a channel is not connected to the same conversation")
        n0 = len(gw._channelfactory._channels)
        for i in range(200):
            x = gw.remote_exec("channel.send(1)"); x.receive(T); x.waitclose(T); del x
        if len(gw._channelfactory._channels) > n0 + 2: bad.append(f"channel table grew from {n0} to {len(gw._channelfactory._channels)}")
        # conversations that end in a raising callback of a collected channel object are forgotten as well
        ctl = gw.remote_exec("while 1:\n c = channel.receive()\n if c is None: break\n try: c.send(1)\n except OSError: pass\n del c")
        nc0 = len(gw._channelfactory._callbacks)
        def failing(x):
            raise ValueError("boom")
        for i in range(20):
            y = gw.newchannel(); y.setcallback(failing); ctl.send(y); del y
        ctl.send(None); ctl.waitclose(T)
        time.sleep(0.3)
        if len(gw._channelfactory._callbacks) > nc0: bad.append(f"callback table grew from {nc0} to {len(gw._channelfactory._callbacks)} over 20 conversations ended by a raising callback of a dropped channel")
        # a channel sent to a callback-only channel whose object was dropped
        got = []
        cc = gw.remote_exec("channel.receive(); c = channel.gateway.newchannel(); channel.send(c); c.send(7)")
        def on(x):
            got.append(x)
        cc.setcallback(on); cc.send(1); del cc
        time.sleep(0.5)
        if len(got) != 1: bad.append("dropped-callback-channel: a channel sent to a callback-only channel whose object was dropped never arrives")
        return bad
    finally: g.terminate(2)

SC = {k: v for k, v in globals().items() if k[0] == "c" and k[1:3].isdigit()}
res = []
for name in sys.argv[1:] or sorted(SC):
    try:
        why = SC[name]()
    except Exception as e:
        why = [f"scenario crashed: {type(e).__name__}: {e!s:.80}"]
    res.append({"scenario": name, "failed": bool(why), "why": why})
bad = [r for r in res if r["failed"]]
print(json.dumps({"failed": bool(bad), "results": bad or res[:1], "n": len(res)}))
