"""C01 - serializer round-trip is total and type-exact on builtin values."""
from __future__ import annotations

import z3

from contracts import serializer as cs
from contracts.base import GB
from pyvc import smt
from pyvc.contracts import Case, Contract
from pyvc.run import Prop, load_known

from .C08 import run_oracle

S_ = f"{GB}:_Serializer."
U_ = f"{GB}:Unserializer."
ENCODER = [S_ + n for n in ("save_NoneType", "save_bool", "save_bytes", "save_str", "save_int", "save_float", "save_complex", "_write_int4", "_write_byte_sequence",
                            "_write_unicode_string", "_save_integral", "_write_setitem", "save_list", "save_tuple", "_write_set", "save_set", "save_frozenset", "save_dict",
                            "save_Channel", "_save", "save")] + [f"{GB}:dumps", f"{GB}:dumps_internal"]
DECODER = [U_ + n for n in ("_read_exact", "_read_int4", "_read_byte_string", "_decode_utf8", "load_none", "load_true", "load_false", "load_int", "load_longint", "load_float",
                            "load_complex", "load_py3string", "load_py2string", "load_bytes", "load_unicode", "load_newlist", "load_setitem", "load_newdict", "_load_collection",
                            "load_buildtuple", "load_set", "load_frozenset", "load_stop", "load_channel", "load")]

VALUES = ["None", "True", "False", "0", "-1", "2**31-1", "-2**31", "2**31", "-2**31-1", "10**30", "-10**30", "2**64", "0.0", "-0.0", "1.5", "inf", "-inf", "nan", "snan",
          "complex(1,-2)", "complex(nan, inf)", "complex(-0.0, 0.0)", "complex(0.0, -0.0)", "complex(-0.0, -0.0)", "complex(-inf, 5e-324)", "complex(1e308, -inf)", "b''", "b'\\x00\\xff'", "''", "'é\\u20ac\\U0001F600'", "'\\ufeffabc'", "'\\ufeff'", "{'\\ufeffa': 1, 'a': 2}", "[]", "()", "{}", "set()", "frozenset()",
          "[1,[2,[3,[4]]]]", "(1,(2,),())", "{1:'a', 'b':[1,2], (1,2):{3:4}, frozenset([1]):None}", "{True:1, 2:False}", "[True, 1, 1.0]", "{'z':1,'a':2,'m':3}",
          "[None]*5", "(b'x', 'x')", "{1.5, 'a', b'b', (1,2)}", "frozenset([frozenset([1]), (2,3)])"]
UNSUPPORTED = ["Sub(3)", "Plain()", "[1,object()]", "{1: object()}", "(1,(2,Plain()))", "'\\ud800'", "['ok', '\\udfff']", "{Plain()}", "{'k': {1: Sub(1)}}", "Named_int(3)"]


def witness_env():
    return {"Val": cs.Val, "DIGIT_LIMIT": cs.DIGIT_LIMIT}


class PROP(Prop):
    id = "C01"
    title = "every _Serializer function emits exactly the reference bytes of the value or raises DumpError iff unsupported; every loader consumes one token and updates the stack as specified"
    design_ref = "DESIGN.md section 4, C01"
    targets = ENCODER + DECODER
    heavy = {f"{GB}:Unserializer.load": 6, S_ + "_save": 6, S_ + "save_list": 2, S_ + "save_dict": 2}
    assumptions = [
        "value grammar Val (None, bool, int, float as 64 bit pattern, complex, bytes, str, list, tuple, dict as parallel key/value sequences in insertion order, set/frozenset as sequences in iteration order, Channel, Other(class tag))",
        "struct.pack/unpack for '!i', '!d', '!dd' are mutually inverse fixed-width encodings (be32/be64 axioms; differentially tested incl. NaN payloads)",
        "str(int)/int(bytes) inverse (dec/undec), utf-8 encode/decode inverse on encodable strings; encode raises UnicodeEncodeError exactly on lone surrogates",
        "a list of written fragments is represented by its concatenation ($out); self._write appends (static obligation on _Serializer.__init__)",
        "_dispatch cache: entries equal the by-name lookup (invariant re-established at its only store: obligation inv@_dispatch-cache-holds-by-name-method)",
        "unbounded recursion depth (no RecursionError), unbounded memory; container sizes above 2**31-1 are rejected by the code with DumpError (part of 'supported')",
        "sup_upto is monotone in its index (inductive consequence of its step equation, used as a lemma about the specification function)",
        "termination of the mutually recursive _save/save_* by structural recursion on the value is not checked (finite acyclic values: statement)",
    ]
    not_decided = [
        "the composed round trip loads(dumps(v)) == v for all v is NOT proved here: encoder (bytes == reference) and decoder (per-token stack effect) are each under contract, but the induction over the value that links the decoder loop to the post-order encoding is not mechanised; the native oracle checks the composition on a value battery (bounded)",
        "exact result of container[key] = value inside load_setitem (val_setitem is abstract); dict key equality coincidences (True == 1 == 1.0)",
        "Channel.send composition (send -> frame -> _local_receive) is decided with C02/C08",
    ]

    def setup(self, w):
        cs.declare(w)

    def canaries(self, w):
        real = w.contracts[S_ + "_write_int4"]

        def wrong(a, h, h2, r):  # claims the 4-byte field holds i + 1
            out = lambda hh: hh("_Serializer", a.self, "$out")
            return [out(h2) == z3.Concat(out(h), cs.be32(a.i + 1))]

        return [("_write_int4-writes-i-plus-1", Contract(real.target, real.params, requires=real.requires, modifies=real.modifies,
                                                         cases=[Case("ok", when=real.cases[0].when, post=wrong), real.cases[1]]))]

    def static_checks(self, w):
        import ast
        from pyvc import extract

        mod = extract.load(GB)
        src = [ast.unparse(s) for s in mod.func("_Serializer.__init__").body]
        want = ["if write is None:\n    self._streamlist: list[bytes] = []\n    write = self._streamlist.append", "self._write = write"]
        return [("static/_Serializer.__init__/write-is-append-or-given", src == want, f"body: {src}")]

    def _spec(self, extra_values=(), extra_unsupported=()):
        known = [f for f in load_known() if f["property"] == "C01" and f.get("status") == "known"]
        return {"values": list(extra_values) + VALUES, "unsupported": list(extra_unsupported) + UNSUPPORTED,
                "known_digit_limit": any(f.get("rule") == "digit-limit" for f in known), "known_byname": any(f.get("rule") == "by-name" for f in known)}

    def replay(self, ob):
        m = ob.model or {}
        extra = []
        for name in ("probe_i", "i!"):
            for k, v in m.items():
                if k.startswith(name) and isinstance(v, str):
                    val = smt.model_value(m, z3.Int(k))
                    if isinstance(val, int):
                        extra.append(str(val))
        spec = self._spec(extra_values=extra)
        spec["known_digit_limit"] = False if "digit limit" in ob.id else spec["known_digit_limit"]
        spec["known_byname"] = False if "has-declared-type" in ob.id or "is-dict" in ob.id or "is-channel" in ob.id else spec["known_byname"]
        if "digit limit" in ob.id:
            spec["values"].insert(0, "10**4300")
        return run_oracle("c01_roundtrip.py", spec)

    def witness_replay(self, f):
        if f.get("rule") == "digit-limit":
            return run_oracle("c01_roundtrip.py", {"values": ["10**4300"], "known_digit_limit": False})
        if f.get("rule") == "by-name":
            return run_oracle("c01_roundtrip.py", {"unsupported": ["Named_int(3)"], "known_byname": False})
        if f.get("rule") == "int-lower-bound":
            return run_oracle("c01_roundtrip.py", {"values": ["-2**31-1"]})
        return None

    def bounded(self, tier):
        res = run_oracle("c01_roundtrip.py", self._spec(["10**4300"]))
        res2 = run_oracle("c01_channel.py", None, timeout=120)
        extra = [{"name": "native-channel-send-sequence", "bound": "one popen gateway: 4 supported and 3 rejected sends interleaved on one channel (usable after DumpError, type-exact echo)",
                  "evaluations": res2.get("n", 0), "failures": 1 if res2.get("failed") else 0, "detail": res2.get("results") if res2.get("failed") else None}]
        return extra + [{"name": "native-roundtrip-battery", "bound": f"{len(VALUES) + 1} values, {len(UNSUPPORTED)} unsupported values: dumps == reference bytes, loads(dumps(v)) type-exact, dump/load over a stream",
                 "evaluations": res.get("n", 0), "failures": 1 if res.get("failed") else 0, "detail": res.get("results") if res.get("failed") else None, "known_inputs_skipped": res.get("known")}]
