"""C02 - channel layer (DESIGN.md section 4, C02)."""
from .chanprops import make

PROP = make("C02")
