"""C03 - channel layer (DESIGN.md section 4, C03)."""
from .chanprops import make

PROP = make("C03")
