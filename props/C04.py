"""C04 - channel layer (DESIGN.md section 4, C04)."""
from .chanprops import make

PROP = make("C04")
