"""C05 - Group.terminate(timeout) returns promptly and leaves no local child behind."""
from __future__ import annotations

import ast

import z3

from contracts import group as cg
from contracts import xspec as cx
from contracts.base import GB, GIO, GW, MULTI
from pyvc import extract
from pyvc.contracts import Case, Contract
from pyvc.run import Prop

from .C08 import run_oracle

ST = f"{MULTI}:safe_terminate"
GT = f"{MULTI}:Group.terminate"


MK_QUICK = ("popen.chdir+nice", "via.plain", "socket.nice", "none.plain")


class PROP(Prop):
    id = "C05"
    title = ("ghost-clock contracts on the terminate path: termkill settles its pair within timeout when the kill is prompt; safe_terminate returns within 3*timeout "
             "(prompt kills) / (2N+2)*timeout (any) with every pair settled; Gateway.exit moves the gateway to the join list and never waits; join_wait/kill closures; "
             "Group.terminate ends with empty member and join lists, every child of an original gateway waited for or killed, within 3*timeout for groups of local transports; "
             "kill/close_write of every transport class must be bounded; a taken explicit id is refused before a process exists")
    design_ref = "DESIGN.md section 4, C05"
    tag_worlds = True
    targets = [f"{ST}.termkill", f"{ST}#any", f"{ST}#prompt-kills",
               f"gw::{MULTI}:Group._unregister", f"gw::{GW}:Gateway.exit", f"gw::{GT}.join_wait", f"gw::{GT}.kill",
               f"grp-any::{GT}", f"grp-local::{GT}",
               f"io::{GIO}:Popen2IOMaster.wait", f"io::{GIO}:Popen2IOMaster.kill", f"io::{GIO}:ProxyIO._controll", f"io::{GIO}:ProxyIO.kill", f"io::{GIO}:ProxyIO.close_write",
               f"x::{MULTI}:Group.allocate_id",
               f"x::{MULTI}:Group._register",
               f"x::{MULTI}:Group.__iter__"] + [     # terminate() walks the members while exit() unregisters them: the walk is over a snapshot
        # makegateway (spec already an XSpec): on EVERY exit, a gateway whose interpreter was started and bootstrapped in this call is a member of the group; verified in 24
        # pieces of the input domain (first truthy transport key x which of chdir/nice are given), all against the same postcondition
        # quick tier: four pieces (every one contains the configuration step through env:); thorough tier: all 24
        f"mk::{MULTI}:Group.makegateway#{p_}" for p_ in MK_QUICK]
    targets_thorough = [f"mk::{MULTI}:Group.makegateway#{t}.{c}" for t in ("via", "popen", "ssh", "vagrant_ssh", "socket", "none") for c in ("plain", "chdir", "nice", "chdir+nice")
                        if f"{t}.{c}" not in MK_QUICK]
    heavy = {f"grp-any::{GT}": 8, f"grp-local::{GT}": 8, f"{ST}.termkill": 2, f"{ST}#any": 2}
    heavy.update({f"mk::{MULTI}:Group.makegateway#{t}.{c}": 6 for t in ("via", "popen", "ssh", "vagrant_ssh", "socket", "none") for c in ("plain", "chdir", "nice", "chdir+nice")})
    extra_worlds = {"gw": cg.declare_gateway_level, "grp-any": lambda w: cg.declare_group_terminate(w, "any"), "grp-local": lambda w: cg.declare_group_terminate(w, "local"),
                    "io": cg.declare_transports, "x": cx.declare, "mk": cx.declare_makegateway}
    assumptions = [
        "ghost clock: a wait with a numeric timeout t advances it by at most t; a wait without timeout is unbounded unless a stated readiness condition holds; non-blocking code costs epsilon, which is not counted",
        "WorkerPool (C09): spawn starts the task at once in its own thread (no size limit); Reply.get/waitfinish return when the task has finished, raise OSError after a numeric timeout, get re-raises the task's exception; "
        "a spawned termkill task is characterised by its verified contract (ghost deadline = spawn time + timeout when its killfunc is prompt)",
        "concurrently running tasks only ever set the ghost flags of callables / transports (monotone interference)",
        "composition step (not mechanised): partial(f, x)() runs f(x); a termfunc that returned has established join_wait's postcondition, a prompt killfunc that was called kill's; "
        "the derived gateway-level contract of safe_terminate used inside Group.terminate is the composition of the verified contracts of safe_terminate, termkill, join_wait and kill",
        "the pairs comprehension in Group.terminate is exactly [(partial(join_wait, gw), partial(kill, gw)) for gw in self._gateways_to_join] (static obligation)",
        "SIGKILL terminates a process, and wait() returns at once afterwards; Popen.kill() does not block; a 9-byte frame written into a pipe/socket does not block (pipe not full)",
        "Group.terminate is called by one thread, with no concurrent makegateway on the same group; Gateway fields _io/_group/spec are not reassigned",
        "variant 'local' (the time bound and the children accounting): every gateway of the group has a local, prompt transport and no via= (popen/ssh/socket groups); "
        "variant 'any' proves only the structural postcondition (both lists empty, no exception) and no termination of the outer loop",
        "list.remove membership lemma (dropping the first occurrence of e leaves the membership of every other value unchanged) and 'the element at a valid index is a member': assumed lemmas of sequences, differentially checked",
        "the elements of list_of_paired_functions are 2-tuples (TermKillPair annotation taken at its word)",
    ]
    not_decided = ["groups with via= members: time bound and children accounting (the outer loop needs one round per via level; acyclicity of the via relation is by construction of makegateway, not proved); native scenarios only",
                   "wall-clock behaviour of the OS scheduler; eventlet/gevent initiators",
                   "a bootstrap that fails while the started program stays alive (see known finding C05-F5)",
                   "concurrent makegateway calls with the same explicit id (both pass allocate_id; the loser's process is left to terminate(): its gateway was never registered): makegateway's contract is sequential",
                   "makegateway with a spec given as text (or None): the conversion prefix is only exercised with an XSpec argument; keys that take a value are assumed to have one (precondition valued-keys)"]

    def setup(self, w):
        cg.declare_safe_terminate_loop(w)

    def canaries(self, w):
        real = w.contracts[f"{ST}#prompt-kills"]

        def wrong(a, h, h2, r):
            # claims safe_terminate returns within the timeout itself
            isnum, tv = cg.numeric(a.sv("timeout"))
            return [z3.Implies(isnum, cg.clock(h2) <= cg.clock(h) + tv)]

        c = Contract(real.target, real.params, requires=real.requires, modifies=real.modifies, cases=[Case("ok", post=wrong)] + real.cases[1:], allocates=True)
        c.variant_name = "prompt-kills"
        return [("safe_terminate-within-one-timeout", c)]

    def static_checks(self, w):
        m = extract.load(MULTI)
        out = []
        fn = extract.flat_func(m, "Group.terminate")
        comps = [n for n in ast.walk(fn) if isinstance(n, ast.ListComp)]
        txt = ast.unparse(comps[0]) if comps else ""
        out.append(("static/Group.terminate/pairs-are-join_wait-and-kill-of-the-join-list", len(comps) == 1 and txt == "[(partial(join_wait, gw), partial(kill, gw)) for gw in self._gateways_to_join]", txt[:120]))
        src = ast.unparse(fn)
        order = [src.find("gw.exit()"), src.find("safe_terminate("), src.find("self._gateways_to_join[:] = []")]
        out.append(("static/Group.terminate/exit-then-safe_terminate-then-clear", all(p >= 0 for p in order) and order == sorted(order), f"positions {order}"))
        mk = m.func("Group.makegateway")
        msrc = ast.unparse(mk)
        pos = [msrc.find("self.allocate_id(spec)")] + [msrc.find(x) for x in ("create_io(", "remote_exec(gateway_io)")]
        out.append(("static/Group.makegateway/id-allocated-before-any-process-is-started", pos[0] >= 0 and all(p < 0 or pos[0] < p for p in pos[1:]), f"positions {pos}"))
        import re

        def first(pat):
            m_ = re.search(pat, msrc)
            return m_.start() if m_ else -1

        # uses of the NEW gateway: gw.remote_exec(...) and the configuration channel it returns (not proxy_channel.send(...) of the via branch)
        reg = [msrc.find("gw.spec = spec"), msrc.find("self._register(gw)")] + [p_ for p_ in (first(r"(?<![\w.])gw\.remote_exec\("), first(r"(?<![\w.])channel\.send\("), first(r"(?<![\w.])channel\.waitclose\(")) if p_ >= 0]
        out.append(("static/Group.makegateway/registered-before-the-gateway-is-configured", reg[0] >= 0 and reg[1] > reg[0] and all(reg[1] < p_ for p_ in reg[2:]),
                    f"positions {reg}: a failing chdir/nice/env step must find the gateway registered, so that terminate() reaps it"))
        gio = extract.load(GIO)
        pm = ast.unparse(gio.func("Popen2IOMaster.__init__"))
        out.append(("static/Popen2IOMaster.__init__/popen-is-the-started-process", "self.popen = p = execmodel.subprocess.Popen(" in pm, pm[:80]))
        return out

    def replay(self, ob):
        return run_oracle("c05_terminate.py", None, timeout=900, args=["quick"])

    def witness_replay(self, f):
        sc = f.get("scenario")
        if sc == "via-master-stopped":
            return run_oracle("c05_known.py", None, timeout=120, args=["via-master-stopped"])
        if sc == "bootstrap-live-child":
            return run_oracle("c05_known.py", None, timeout=120, args=["bootstrap-live-child"])
        return None

    def bounded(self, tier):
        res = run_oracle("c05_terminate.py", None, timeout=2400, args=[tier])
        return [{"name": "native-terminate-scenarios", "bound": "remote states {idle, receive, busy, sleep, catching BaseException, ignoring SIGINT/SIGTERM, extra threads, dead, SIGSTOP, SIGKILL} x popen/socket/via "
                 "x timeouts {1.0" + (", 0.5, 2.0" if tier == "thorough" else "") + "}, up to " + ("5" if tier == "thorough" else "3") + " members; exit() before terminate(); taken explicit id: "
                 "terminate returns within 3*timeout per round + 1.5 s, no exception, both lists empty, no local child alive",
                 "evaluations": res.get("n", 0), "failures": 1 if res.get("failed") else 0, "detail": res.get("results") if res.get("failed") else None}]
