"""C06 - remote_exec runs exactly the given code with a live channel and clean stdio."""
from __future__ import annotations

import z3

from contracts import channel as cch
from contracts import gateway as cg
from contracts import pool as cp
from contracts import worker as cw
from contracts.base import GB, GW
from pyvc.contracts import Case, Contract
from pyvc.run import Prop

from .C08 import run_oracle


def worker_world(w):
    cp.declare(w)
    cw.declare(w)


class PROP(Prop):
    id = "C06"
    title = "remote_exec plumbing: refusal before anything is sent, exactly one CHANNEL_EXEC frame for the returned channel; _source_of_function check order and line arithmetic; executetask: namespace, _executing window, channel closed exactly once on every exit; init_popen_io over an fd table"
    design_ref = "DESIGN.md section 4, C06"
    targets = [f"{GW}:Gateway.remote_exec#string", f"{GW}:Gateway.remote_exec#function", f"{GW}:Gateway.remote_exec#module", f"{GW}:_source_of_function", f"{GB}:init_popen_io",
               f"{GB}:Channel.close",      # an explicit close from inside the body is refused, with or without an error text
               f"worker::{GB}:WorkerGateway.executetask", f"worker::{GB}:WorkerGateway._local_schedulexec"]
    heavy = {f"worker::{GB}:WorkerGateway.executetask": 8}
    extra_worlds = {"worker": worker_world}
    assumptions = [
        "inspect.getsource returns the text of the def block beginning at co_firstlineno; textwrap.dedent preserves the number of lines; inspect.getfullargspec gives the parameter names; compile/exec implement Python",
        "a function object is represented by ghost facts: __name__, first parameter, has-closure, source text or None, co_firstlineno, source file, and whether _find_non_builtin_globals finds a name",
        "os.dup/open/dup2/close and fdopen over an abstract fd table: dup/open return a descriptor not in use (>= 3 while 0,1,2 are open), open creates a new open file description, dup2(a, b) makes b refer to a's description",
        "BaseGateway._send appends exactly one frame or raises OSError and appends nothing (C08); newchannel returns a fresh channel of this gateway or raises OSError; dumps_internal (C01)",
        "executetask: see C14's assumptions (opaque remote code; Channel.close as call counter)",
    ]
    not_decided = [
        "soundness of the purity check (_find_non_builtin_globals) for ALL programs: that every accepted function really uses no module global is a statement about Python's scoping rules over all function bodies; no contract within reach of an SMT-backed VC generator expresses it (a module global shadowing a builtin name is accepted). Stand-in: native scenario with closure / global / lambda / wrong-parameter shapes (bounded)",
        "that remote tracebacks print the original file and line depends on the traceback module; only the newline arithmetic is proved (native scenario checks the printed line)",
        "remote_exec(module): inspect.getsource(module) plumbing is the string case after getsource; not separately under contract",
    ]

    def setup(self, w):
        cch.declare(w)
        cg.declare(w)

    def canaries(self, w):
        real = w.contracts[f"{GW}:_source_of_function"]
        # claims co_firstlineno newlines are put in front (off by one)
        def wrong(a, h, h2, r):
            f = a.function
            return [r == z3.Concat(cg.repeat(z3.StringVal("\n"), h("Function", f, "$firstlineno")), cg.dedent(h.sv("Function", f, "$source").v[1].v))]
        return [("leading-newlines-off-by-one", Contract(real.target, real.params, requires=real.requires, cases=[Case("ok", restype=real.cases[0].restype, when=real.cases[0].when, post=wrong), real.cases[1]]))]

    def replay(self, ob):
        return run_oracle("c06_remote_exec.py", None, timeout=300)

    def bounded(self, tier):
        res = run_oracle("c06_remote_exec.py", None, timeout=300)
        return [{"name": "native-remote_exec-scenarios", "bound": "one popen gateway: string/function/kwargs, traceback line, refused inner close, 4 rejected function shapes, kwargs misuse, unserialisable kwarg, 170 kB of stdout/fd-1 writes",
                 "evaluations": res.get("n", 0), "failures": 1 if res.get("failed") else 0, "detail": res.get("results") if res.get("failed") else None}]
