"""C07 - channel layer (DESIGN.md section 4, C07)."""
from .chanprops import make

PROP = make("C07")
