"""C08 - message frames survive any chunking and never interleave on the wire."""
from __future__ import annotations

import ast
import json
import os

import z3

from contracts import io as cio
from contracts.base import GB, GIO, GSOCK
from pyvc import extract, smt
from pyvc.contracts import Case, Contract
from pyvc.core import REF
from pyvc.pybuiltins import be32, s8
from pyvc.run import VERIF, Prop, native


def run_oracle(script, payload, timeout=120, args=()):
    import subprocess

    env = dict(os.environ, PYTHONPATH=extract.REPO_SRC)
    try:
        p = subprocess.run(["/venv/bin/python", os.path.join(VERIF, "native", script), *map(str, args)], input=json.dumps(payload) if payload is not None else None,
                           capture_output=True, text=True, timeout=timeout, env=env, cwd="/")
    except subprocess.TimeoutExpired:
        return {"failed": True, "outcome": "timeout", "timeout": True}
    try:
        out = json.loads(p.stdout.strip().splitlines()[-1])
    except Exception:
        return {"failed": False, "outcome": f"oracle produced no verdict rc={p.returncode}: {p.stderr[-400:]}"}
    out.setdefault("outcome", json.dumps(out.get("results", out.get("detail", "")))[:600])
    return out


BATTERY = [
    {"code": 4, "cid": 1, "data_hex": "", "rest_hex": "", "chunks": [1], "cut": None},
    {"code": 4, "cid": 2**31 - 1, "data_hex": "00ff0a41", "rest_hex": "0401", "chunks": [1, 2, 3], "cut": None},
    {"code": -128, "cid": -(2**31), "data_hex": "41" * 300, "rest_hex": "aa", "chunks": [7, 1, 64], "cut": None},
    {"code": 127, "cid": 258, "data_hex": "0102", "rest_hex": "", "chunks": [9], "cut": None},
    {"code": 4, "cid": 7, "data_hex": "414243", "chunks": [3], "cut": 0},
    {"code": 4, "cid": 7, "data_hex": "414243", "chunks": [3], "cut": 5},
    {"code": 4, "cid": 7, "data_hex": "414243", "chunks": [2], "cut": 9},
    {"code": 4, "cid": 7, "data_hex": "414243", "chunks": [1], "cut": 11},
]


MODEL_LIBS = {"ThreadExecModel": {"threading", "_thread", "queue", "socket", "subprocess", "time", "os"}, "EventletExecModel": {"eventlet"}, "GeventExecModel": {"gevent"}}
PRIMITIVE_KINDS = {"Lock": ("RLock", "Lock", "Semaphore"), "RLock": ("RLock",), "Event": ("Event",)}


def execmodel_coherence(mod):
    """Static obligations: every primitive a concurrency model hands out (locks, events, queues, sockets, thread start, sleep) comes from that model's own library -
    a lock of another library does not exclude this model's concurrent senders (a threading.RLock is re-entered by every greenlet of the one native thread)."""
    out = []
    for cls, libs in MODEL_LIBS.items():
        for q, fn in mod.functions.items():
            if not q.startswith(cls + ".") or q.count(".") != 1:
                continue
            meth = q.split(".", 1)[1]
            if meth.startswith("__"):
                continue
            imported = {al.name.split(".")[0] for n in ast.walk(fn) if isinstance(n, ast.Import) for al in n.names} | {(n.module or "").split(".")[0] for n in ast.walk(fn) if isinstance(n, ast.ImportFrom)}
            rets = [n.value for n in ast.walk(fn) if isinstance(n, ast.Return) and n.value is not None]
            roots = set()
            for r in rets + [n.func for n in ast.walk(fn) if isinstance(n, ast.Call)]:
                base = r.func if isinstance(r, ast.Call) else r
                while isinstance(base, ast.Attribute):
                    base = base.value
                if isinstance(base, ast.Name) and base.id in imported:
                    roots.add(base.id)
            out.append((f"static/{cls}.{meth}/primitives-come-from-the-model's-own-library", imported <= libs and roots <= libs, f"imports {sorted(imported)}, uses {sorted(roots)}; allowed {sorted(libs)}"))
            if meth in PRIMITIVE_KINDS:
                ok = len(rets) == 1 and isinstance(rets[0], ast.Call) and isinstance(rets[0].func, ast.Attribute) and rets[0].func.attr in PRIMITIVE_KINDS[meth] and not rets[0].args
                out.append((f"static/{cls}.{meth}/returns-a-new-{meth}", ok, ast.unparse(rets[0]) if rets else "no return"))
    return out


class PROP(Prop):
    id = "C08"
    title = "frame round-trip under any chunking; one write per frame; frames atomic under a send lock"
    design_ref = "DESIGN.md section 4, C08"
    level = "proof"
    targets = [
        f"{GB}:Popen2IO.read", f"{GB}:Popen2IO.write", f"{GSOCK}:SocketIO.read", f"{GSOCK}:SocketIO.write",
        f"{GB}:Message.to_io", f"{GB}:Message.from_io", f"{GB}:BaseGateway._send",
        f"{GB}:Popen2IO.close_write", f"{GB}:Popen2IO.close_read", f"{GSOCK}:SocketIO.close_write", f"{GSOCK}:SocketIO.close_read",
        # the proxied transport's ends of the same contract (read: exactly n bytes or EOFError; write: one item per frame write)
        "proxy::execnet.gateway_io:ProxyIO.read", "proxy::execnet.gateway_io:ProxyIO.write",
    ]
    extra_worlds = {"proxy": lambda w: __import__("contracts.proxy", fromlist=["declare"]).declare(w)}
    assumptions = [
        "OS read/recv returns a non-empty prefix (<= n bytes) of the unread stream, or b'' at end of stream (contracts model:RawIn.read, model:Sock.recv)",
        "OS write/sendall appends all bytes in order or raises OSError/ValueError",
        "struct.pack/unpack for '!bii': fields are independent fixed-width big-endian encodings, mutually inverse on their ranges (axioms be32/unbe32/s8/uns8; differentially checked against CPython on every run)",
        "a BufferedWriter.write call on a pipe is atomic w.r.t. other write calls on the same object; socket.sendall is NOT atomic across threads",
        "int is mathematical; bytes are SMT sequences; no MemoryError",
        "Popen2IO._read/_write are the read/write methods of infile/outfile (static obligation on Popen2IO.__init__)",
    ]
    not_decided = [
        "short writes / EINTR on real non-blocking fds (OS behaviour)",
        "real thread schedules: the lock obligation is a discipline check, not a schedule enumeration; the concurrent socket scenario is a bounded stand-in",
    ]

    def setup(self, w):
        cio.declare(w)

    def lemmas(self, w):
        return cio.lemmas(w)

    def canaries(self, w):
        """to_io against a frame layout with channel id and length swapped: must be refuted."""
        real = w.contracts[f"{GB}:Message.to_io"]

        def wrong_frame(a, h, h2, r):
            code, cid, data = h("Message", a.self, "msgcode"), h("Message", a.self, "channelid"), h("Message", a.self, "data")
            return [h2("IO", a.io, "written") == z3.Concat(h("IO", a.io, "written"), s8(code), be32(z3.Length(data)), be32(cid), data)]

        cc = Contract(real.target, real.params, requires=real.requires, modifies=real.modifies,
                      cases=[Case("ok", post=wrong_frame)] + real.cases[1:])
        return [("to_io-with-swapped-header-fields", cc)]

    def static_checks(self, w):
        out = []
        mod = extract.load(GB)
        init = mod.func("Popen2IO.__init__")
        src = [ast.unparse(s) for s in init.body]
        out.append(("static/Popen2IO.__init__/binds-_read", "self._read = getattr(infile, 'buffer', infile).read" in src, "self._read must be infile(.buffer).read"))
        out.append(("static/Popen2IO.__init__/binds-_write", "self._write = getattr(outfile, 'buffer', outfile).write" in src, "self._write must be outfile(.buffer).write"))
        # class invariant used by _send: _io and _sendlock are assigned in BaseGateway.__init__ only
        for fieldname in ("_io", "_sendlock"):
            sites = []
            for m in (GB, "execnet.gateway", "execnet.multi", "execnet.gateway_bootstrap", "execnet.gateway_io", "execnet.gateway_socket"):
                mm = extract.load(m)
                for q, fn in mm.functions.items():
                    for n in ast.walk(fn):
                        if isinstance(n, ast.Attribute) and n.attr == fieldname and isinstance(n.ctx, ast.Store):
                            sites.append(f"{m}:{q}")
            ok = set(sites) <= {f"{GB}:BaseGateway.__init__"}
            out.append((f"static/BaseGateway/{fieldname}-assigned-only-in-__init__", ok, f"assignments: {sorted(set(sites))}"))
        out.extend(execmodel_coherence(mod))
        initsrc = ast.unparse(mod.func("BaseGateway.__init__"))
        out.append(("static/BaseGateway.__init__/send-lock-comes-from-the-execution-model", "self._sendlock = self.execmodel.RLock()" in initsrc or "self._sendlock = self.execmodel.Lock()" in initsrc,
                    "the send lock must exclude the model's own kind of concurrent sender (threads / greenlets)"))
        # the gateway connection is written only through _send (so the lock obligation on _send covers every writer)
        writers = []
        for m in (GB, "execnet.gateway", "execnet.multi"):
            mm = extract.load(m)
            for q, fn in mm.functions.items():
                for n in ast.walk(fn):
                    if isinstance(n, ast.Call) and isinstance(n.func, ast.Attribute) and n.func.attr in ("to_io", "write"):
                        tgt = ast.unparse(n.func.value) + " " + " ".join(ast.unparse(a) for a in n.args)
                        if "_io" in tgt:
                            writers.append(f"{m}:{q}")
        out.append(("static/gateway-connection-written-only-by-_send", set(writers) <= {f"{GB}:BaseGateway._send"}, f"writers of a gateway's _io: {sorted(set(writers))}"))
        return out

    # ------------------------------------------------------------------
    def _cases_from_model(self, ob):
        m = ob.model or {}
        g = lambda name, default=None: smt.model_value(m, z3.Const(name, z3.IntSort())) if name in m else default
        cases = []
        if "L_code" in m:
            data = smt.model_value(m, z3.Const("L_data", z3.StringSort())) or ""
            rest = smt.model_value(m, z3.Const("L_rest", z3.StringSort())) or ""
            cases.append({"code": g("L_code", 4), "cid": g("L_cid", 1), "data_hex": data.encode("latin-1", "replace").hex(),
                          "rest_hex": rest.encode("latin-1", "replace").hex() if isinstance(rest, str) else "", "chunks": [1, 3], "cut": g("L_cut")})
        return cases

    def replay(self, ob):
        cases = self._cases_from_model(ob)
        transports = ["socket"] if "SocketIO" in ob.id else ["popen"] if "Popen2IO" in ob.id else ["popen", "socket"]
        allc = []
        for t in transports:
            for c in cases + BATTERY:
                allc.append(dict(c, transport=t))
        if "exclusive-writer" in ob.id:
            return run_oracle("c08_concurrent_send.py", None, timeout=300, args=["socket", 4, 6, 6000000])
        return run_oracle("c08_frames.py", {"cases": allc})

    def witness_replay(self, f):
        if f["replay"] == "concurrent-socket-send":
            return run_oracle("c08_concurrent_send.py", None, timeout=300, args=["socket", 4, 6, 6000000])
        if f["replay"] == "socket-cut-in-header":
            return run_oracle("c08_frames.py", {"cases": [{"code": 4, "cid": 7, "data_hex": "414243", "chunks": [3], "cut": 5, "transport": "socket"}]})
        return None

    def bounded(self, tier):
        res = run_oracle("c08_frames.py", {"cases": [dict(c, transport=t) for c in BATTERY for t in ("popen", "socket")]})
        return [{"name": "native-frame-battery", "bound": f"{2 * len(BATTERY)} hand-picked frames x chunkings x cut points, both transports",
                 "evaluations": res.get("n", 0), "failures": 1 if res.get("failed") else 0, "detail": res.get("results")}]
