"""C09 - WorkerPool runs every accepted task exactly once and reports truthfully."""
from __future__ import annotations

import ast

import z3

from contracts import pool as cp
from contracts.base import GB
from pyvc import extract
from pyvc.contracts import Case, Contract
from pyvc.run import Prop

from .C08 import run_oracle

W = f"{GB}:WorkerPool."
R = f"{GB}:Reply."


class PROP(Prop):
    id = "C09"
    title = "monitor invariant of WorkerPool._running_lock with ghost ownership: every accepted task has exactly one owner that will run it; Reply.run calls the function once and always sets the ready event"
    design_ref = "DESIGN.md section 4, C09"
    targets = [R + "__init__", R + "run", R + "waitfinish", R + "get", W + "__init__", W + "_try_send_to_primary_thread", W + "spawn", W + "trigger_shutdown",
               W + "_perform_spawn", W + "waitall", W + "integrate_as_primary_thread"]
    heavy = {W + "integrate_as_primary_thread": 4, W + "_perform_spawn": 4, W + "trigger_shutdown": 3, W + "spawn": 2}
    assumptions = [
        "monitor reasoning: at every acquisition of _running_lock the protected fields (_running, _shuttingdown, _waitall_events, _primary_thread_task) are arbitrary values satisfying the invariant; the invariant is an obligation at every release (all exits); every write of a protected field requires the lock (lock obligations)",
        "invariants quantified over replies / waiter positions are carried for arbitrary fixed R0 / W0 (free constants) and generalised at assumption points",
        "ghost ownership ($owner: none/thread/mailbox/primary/done, $runs) is updated at the statements that transfer responsibility: `self._primary_thread_task = reply` (mailbox), `execmodel.start(self._perform_spawn, (reply,))` (thread), the primary's read of the mailbox (primary), `func(*args, **kwargs)` in Reply.run ($runs += 1), `_result_ready.set(); self.running = False` taken as one step (done)",
        "execmodel.start(f, args) runs f(*args) exactly once, eventually, in another thread; Event/Lock primitives as contracted (set/clear/is_set/wait); sequentially consistent interleaving at statement granularity (CPython GIL)",
        "Owicki-Gries steps argued on paper, not mechanised: (a) the primary thread's unlocked read `reply = self._primary_thread_task` after `ready.wait()` is an atomic snapshot consistent with the invariant, and a non-empty mailbox then holds a task nobody has started (only the primary clears the flag; spawn writes the mailbox before setting the flag; in main_thread_only spawn overwrites it only after waitfinish); (b) a reply stays in _running until the thread that ran it removes it (the only `_running.remove` is in _perform_spawn: static obligation)",
        "Reply invariant used at call sites of waitfinish: the ready event of an accepted task is set only by Reply.run, after which the task is done",
        "the task function and user code touch no pool state",
    ]
    not_decided = [
        "progress / no lost wake-up as a liveness property: reduced to invariant clauses (a registered waiter exists only while something runs and is not yet set; _perform_spawn sets all waiters when _running becomes empty) plus scheduler fairness, which is assumed",
        "line-level preemption inside Reply.run between `_result_ready.set()` and `self.running = False`",
        "WorkerPool.active_count / terminate (thin wrappers), gevent/eventlet models",
    ]

    def setup(self, w):
        cp.declare(w)

    def canaries(self, w):
        real = w.contracts[W + "spawn"]
        # claims spawn may leave the reply out of _running: must be refuted
        return [("spawn-does-not-register-the-task", Contract(real.target, real.params, requires=real.requires, modifies=real.modifies, linearize_at_lock=True,
                                                               cases=[Case("accepted", restype=real.cases[0].restype,
                                                                           post=lambda a, h, h2, r: [z3.Not(z3.Select(h2("WorkerPool", a.self, "_running"), r))]), real.cases[1]]))]

    def static_checks(self, w):
        mod = extract.load(GB)
        cls = mod.classes["WorkerPool"]
        out = []
        removes = [n.lineno for n in ast.walk(cls) if isinstance(n, ast.Call) and isinstance(n.func, ast.Attribute) and n.func.attr == "remove" and "_running" in ast.unparse(n.func.value)]
        fn = mod.func("WorkerPool._perform_spawn")
        out.append(("static/WorkerPool/_running.remove-only-in-_perform_spawn", len(removes) == 1 and fn.lineno <= removes[0] <= fn.end_lineno, f"lines {removes}"))
        clears = [(q, n.lineno) for q, f in mod.functions.items() if q.startswith("WorkerPool.") for n in ast.walk(f)
                  if isinstance(n, ast.Call) and isinstance(n.func, ast.Attribute) and n.func.attr == "clear" and "primary_thread_task_ready" in ast.unparse(n.func.value)]
        out.append(("static/WorkerPool/ready-flag-cleared-only-by-the-primary-thread", [q for q, _ in clears] == ["WorkerPool.integrate_as_primary_thread"], f"{clears}"))
        sets = [q for q, f in mod.functions.items() for n in ast.walk(f)
                if isinstance(n, ast.Call) and isinstance(n.func, ast.Attribute) and n.func.attr == "set" and "_result_ready" in ast.unparse(n.func.value)]
        out.append(("static/Reply/_result_ready-set-only-in-run", sets == ["Reply.run"], f"{sets}"))
        return out

    def replay(self, ob):
        return run_oracle("c09_pool.py", None, timeout=300)

    def witness_replay(self, f):
        return run_oracle("c09_pool.py", None, timeout=120, args=["shutdown_after_spawn_thread", "shutdown_after_spawn_mto"])

    def bounded(self, tier):
        res = run_oracle("c09_pool.py", None, timeout=600)
        return [{"name": "native-pool-scenarios", "bound": "sequential shutdown-after-spawn witness (2 models) + 20 rounds each of 3 spawner threads x 40 tasks with shutdown after 2 ms, with and without primary thread",
                 "evaluations": res.get("n", 0), "failures": 1 if res.get("failed") else 0, "detail": res.get("results") if res.get("failed") else None}]
