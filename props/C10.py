"""C10 - channel layer (DESIGN.md section 4, C10)."""
from .chanprops import make

PROP = make("C10")
