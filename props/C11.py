"""C11 - workers never outlive their initiator."""
from __future__ import annotations

import ast

import z3

from contracts import channel as cch
from contracts import terminate as ct
from contracts.base import GB
from pyvc import extract
from pyvc.contracts import Case, Contract
from pyvc.run import Prop

from .C08 import run_oracle

TE = f"{GB}:WorkerGateway._terminate_execution"


def term_world(w):
    ct.declare_worker_termination(w)
    ct.declare_serve(w)


class PROP(Prop):
    id = "C11"
    title = "from end of stream: every exit of the receiver loop reaches the epilogue; _terminate_execution returns with an idle execution pool or has called os._exit, within 5 + 10 s of ghost clock, for arbitrary (possibly non-terminating) user tasks; serve() lets no exception escape"
    design_ref = "DESIGN.md section 4, C11"
    targets = [f"term::{TE}", f"term::{GB}:WorkerGateway.serve", f"{GB}:BaseGateway._thread_receiver", f"{GB}:ChannelFactory._finished_receiving",
               # what the sweep calls for every channel and callback: nothing but the documented interrupts may escape them (an exception here ends the receiver
               # thread before the shutdown ladder is reached)
               f"{GB}:ChannelFactory._local_close", f"{GB}:ChannelFactory._no_longer_opened",
               # end of stream is noticed wherever the initiator died, also in the middle of a frame: the read loops return exactly n bytes or raise EOFError, and terminate
               # (variant obligation), so the receiver cannot spin on a closed pipe (contracts of C08)
               f"io::{GB}:Popen2IO.read", "io::execnet.gateway_socket:SocketIO.read", f"io::{GB}:Message.from_io",
               # the shutdown ladder escalates exactly when waitall() answers False: "True only when no accepted task is unfinished", also on a pool that has been idle before (contracts of C09)
               f"pool::{GB}:WorkerPool.waitall", f"pool::{GB}:WorkerPool._perform_spawn", f"pool::{GB}:WorkerPool.__init__"]
    heavy = {f"{GB}:BaseGateway._thread_receiver": 8, f"{GB}:ChannelFactory._finished_receiving": 4, f"{GB}:ChannelFactory._local_close": 3}
    extra_worlds = {"term": term_world, "io": lambda w: __import__("contracts.io", fromlist=["declare"]).declare(w),
                    "pool": lambda w: __import__("contracts.pool", fromlist=["declare"]).declare(w)}
    assumptions = [
        "ghost clock: WorkerPool.waitall(t) with a numeric t advances it by at most t and returns True only when no accepted task is unfinished (C09); non-blocking statements cost epsilon, which is not counted",
        "user tasks in the execution pool are havoc: they may never finish and may swallow KeyboardInterrupt (waitall may return False both times)",
        "the kernel closes the initiator's ends of the pipe/socket when it exits or is killed, so the worker's read reports end of stream (EOFError out of from_io, C08); the receiver thread is in or returns to read (it is NOT stuck inside a user callback or a blocked write)",
        "os.kill(os.getpid(), SIGINT) raises KeyboardInterrupt in the main thread; os._exit terminates the process (modelled as a flow that never returns: $ProcessExit)",
        "the integrated primary loop returns after shutdown once the current task ends, or is interrupted (C09); join() is released when _thread_receiver returns (C09)",
        "user code leaves only daemon threads behind (the statement's quantifier)",
    ]
    not_decided = ["kills during bootstrap (before serve runs) depend on interpreter start-up: native scenario only", "wall-clock behaviour of the OS scheduler"]

    def setup(self, w):
        cch.declare(w)

    def canaries(self, w):
        return []

    def static_checks(self, w):
        mod = extract.load(GB)
        fn = extract.flat_func(mod, "BaseGateway._thread_receiver")
        src = ast.unparse(fn)
        tail = ["self._channelfactory._finished_receiving()", "self._terminate_execution()", "self._io.close_read()", "self._io.close_write()", "self._receivepool.trigger_shutdown()"]
        pos = [src.find(t) for t in tail]
        out = [("static/_thread_receiver/epilogue-order", all(p >= 0 for p in pos) and pos == sorted(pos), f"positions {pos}")]
        te = extract.flat_src(mod, "WorkerGateway._terminate_execution")
        out.append(("static/_terminate_execution/waits-are-5-and-10-seconds", "waitall(5.0)" in te and "waitall(10.0)" in te and "os._exit(1)" in te, "literal timeouts"))
        return out

    def replay(self, ob):
        return run_oracle("c11_orphan.py", None, timeout=600, args=["quick"])

    def bounded(self, tier):
        res = run_oracle("c11_orphan.py", None, timeout=900, args=[tier])
        return [{"name": "native-orphaned-workers", "bound": "initiator killed (SIGKILL/SIGTERM) with the worker idle / blocked / sleeping / busy / with daemon threads, thread and main_thread_only"
                 + ("; plus KeyboardInterrupt-swallowing loops (15 s worst case)" if tier == "thorough" else ""), "evaluations": res.get("n", 0),
                 "failures": 1 if res.get("failed") else 0, "detail": res.get("results") if res.get("failed") else None}]
