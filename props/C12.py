"""C12 - serialized byte format is stable and version-compatible."""
from __future__ import annotations

import z3

from contracts import serializer as cs
from contracts.base import GB
from pyvc import extract
from pyvc.contracts import Case, Contract
from pyvc.run import Prop, load_known

from .C01 import ENCODER, S_, U_, VALUES, witness_env  # noqa: F401
from .C08 import run_oracle


class PROP(Prop):
    id = "C12"
    title = "dumps bytes == format-v2 reference (opcode letters fixed in the sidecar); legacy opcodes under the two coercion switches; version byte; strconfig plumbing"
    design_ref = "DESIGN.md section 4, C12"
    targets = ENCODER + [U_ + n for n in ("load_py2string", "load_py3string", "load_unicode", "load_int", "load_longint", "_decode_utf8", "load")] + [
        f"{GB}:Unserializer.__init__#none", f"{GB}:Unserializer.__init__#channel", f"{GB}:Unserializer.__init__#gateway", f"{GB}:load", f"{GB}:loads", f"{GB}:loads_internal#none", f"{GB}:loads_internal#channel", f"{GB}:loads_internal#gateway", f"chan::{GB}:Channel.reconfigure", "gw::execnet.gateway:Gateway.reconfigure",
        f"chan::{GB}:Channel.setcallback",      # the coercion pair recorded for a callback is the channel's own
        f"mr::{GB}:Message.received"]           # RECONFIGURE on the receiving side: gateway (id 0) or that channel, decoded with the gateway's pair
    heavy = {f"{GB}:Unserializer.load": 6, S_ + "_save": 6, S_ + "save_list": 2, S_ + "save_dict": 2, f"mr::{GB}:Message.received": 6, f"chan::{GB}:Channel.setcallback": 4}
    assumptions = [
        "the reference encoder `enc` in contracts/serializer.py is written from the statement (letters @A..T as literals, big-endian 4-byte lengths and small ints, ASCII decimal big ints, big-endian IEEE doubles, post-order containers, Q) and stands in for what execnet >= 1.1 on Python 2 emitted",
        "the decoder's result is a deterministic function of (data, versioned, the two switches, inside-a-gateway): decode_v, assumed at call sites of Unserializer.load only",
        "as C01 for struct/utf-8/decimal axioms",
    ]
    not_decided = ["interpreters 3.10-3.13: the axioms are differentially tested on the one interpreter installed (3.12)",
                   "the RECONFIGURE handler on the receiving side is verified here (world mr: Message.received against the protocol's decision table); Channel.reconfigure and Gateway.reconfigure in worlds chan, gw"]
    extra_worlds = {"chan": lambda w: __import__("contracts.channel", fromlist=["declare"]).declare(w),
                    "mr": lambda w: __import__("contracts.channel", fromlist=["declare_dispatch"]).declare_dispatch(w),
                    "gw": lambda w: (__import__("contracts.channel", fromlist=["declare"]).declare(w), __import__("contracts.gateway", fromlist=["declare"]).declare(w))}

    def setup(self, w):
        cs.declare(w)

    def static_checks(self, w):
        """the real opcode table must coincide with the statement's letters, and LONG/LONGLONG must share INT/LONGINT's loaders"""
        mod = extract.load(GB)
        real = mod.class_consts["opcode"]
        out = []
        for name, letter in cs.OP.items():
            out.append((f"static/opcode.{name}", real.get(name) == letter.encode(), f"repository: {real.get(name)!r}, format v2: {letter!r}"))
        out.append(("static/no-extra-opcodes", set(real) == set(cs.OP), f"extra/missing: {sorted(set(real) ^ set(cs.OP))}"))
        uc = mod.class_consts["Unserializer"]
        out.append(("static/load_long-is-load_int", uc.get("load_long") == ("alias", "load_int"), str(uc.get("load_long"))))
        out.append(("static/load_longlong-is-load_longint", uc.get("load_longlong") == ("alias", "load_longint"), str(uc.get("load_longlong"))))
        want = {"NONE": "load_none", "TRUE": "load_true", "FALSE": "load_false", "INT": "load_int", "LONGINT": "load_longint", "LONG": "load_long", "LONGLONG": "load_longlong",
                "FLOAT": "load_float", "COMPLEX": "load_complex", "PY3STRING": "load_py3string", "PY2STRING": "load_py2string", "BYTES": "load_bytes", "UNICODE": "load_unicode",
                "NEWLIST": "load_newlist", "SETITEM": "load_setitem", "NEWDICT": "load_newdict", "BUILDTUPLE": "load_buildtuple", "SET": "load_set", "FROZENSET": "load_frozenset",
                "STOP": "load_stop", "CHANNEL": "load_channel"}
        tbl = uc["num2func"]
        for name, fn in want.items():
            got = tbl.get(cs.OP[name].encode())
            out.append((f"static/num2func[{name}]", got == ("name", fn), f"{got}"))
        out.append(("static/DUMPFORMAT_VERSION", mod.consts.get("DUMPFORMAT_VERSION") == b"\x02", repr(mod.consts.get("DUMPFORMAT_VERSION"))))
        out.append(("static/Unserializer-class-defaults", (uc.get("py2str_as_py3str"), uc.get("py3str_as_py2str")) == (True, False), f"{uc.get('py2str_as_py3str')}, {uc.get('py3str_as_py2str')}"))
        return out

    def canaries(self, w):
        real = w.contracts[U_ + "load_py2string"]

        def wrong(a, h, h2, r):  # claims utf-8 instead of latin-1
            u = lambda hh: hh("BytesIO", hh("Unserializer", a.self, "stream"), "unread")
            n = cs.pb().unbe32(z3.SubSeq(u(h), 0, 4))
            return [z3.Implies(h("Unserializer", a.self, "py2str_as_py3str"),
                               h2("Unserializer", a.self, "stack") == z3.Concat(h("Unserializer", a.self, "stack"), z3.Unit(cs.Val.VStr(cs.unutf8(z3.SubSeq(u(h), 4, n))))))]

        return [("load_py2string-decodes-utf8", Contract(real.target, real.params, requires=real.requires, modifies=real.modifies,
                                                         cases=[Case("ok", when=real.cases[0].when, post=wrong)] + real.cases[1:]))]

    def replay(self, ob):
        known = [f for f in load_known() if f["property"] in ("C01", "C12") and f.get("status") == "known"]
        return run_oracle("c01_roundtrip.py", {"values": VALUES, "legacy": True, "known_digit_limit": True, "known_byname": True})

    def witness_replay(self, f):
        from .C01 import PROP as C01

        return C01().witness_replay(f)

    def bounded(self, tier):
        res = run_oracle("c01_roundtrip.py", {"values": VALUES, "legacy": True})
        return [{"name": "native-reference-bytes-and-legacy-opcodes", "bound": f"{len(VALUES)} values byte-for-byte; opcodes M,N,S,G,I x 4 settings; 3 foreign version bytes",
                 "evaluations": res.get("n", 0), "failures": 1 if res.get("failed") else 0, "detail": res.get("results") if res.get("failed") else None}]
