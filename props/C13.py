"""C13 - loading untrusted bytes is total, typed-error-only and side-effect free."""
from __future__ import annotations

import ast

import z3

from contracts import serializer as cs
from contracts.base import GB
from pyvc import extract, smt
from pyvc.contracts import Case, Contract
from pyvc.run import Prop

from .C01 import DECODER, U_
from .C08 import run_oracle

BAD = ["0246000000", "024400", "0254" + "00" * 15, "024800000002787851", "024e00000001ff51", "025300000001ff51", "024c4c4c5051", "024a4b000000004c5051",
       "024b00000001460000000 54c5051".replace(" ", ""), "024a4a4f0000000151", "024200000001 51".replace(" ", ""), "0241ffffffff51", "024b00000001 4b00000000 4c 50 51".replace(" ", ""),
       "02 4a 4b00000000 4c 50 51".replace(" ", ""), "", "02", "0251", "024c", "024c4c51", "01 4c51".replace(" ", ""), "02 7a".replace(" ", ""), "02 40 ffffffff 51".replace(" ", "")]
MUTATE = ["{1:[1,2,(3,'é')], 'k': {b'x', 2.5}, None: frozenset([1]), 5: 10**12}", "[[], (), {}, -2**40, complex(1,2), True]", "'x'*40"]


class PROP(Prop):
    id = "C13"
    title = "every loader and the load loop raise only LoadError/EOFError (or the internal _Stop), terminate (variant), and create channels only inside a gateway"
    design_ref = "DESIGN.md section 4, C13"
    targets = DECODER + [f"{GB}:Unserializer.__init__#none", f"{GB}:load", f"{GB}:loads"]
    heavy = {f"{GB}:Unserializer.load": 8}
    assumptions = [
        "io.BytesIO.read(n) returns the next n bytes (fewer at the end; everything for n < 0) and never raises (differentially tested)",
        "struct.unpack raises struct.error exactly on a wrong length; int(bytes) raises ValueError exactly on non-literals; bytes.decode('utf-8') raises UnicodeDecodeError exactly on invalid utf-8",
        "container[key] = value raises TypeError for non-containers, unhashable dict keys and non-integer list indices, IndexError for list indices out of range, nothing else; set()/frozenset() raise TypeError exactly for unhashable members (hashable: no list/dict/set at any tuple depth)",
        "unbounded memory: [None] * length and read(length) for adversarial length fields are tracked by the statement as a separate known finding (MemoryError/OverflowError are outside the model)",
        "unbounded recursion; no RecursionError",
    ]
    not_decided = ["'no strict prefix of a valid dump loads successfully' follows from the short-read clauses (EOFError when fewer bytes remain than a token needs) but the induction over the token stream is not mechanised; every strict prefix of a value battery is replayed natively (bounded)",
                   "'never runs code': static obligation on the callees reachable from Unserializer.load (below), not a semantic proof about CPython"]

    def setup(self, w):
        cs.declare(w)

    def static_checks(self, w):
        """callees reachable from the decoder are limited to an allow-list: no eval/exec/import/getattr-by-data"""
        mod = extract.load(GB)
        cls = mod.classes["Unserializer"]
        allowed_names = {"struct", "int", "len", "complex", "tuple", "set", "frozenset", "LoadError", "EOFError", "_Stop", "isinstance", "type", "Channel", "DUMPFORMAT_VERSION",
                         "FLOAT_FORMAT", "FLOAT_FORMAT_SIZE", "COMPLEX_FORMAT", "COMPLEX_FORMAT_SIZE", "opcode", "self", "ValueError", "TypeError", "IndexError", "UnicodeDecodeError", "KeyError", "None", "True", "False"}
        out = []
        for node in ast.walk(cls):
            if isinstance(node, ast.Call):
                f = node.func
                name = f.id if isinstance(f, ast.Name) else f.attr if isinstance(f, ast.Attribute) else "?"
                ok = name not in ("eval", "exec", "compile", "__import__", "getattr", "setattr", "import_module", "open", "system", "popen")
                out.append((f"static/Unserializer/call-{name}@{node.lineno - cls.lineno}", ok, f"call of {name} at line {node.lineno}"))
            if isinstance(node, (ast.Import, ast.ImportFrom)):
                out.append((f"static/Unserializer/import@{node.lineno - cls.lineno}", False, "import inside the decoder"))
        return out

    def canaries(self, w):
        real = w.contracts[U_ + "_read_int4"]
        # claims _read_int4 never raises: must be refuted (a short stream raises EOFError)
        return [("_read_int4-never-raises", Contract(real.target, real.params, requires=real.requires, modifies=real.modifies, cases=[Case("ok", restype=real.cases[0].restype)]))]

    def replay(self, ob):
        m = ob.model or {}
        cases = list(BAD)
        d = smt.model_value(m, z3.Const("probe_data", z3.StringSort()))
        if isinstance(d, str):
            cases.insert(0, d.encode("latin-1", "replace").hex())
        return run_oracle("c13_loads.py", {"cases": cases, "mutate": MUTATE[:2], "subs": [0, 255, 80, 81]}, timeout=600)

    def bounded(self, tier):
        quick = tier == "quick"
        res = run_oracle("c13_loads.py", {"cases": BAD, "mutate": MUTATE[:2] if quick else MUTATE + ["{(1,2):[{3},{4:5}]}", "[b'ab', 'cd', 1.5, None]"], "seed": 1,
                                          "subs": [0, 255, 80, 81] if quick else None}, timeout=900)
        return [{"name": "native-opcode-soup-and-mutations", "bound": "22 hand-written corrupt inputs + every prefix, deletion, 4 (quick) / 9 (thorough) substitutions and insertions per byte of 2 / 5 valid dumps",
                 "evaluations": res.get("n", 0), "skipped_memory": res.get("skipped"), "failures": 1 if res.get("failed") else 0, "detail": res.get("results") if res.get("failed") else None}]
