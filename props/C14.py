"""C14 - main_thread_only executes in the main thread and never cries deadlock falsely."""
from __future__ import annotations

import ast

import z3

from contracts import pool as cp
from contracts import worker as cw
from contracts.base import GB
from pyvc import extract
from pyvc.contracts import Case, Contract
from pyvc.run import Prop

from .C08 import run_oracle

G = f"{GB}:WorkerGateway."
W = f"{GB}:WorkerPool."


class PROP(Prop):
    id = "C14"
    title = "executetask sets the completion event on every exit edge and closes the channel exactly once; _local_schedulexec waits, refuses only the new channel, clears and hands over; the mailbox is overwritten only after the previous task finished"
    design_ref = "DESIGN.md section 4, C14"
    targets = [G + "executetask", G + "_local_schedulexec", W + "_try_send_to_primary_thread", W + "integrate_as_primary_thread",
               f"pool::{GB}:Reply.run",     # an interrupted body (KeyboardInterrupt re-raised by executetask) is contained by the task wrapper: the main thread goes on serving
               "term::" + G + "serve"]    # the state _local_schedulexec relies on (pool, completion event set = "no previous task") is published before the receiver thread exists
    extra_worlds = {"pool": lambda w: cp.declare(w), "term": lambda w: (__import__("contracts.terminate", fromlist=["x"]).declare_worker_termination(w), __import__("contracts.terminate", fromlist=["x"]).declare_serve(w))}
    heavy = {G + "executetask": 8, W + "integrate_as_primary_thread": 4}
    assumptions = [
        "compile/exec/the remote function are opaque user code: return, or raise an arbitrary Exception, KeyboardInterrupt, SystemExit or EOFError; they do not touch the gateway's completion event",
        "Channel.close as seen by the worker: counts the call and records the error text; refused with OSError while _executing (C03 decides the real function); a send failure inside close is not modelled here",
        "the exec pool's spawn accepts the task (C09: runs exactly once, in the integrated primary thread for main_thread_only) or raises ValueError after shutdown",
        "Event.wait(timeout=1): returns the flag; between the peer observing the close frame and the event being set less than the 1 s wait elapses (adjacent statements in executetask)",
        "C09's assumptions for _try_send_to_primary_thread",
    ]
    not_decided = ["the 1 s window itself (real time)", "that the primary thread is the process's main thread: serve() calls integrate_as_primary_thread in the thread that called serve (static obligation), which the bootstrap runs in the main thread"]

    def setup(self, w):
        cp.declare(w)
        cw.declare(w)

    def canaries(self, w):
        real = w.contracts[G + "_local_schedulexec"]
        # claims the deadlock branch also hands the task to the pool
        return [("deadlock-branch-falls-through-to-spawn", Contract(real.target, real.params, requires=real.requires, modifies=real.modifies, cases=[
            Case("ok", post=lambda a, h, h2, r: [h2("WorkerGateway", a.self, "$spawned") == z3.Concat(h("WorkerGateway", a.self, "$spawned"), z3.Unit(a.channel))])] + real.cases[1:]))]

    def static_checks(self, w):
        mod = extract.load(GB)
        src = extract.flat_src(mod, "WorkerGateway.serve")
        out = [
            ("static/serve/hasprimary-for-thread-and-main_thread_only", "hasprimary = self.execmodel.backend in ('thread', 'main_thread_only')" in src, "hasprimary"),
            ("static/serve/pool-created-with-hasprimary", "self._execpool = WorkerPool(self.execmodel, hasprimary=hasprimary)" in src, "pool"),
            ("static/serve/completion-event-created-and-set-for-main_thread_only",
             "if self.execmodel.backend == 'main_thread_only':\n        self._executetask_complete = self.execmodel.Event()\n        self._executetask_complete.set()" in src, "event initialised set"),
            ("static/serve/primary-integrated-in-the-serving-thread", "if hasprimary:\n            trace('integrating as primary thread')\n            self._execpool.integrate_as_primary_thread()" in src, "integrate"),
        ]
        return out

    def replay(self, ob):
        return run_oracle("c14_mto.py", None, timeout=300)

    def witness_replay(self, f):
        return run_oracle("c14_mto.py", None, timeout=120, args=['[["raise", "return"]]'])

    def bounded(self, tier):
        res = run_oracle("c14_mto.py", None, timeout=600)
        return [{"name": "native-main_thread_only-histories", "bound": "6 histories of return/raise/SystemExit/BaseException bodies (length <= 4), each followed by an overlapping pair and a further remote_exec, on a real popen worker",
                 "evaluations": res.get("n", 0), "failures": 1 if res.get("failed") else 0, "detail": res.get("results") if res.get("failed") else None}]
