"""C15 - bootstrapping needs nothing installed on the other side (static dependency obligations)."""
from __future__ import annotations

import ast
import os

from contracts.base import BOOT, GB, GIO, GSOCK, RSYNCR
from pyvc import deps, extract
from pyvc.run import Prop, native

from .C08 import run_oracle

SOCKSERVER = "execnet.script.socketserver"


def _literal(node):
    """the literal text of a bootstrap line: 'text' or 'text %r' % value (the hole is filled with a placeholder)"""
    if isinstance(node, ast.Constant) and isinstance(node.value, str):
        return node.value
    if isinstance(node, ast.BinOp) and isinstance(node.op, ast.Mod) and isinstance(node.left, ast.Constant) and isinstance(node.left.value, str):
        s = node.left.value
        return s.replace("'%s-worker'", "'X-worker'").replace("%r", "'X'").replace("%s", "X").replace("%d", "0")
    return None


class PROP(Prop):
    id = "C15"
    level = "proof"
    title = "static dependency obligations: gateway_base (the shipped source) names only the standard library and itself; every bootstrap line only uses names defined by the shipped text; shipped modules import only stdlib at run time"
    design_ref = "DESIGN.md section 4, C15"
    # the command lines that start a (possibly remote) interpreter: python= reaches the shell verbatim, the bootstrap line follows -c (world cmd, deductive)
    targets: list[str] = ["cmd::execnet.gateway_io:ssh_args", "cmd::execnet.gateway_io:vagrant_ssh_args", "cmd::execnet.gateway_io:popen_args"]
    extra_worlds = {"cmd": lambda w: __import__("contracts.xspec", fromlist=["x"]).declare_command_lines(w)}

    assumptions = [
        "the standard-library module list of this interpreter (sys.stdlib_module_names) stands for the target interpreters",
        "names are resolved with the symtable of the real source (Python's own scoping): a name a scope leaves to the module level must be bound at top level of the shipped text, by an earlier bootstrap line, by the socket server's namespace, or be a builtin",
        "repr() of a str contains no raw newline (the bootstrap is one line read by sys.stdin.readline())",
        "gevent / eventlet imports are allowed only inside the respective ExecModel classes",
    ]
    not_decided = ["'then behaves exactly like an import-bootstrapped worker': both execute the same file text; only the native scenario on `python -S -E` checks behaviour (bounded)",
                   "attribute access on modules (os.xyz exists on the target) is not checked"]

    def setup(self, w):
        pass

    def static_checks(self, w):
        out = []
        gb = extract.load(GB)
        # 1. imports anywhere in gateway_base
        for modname, names, line, tc, qual in deps.imports(gb.tree):
            top = modname.lstrip(".").split(".")[0]
            rel = modname.startswith(".")
            ok = (not rel) and top != "execnet" and (top in deps.STDLIB or (top in deps.GREEN and qual.split(".")[0] in ("EventletExecModel", "GeventExecModel")))
            out.append((f"static/gateway_base/import:{modname}@{qual or 'module'}", ok, f"line {line}: import {modname} {names}"))
        # 2. free names of gateway_base
        top_names = deps.toplevel_names(gb.source, gb.path)
        for scope, name in deps.global_refs(gb.source, gb.path):
            ok = name in top_names or deps.is_builtin(name)
            out.append((f"static/gateway_base/name:{name}@{scope}", ok, f"{name} used in {scope}"))
        # 3. the SocketIO class text shipped by bootstrap_socket: gateway_base globals + `import socket`
        gs = extract.load(GSOCK)
        cls = gs.classes["SocketIO"]
        cls_src = ast.get_source_segment(gs.source, cls)
        shipped_names = top_names | {"socket"}
        for scope, name in deps.global_refs(cls_src, "SocketIO"):
            if name == "SocketIO":
                continue
            out.append((f"static/SocketIO/name:{name}@{scope}", name in shipped_names or deps.is_builtin(name), f"{name} used in {scope}"))
        for modname, names, line, tc, qual in deps.imports(ast.parse(cls_src)):
            out.append((f"static/SocketIO/import:{modname}", modname.split(".")[0] in deps.STDLIB, f"import {modname}"))
        # 4. bootstrap lines
        boot = extract.load(BOOT)
        provided = {"bootstrap_exec": set(), "bootstrap_socket": {"clientsock", "address", "execmodel", "socket", "SocketIO"}, "bootstrap_import": set()}
        for fname, extra in provided.items():
            fn = boot.func(fname)
            for call in [n for n in ast.walk(fn) if isinstance(n, ast.Call) and isinstance(n.func, ast.Name) and n.func.id == "sendexec"]:
                lines, ships_base = [], False
                for arg in call.args[1:]:
                    # what fills the holes: the worker is configured from the SPEC it was asked for (its execution model, its id), the same in both bootstrap paths
                    if isinstance(arg, ast.BinOp) and isinstance(arg.op, ast.Mod) and isinstance(arg.left, ast.Constant) and isinstance(arg.left.value, str):
                        tmpl, filler = arg.left.value, ast.unparse(arg.right)
                        want = {"execmodel = get_execmodel(%r)": ("spec.execmodel",), "serve(init_popen_io(execmodel), id='%s-worker')": ("spec.id",),
                                "serve(io, id='%s-worker')": ("spec.id", "id"), "if %r not in sys.path:": ("importdir",), "    sys.path.insert(0, %r)": ("importdir",)}.get(tmpl)
                        if want is not None:
                            out.append((f"static/{fname}/hole-filled-from-the-spec:{tmpl.strip()}", filler in want, f"`{tmpl}` % {filler} (expected one of {want})"))
                    lit = _literal(arg)
                    if lit is not None:
                        lines.append(lit)
                    elif "getsource(gateway_base)" in ast.unparse(arg):
                        ships_base = True
                    elif "getsource(SocketIO)" in ast.unparse(arg):
                        pass
                    else:
                        out.append((f"static/{fname}/line-is-literal", False, f"non-literal bootstrap line {ast.unparse(arg)[:60]}"))
                text = "\n".join(lines)
                try:
                    tree = ast.parse(text)
                    out.append((f"static/{fname}/lines-parse", True, f"{len(lines)} literal lines"))
                except SyntaxError as e:
                    out.append((f"static/{fname}/lines-parse", False, f"{e}"))
                    continue
                defined = set(extra) | (top_names if ships_base else set())
                if fname == "bootstrap_import":
                    defined |= set()
                for stmt in tree.body:
                    used = {n.id for n in ast.walk(stmt) if isinstance(n, ast.Name) and isinstance(n.ctx, ast.Load)}
                    for n in ast.walk(stmt):
                        if isinstance(n, (ast.Import, ast.ImportFrom)):
                            for al in n.names:
                                defined.add((al.asname or al.name).split(".")[0])
                            if isinstance(n, ast.ImportFrom):
                                # import-bootstrap: the names must exist in gateway_base
                                for al in n.names:
                                    out.append((f"static/{fname}/imported-name-exists:{al.name}", n.module != "execnet.gateway_base" or al.name in top_names, f"from {n.module} import {al.name}"))
                    binds = {n.id for n in ast.walk(stmt) if isinstance(n, ast.Name) and isinstance(n.ctx, ast.Store)}
                    for name in sorted(used):
                        # `try: execmodel / except NameError` deliberately probes an optional name
                        probing = isinstance(stmt, ast.Try) and any(isinstance(h.type, ast.Name) and h.type.id == "NameError" for h in stmt.handlers)
                        ok = name in defined or deps.is_builtin(name) or name in binds or probing
                        out.append((f"static/{fname}/name:{name}", ok, f"{name} in `{ast.unparse(stmt)[:50]}`"))
                    defined |= binds
        # 5. sendexec: one line
        se = ast.unparse(boot.func("sendexec"))
        out.append(("static/sendexec/one-repr-line", "io.write((repr(source) + '\\n').encode('utf-8'))" in se, se[-80:]))
        gio = extract.load(GIO)
        out.append(("static/popen_bootstrapline/reads-one-line", gio.consts.get("popen_bootstrapline") == "import sys;exec(eval(sys.stdin.readline()))", repr(gio.consts.get("popen_bootstrapline"))))
        pa = ast.unparse(gio.func("popen_args"))
        out.append(("static/popen_args/bootstrap-after-dash-c", "args.extend(['-c', popen_bootstrapline])" in pa, "popen_args"))
        # 6. modules shipped by remote_exec(module)
        for modname in (GIO, RSYNCR, SOCKSERVER):
            m = extract.load(modname)
            for imp, names, line, tc, qual in deps.imports(m.tree):
                if tc:
                    continue
                top = imp.lstrip(".").split(".")[0]
                if top == "execnet" and modname == GIO and line < 30:
                    # try: from execnet.gateway_base import X / except ImportError: from __main__ import X
                    ok = all(n in top_names for n in names)
                    out.append((f"static/{modname.split('.')[-1]}/fallback-import-names-exist@{line}", ok, f"{names}"))
                    continue
                ok = top in deps.STDLIB or imp == "__main__"
                out.append((f"static/{modname.split('.')[-1]}/import:{imp}@{qual or 'module'}:{line}", ok, f"line {line}: import {imp} {names}"))
        # 6b. `try: from execnet... import A, B / except ImportError: from __main__ import ...`: on a bare interpreter only the except branch runs,
        #     so it must bind every name the try branch binds (the shipped text must not use a name only the import path provides)
        for modname in (GIO, RSYNCR, SOCKSERVER):
            m = extract.load(modname)
            for node in m.tree.body:
                if isinstance(node, ast.Try) and any(isinstance(h.type, ast.Name) and h.type.id == "ImportError" for h in node.handlers):
                    def bound(stmts):
                        out_ = set()
                        for st_ in stmts:
                            for n in ast.walk(st_):
                                if isinstance(n, (ast.Import, ast.ImportFrom)):
                                    out_ |= {(al.asname or al.name).split(".")[0] for al in n.names}
                                elif isinstance(n, ast.Name) and isinstance(n.ctx, ast.Store):
                                    out_.add(n.id)
                        return out_
                    tried = bound(node.body)
                    for h in node.handlers:
                        missing = sorted(tried - bound(h.body))
                        out.append((f"static/{modname.split('.')[-1]}/import-fallback-binds-the-same-names@{node.lineno}", not missing, f"try binds {sorted(tried)}; fallback misses {missing}"))
        # 7. bootstrap(): import-bootstrap only for a plain popen
        bs = ast.unparse(boot.func("bootstrap"))
        out.append(("static/bootstrap/import-only-for-plain-popen", "if spec.popen:\n        if spec.via or spec.python:\n            bootstrap_exec(io, spec)\n        else:\n            bootstrap_import(io, spec)" in bs, "branch structure"))
        return out

    def replay(self, ob):
        return None

    def witness_replay(self, f):
        # the stand-alone socket server on an interpreter that cannot import execnet
        import subprocess

        path = os.path.join(extract.REPO_SRC, "execnet", "script", "socketserver.py")
        try:
            p = subprocess.run(["/venv/bin/python", "-S", "-E", path, "127.0.0.1:0"], capture_output=True, text=True, timeout=20, env={"PATH": os.environ.get("PATH", "")})
            err = p.stderr
        except subprocess.TimeoutExpired:
            err = "started and kept serving (no import problem)"
        return {"failed": "No module named 'execnet'" in err, "outcome": err[-300:]}

    def bounded(self, tier):
        res = run_oracle("c15_nosite.py", None, timeout=300)
        return [{"name": "native-bootstrap-without-site-packages", "bound": "popen//python=<python -S -E>, via= and socket bootstrap on an interpreter that cannot import execnet: a channel program (send/receive/remote_exec function) must work",
                 "evaluations": res.get("n", 0), "failures": 1 if res.get("failed") else 0, "detail": res.get("results") if res.get("failed") else None}]
