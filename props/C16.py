"""C16 - every transport is observationally equivalent for channel programs."""
from __future__ import annotations

import ast

import z3

from contracts import io as cio
from contracts import proxy as cproxy
from contracts.base import GB, GIO, GSOCK
from pyvc import extract
from pyvc.contracts import Case, Contract
from pyvc.run import Prop

from .C08 import run_oracle

FWD = f"{GIO}:serve_proxy_io"


class PROP(Prop):
    id = "C16"
    title = ("ProxyIO refines the IO contract Message.from_io/to_io rely on (read returns exactly n bytes or raises EOFError, one item per write, close_read returns); "
             "control requests reach the sub transport and answer; the forwarder writes the sub's byte stream to the master unmodified, in order, nothing more; "
             "Popen2IO and SocketIO refine the same contract (io world, shared with C08)")
    design_ref = "DESIGN.md section 4, C16"
    targets = [f"{GIO}:ProxyIO.read", f"{GIO}:ProxyIO.write", f"{GIO}:ProxyIO._controll", f"{GIO}:ProxyIO.close_write", f"{GIO}:ProxyIO.close_read",
               f"{GIO}:ProxyIO.kill", f"{GIO}:ProxyIO.wait", FWD, f"{FWD}.forward_to_sub", f"{FWD}.control",
               f"io::{GB}:Popen2IO.read", f"io::{GB}:Popen2IO.write", f"io::{GSOCK}:SocketIO.read", f"io::{GSOCK}:SocketIO.write",
               f"io::{GB}:Message.from_io", f"io::{GB}:Message.to_io",
               # a half close is a half close on every transport (after exit() the initiator still receives what the worker's last tasks send)
               f"io::{GB}:Popen2IO.close_write", f"io::{GB}:Popen2IO.close_read", f"io::{GSOCK}:SocketIO.close_write", f"io::{GSOCK}:SocketIO.close_read",
               # the proxied byte stream travels as channel items through these two: one item per write, the reader returns exactly the concatenation (contracts of C19)
               f"cf::{GB}:ChannelFileWrite.write", f"cf::{GB}:ChannelFileRead.read"]
    extra_worlds = {"io": cio.declare, "cf": lambda w: __import__("contracts.chanfile", fromlist=["declare"]).declare(w)}
    heavy = {f"cf::{GB}:ChannelFileRead.read": 4}
    assumptions = [
        "equivalence argument: a gateway's behaviour depends on its transport only through read/write/close_read/close_write/wait/kill; Popen2IO, SocketIO (C08) and ProxyIO are each shown to satisfy "
        "the same IO contract over a byte stream, and the forwarder is shown to be the identity on that stream - that the gateway code above is a function of this contract alone is the modularity assumption of the method (not a proved non-interference theorem)",
        "ChannelFileRead.read / ChannelFileWrite.write: file semantics over the concatenated items, one item per write - verified here too (world cf, the contracts of C19); readline and close by C19 only",
        "Channel.send/receive: items arrive once and in order (C02), bytes items unchanged (C01); setcallback passes every item to the callback once, in order, from the receiver thread (C10)",
        "the sub's stream consists of frames written by Message.to_io (length fields non-negative); an incomplete trailing frame of a cut stream is dropped by the forwarder (stated in the postcondition as $tail)",
        "the second item on the proxy channel is the control channel (ProxyIO.__init__ sends it): typing.cast taken at its word",
        "create_io() returns a started transport refining the IO contract (Popen2IOMaster: C08)",
        "bytes are SMT sequences; int is mathematical",
    ]
    not_decided = ["socket server bootstrap (script/socketserver.py, start_via) and the gevent/eventlet execmodels: native scenario only",
                   "blocking of the master's receiver thread while forward_to_sub writes to a full pipe (the XXX in the source): liveness, not decided",
                   "concurrent control requests on one ProxyIO: _controll is a send followed by a receive without a lock, so two concurrent callers may get each other's reply; the contract is for one request at a time "
                   "(execnet's own concurrent pair, exit() against the receiver epilogue, asks close_write twice: equal replies)",
                   "ProxyIO.__init__ (remote_exec of gateway_io on the master gateway): native scenario only"]

    def setup(self, w):
        cproxy.declare(w)

    def canaries(self, w):
        real = w.contracts[FWD]

        def wrong(a, h, h2, r):
            # claims the forwarder drops the bootstrap byte
            io = h2("ExecModel", h("BaseGateway", h("Channel", a.proxy_channelX, "gateway"), "execmodel"), "$sub")
            return [z3.Length(h2("Channel", a.proxy_channelX, "$forwarded")) < z3.Length(h("Channel", a.proxy_channelX, "$forwarded")) + z3.Length(h2("IO", io, "$stream")) - z3.Length(h2("IO", io, "$tail"))]

        c = Contract(real.target, real.params, requires=real.requires, modifies=real.modifies, cases=[Case("sub-ended", post=wrong)] + real.cases[1:], allocates=True)
        return [("forwarder-drops-bytes", c)]

    def static_checks(self, w):
        gio = extract.load(GIO)
        out = []
        for name, val in (("RIO_KILL", cproxy.RIO_KILL), ("RIO_WAIT", cproxy.RIO_WAIT), ("RIO_REMOTEADDRESS", cproxy.RIO_REMOTEADDRESS), ("RIO_CLOSE_WRITE", cproxy.RIO_CLOSE_WRITE)):
            out.append((f"static/gateway_io/{name}-is-{val}", gio.consts.get(name) == val, f"{name} = {gio.consts.get(name)!r}"))
        out.append(("static/gateway_io/control-codes-distinct", len({gio.consts.get(n) for n in ("RIO_KILL", "RIO_WAIT", "RIO_REMOTEADDRESS", "RIO_CLOSE_WRITE")}) == 4, "distinct codes"))
        init = extract.flat_src(gio, "ProxyIO.__init__")
        mk = extract.flat_src(extract.load("execnet.multi"), "Group.makegateway")
        sends = [mk.find("proxy_channel.send(vars(spec))"), mk.find("gateway_io.ProxyIO(proxy_channel, self.execmodel)")]
        out.append(("static/makegateway/spec-sent-before-ProxyIO-sends-control-channel", 0 <= sends[0] < sends[1] and "proxy_channel.send(self.controlchan)" in init, f"positions {sends}"))
        out.append(("static/ProxyIO.__init__/file-reads-io-channel", "self.iochan_file = self.iochan.makefile('r')" in init, "iochan_file"))
        srv = ast.unparse(gio.func("serve_proxy_io"))
        order = [srv.find("proxy_channelX.receive()"), srv.find("create_io("), srv.find("cast('Channel', proxy_channelX.receive())")]
        out.append(("static/serve_proxy_io/receives-spec-then-control-channel", all(p >= 0 for p in order) and order == sorted(order), f"positions {order}"))
        out.append(("static/serve_proxy_io/callbacks-installed", "proxy_channelX.setcallback(forward_to_sub)" in srv and "control_chan.setcallback(control)" in srv, "setcallback"))
        return out + self._submodule_obligations()

    def _submodule_obligations(self):
        """ExecModel accessors: `import top` followed by `top.sub` is only safe when `sub` is bound by top's __init__; when `top.sub` is a
        submodule the accessor must import it itself (gevent.socket is not loaded by `import gevent`).  Importability is asked of /venv's python."""
        import json
        import subprocess

        gb = extract.load(GB)
        uses = []
        for cname in ("ExecModel", "WorkerPoolExecModel", "ThreadExecModel", "MainThreadOnlyExecModel", "EventletExecModel", "GeventExecModel"):
            cls = gb.classes.get(cname)
            for fn in [n for n in (cls.body if cls else []) if isinstance(n, ast.FunctionDef)]:
                imported = {al.name for n in ast.walk(fn) if isinstance(n, ast.Import) for al in n.names}
                tops = {i.split(".")[0] for i in imported}
                for n in ast.walk(fn):
                    if isinstance(n, ast.Attribute):
                        chain, cur = [], n
                        while isinstance(cur, ast.Attribute):
                            chain.append(cur.attr); cur = cur.value
                        if isinstance(cur, ast.Name) and cur.id in tops:
                            dotted = ".".join([cur.id] + chain[::-1])
                            uses.append((f"{cname}.{fn.name}", dotted, sorted(imported)))
        probe = ("import importlib.util, json, sys\nout = {}\nfor d in json.load(sys.stdin):\n    parts = d.split('.')\n    r = []\n"
                 "    for i in range(2, len(parts) + 1):\n        name = '.'.join(parts[:i])\n        try:\n            top = importlib.util.find_spec(parts[0])\n"
                 "            sp = importlib.util.find_spec(name) if top else None\n        except Exception:\n            sp = None\n"
                 "        if top is None:\n            r = None; break\n        if sp is not None:\n            r.append(name)\n        else:\n            break\n    out[d] = r\nprint(json.dumps(out))")
        try:
            p = subprocess.run(["/venv/bin/python", "-c", probe], input=json.dumps(sorted({u[1] for u in uses})), capture_output=True, text=True, timeout=60)
            info = json.loads(p.stdout)
        except Exception as e:  # no answer: nothing can be decided
            return [("static/execmodel-accessors/probe-ran", False, f"{type(e).__name__}: {e}")]
        out, seen = [], set()
        for where, dotted, imported in uses:
            subs = info.get(dotted)
            if subs is None or (where, dotted) in seen:
                continue   # top-level package not installed here: undecided, listed under not_decided
            seen.add((where, dotted))
            for sub in subs:   # every prefix that is a submodule must be covered by an import statement of the accessor
                ok = any(i == sub or i.startswith(sub + ".") for i in imported)
                out.append((f"static/{where}/submodule-imported:{sub}", ok, f"uses {dotted}; imports {imported}"))
        return out

    def replay(self, ob):
        return run_oracle("c16_transports.py", None, timeout=600, args=["quick"])

    def bounded(self, tier):
        res = run_oracle("c16_transports.py", None, timeout=1500, args=[tier])
        return [{"name": "native-transport-transcripts", "bound": "one echo/sub-channel/callback/error/close program with payloads 0 B .. 64 KiB" + (" .. 4 MiB, 3 seeds" if tier == "thorough" else "")
                 + " on popen, popen//python=, socket//installvia, popen//via x remote execmodels {thread, main_thread_only, gevent when importable}; kill/wait/exit through the proxy; worker killed on popen/via/socket; "
                 "the three IO classes on a two-frame stream cut at every byte", "evaluations": res.get("n", 0), "failures": 1 if res.get("failed") else 0,
                 "detail": res.get("results") if res.get("failed") else None}]
