"""C17 - RSync makes every target tree equal to the source, minimally."""
from __future__ import annotations

import ast

import z3

from contracts import rsync as cr
from contracts.base import RSYNC, RSYNCR
from pyvc import extract
from pyvc.contracts import Case, Contract
from pyvc.run import Prop

from .C08 import run_oracle

SR = f"{RSYNCR}:serve_rsync"


class PROP(Prop):
    id = "C17"
    title = ("over an abstract file system: the receiver's recursive walk (directory made and owner-writable, recursion per listed name, unlisted entries removed exactly with delete, nothing outside the path touched, "
             "queued paths distinct), its decision table for file / link-placeholder messages (request exactly when content may differ, md5 only when size is equal and mtime differs, "
             "a mode-only difference sets the source's permission bits and nothing else, what stands in the way is removed), remove(), the body of serve_rsync (one data message and one ack per queued file, "
             "content / chmod / utime per file, every link message becomes a symlink at the corresponding place, completion marker); the sender's per-path broadcast (mode, mtime, size of a file; list message of a "
             "directory; link classification as a function of (target, sourcedir) only), _send_item (no content when the checksum matches, reported exactly when sent), _process_link")
    design_ref = "DESIGN.md section 4, C17"
    tag_worlds = True
    targets = [f"{SR}.remove", f"{SR}.receive_directory_structure#entry", SR,
               f"walk::{SR}.receive_directory_structure#walk",
               f"snd::{RSYNC}:RSync._send_link", f"snd::{RSYNC}:RSync._send_link_structure", f"snd::{RSYNC}:RSync._send_directory_structure", f"snd::{RSYNC}:RSync._send_directory",
               f"snd::{RSYNC}:RSync._send_item", f"snd::{RSYNC}:RSync._process_link",
               f"snd::{RSYNC}:RSync._done", f"snd::{RSYNC}:RSync._end_of_channel",   # several targets: finishing one leaves what the others still need (frame of _done)
               f"snd::{RSYNC}:RSync._list_done",
               # send(): trailing slash normalised for everything that follows, structure broadcast first, then every request taken from the queue is answered by its
               # handler, for its channel, with its arguments, in arrival order (history variable), until every target has reported "done"
               f"send::{RSYNC}:RSync.send"]
    heavy = {f"walk::{SR}.receive_directory_structure#walk": 16, SR: 12, f"snd::{RSYNC}:RSync._send_link_structure": 2, f"snd::{RSYNC}:RSync._send_item": 4, f"{SR}.receive_directory_structure#entry": 4, f"send::{RSYNC}:RSync.send": 8}
    extra_worlds = {"snd": cr.declare_sender, "walk": cr.declare_walk_loops, "send": cr.declare_send_loop}
    assumptions = [
        "abstract file system: total maps path -> kind / permission bits / mtime / content / link target; os.lstat, unlink, makedirs, chmod, utime, symlink, readlink, listdir, open/read/write, shutil.rmtree(ignore_errors) are "
        "assumed contracts on these maps (the receiver owns the target tree: chmod/utime of an existing entry succeed; rmtree removes everything below its argument); mtimes are opaque integer stamps",
        "os.path.join(a, b) is a + '/' + b (POSIX, entry names without '/'); os.path.relpath is characterised for normalised absolute paths, and a relative path is resolved against the working directory; "
        "link targets and the source directory are normalised (no '.', '..', empty segments); POSIX only (the ntpath branch is not taken)",
        "md5 is injective (hash collisions ignored)",
        "the recursive walk (receive_directory_structure, all three message kinds, with invariants for the names loop and the deletion loop) is verified in the world `walk`; the body of serve_rsync uses that contract "
        "at its call site. Recursion: partial correctness (each call consumes at least one message; no termination measure is proved)",
        "directory messages carry distinct entry names without '/' (what _send_directory sends: os.listdir names); os.listdir lists exactly the existing entries with such names; "
        "seg(P, x) - the first path segment of x after P/ - with its two defining facts (two different entry names have no common descendant path): assumed string lemmas, differentially checked",
        "one sender and one receiver per channel, FIFO delivery of items unchanged (C01, C02); no concurrent modification of either tree; link messages name pairwise non-nested paths (leaves of one source tree)",
        "messages are opaque items with a tag and projections (constructors fm/dm/lk/d2u with projection axioms); Python's None is one value (link placeholder and 'no content' answer)",
        "_paths / _to_send bookkeeping for progress callbacks is executed but not specified",
    ]
    not_decided = ["the whole-tree statement (every source entry present and equal at every target; delete removes exactly the rest) as one theorem: it is the composition of the per-message contracts along the "
                   "pre-order listing - an induction over the tree that is not mechanised; the native oracle compares whole trees (bounded)",
                   "add_target (static obligation only); that send() never ends with KeyError from the progress bookkeeping (every requested path has a recorded size: an invariant of _send_item's two "
                   "dictionaries across the loop) is not mechanised: _list_done's contract allows KeyError exactly for a requested path without a recorded size; the native oracle runs with a progress callback in every second round",
                   "the queue of requests is a prophecy variable (the sequence of (channel, request) pairs the targets will put); that each target's requests arrive in the order it sent them is C02/C10",
                   "real file-system effects: umask, ownership, timestamp resolution, unreadable files, special files"]

    def setup(self, w):
        cr.declare_serve_rsync_body(w)

    def canaries(self, w):
        real = w.contracts[f"{SR}.remove"]

        def wrong(a, h, h2, r):
            return [cr.fsget(h2, "kind", a.path) == cr.fsget(h, "kind", a.path)]     # claims remove() leaves the entry in place

        c = Contract(real.target, real.params, requires=real.requires, modifies=real.modifies, cases=[Case("ok", post=wrong)] + real.cases[1:])
        c.closure = real.closure
        return [("remove-removes-nothing", c)]

    def static_checks(self, w):
        m = extract.load(RSYNC)
        out = []
        at = extract.flat_src(m, "RSync.add_target")
        out.append(("static/RSync.add_target/destdir-and-options-sent-first", "channel.send((str(destdir), options))" in at and "channel.setcallback(itemcallback, endmarker=None)" in at, "add_target"))
        r = extract.load(RSYNCR)
        sr = ast.unparse(r.func("serve_rsync"))
        order = [sr.find("receive_directory_structure(destdir, [])"), sr.find("channel.send(('list_done', None))"), sr.find(" in modifiedfiles:"), sr.find("channel.send(('links', None))"),
                 sr.find("while msg != 42"), sr.find("channel.send(('done', None))")]
        out.append(("static/serve_rsync/phases-in-protocol-order", all(p >= 0 for p in order) and order == sorted(order), f"positions {order}"))
        rds = ast.unparse(r.func("serve_rsync.receive_directory_structure"))
        out.append(("static/receive_directory_structure/directories-forced-writable-and-only-directories", sr.count("| 448") + sr.count("| 0o700") == 1 and "os.makedirs(path)" in sr, "one `| 0o700`, on the directory branch"))
        out.append(("static/receive_directory_structure/deletion-only-with-delete-and-only-unlisted-names", "if options.get('delete'):" in sr and " not in entrynames:" in sr, "deletion loop guard"))
        return out

    def replay(self, ob):
        return run_oracle("c17_rsync.py", None, timeout=900, args=["quick"])

    def bounded(self, tier):
        res = run_oracle("c17_rsync.py", None, timeout=2400, args=[tier, "1"])
        return [{"name": "native-tree-differential", "bound": ("6" if tier == "quick" else "40") + " generated rounds (seed 1): trees of depth <= 3 with files (empty/binary/70 kB, 7 modes, 4 mtimes), directories, relative/absolute/outside/"
                 "dangling links, names with spaces/unicode x prior target {absent, empty, other tree, kinds swapped} x delete x 1-3 targets x cwd {outside, source root, each source sub directory}; then re-sync unchanged "
                 "(nothing sent, nothing changed) and a mode-only change", "evaluations": res.get("n", 0), "failures": 1 if res.get("failed") else 0, "detail": res.get("results") if res.get("failed") else None}]
