"""C18 - channel layer (DESIGN.md section 4, C18)."""
from .chanprops import make

PROP = make("C18")
