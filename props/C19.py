"""C19 - channel files behave like files over the concatenated items."""
from __future__ import annotations

import itertools
import random

import z3

from contracts import chanfile
from contracts.base import GB
from pyvc import smt
from pyvc.contracts import Case, Contract
from pyvc.run import Prop

from .C08 import run_oracle


def battery(seed=0, n=60):
    rng = random.Random(seed)
    alpha = ["a", "b", "\n", "", "xy\n", "\n\n", "long-item-without-newline", "é"]
    cases = []
    for _ in range(n):
        items = [rng.choice(alpha) for _ in range(rng.randrange(0, 5))]
        calls = [rng.choice([["read", rng.randrange(0, 4)], ["readline"]]) for _ in range(rng.randrange(1, 7))]
        cases.append({"items": items, "calls": calls, "proxyclose": rng.random() < 0.5})
    cases.append({"writes": ["a", "", "b\n"], "proxyclose": False})
    cases.append({"writes": ["a", "bc"], "proxyclose": True})
    return cases


class PROP(Prop):
    id = "C19"
    title = "ChannelFileRead.read/readline equal file semantics over buffer+remaining items; write is one item; close honours proxyclose"
    design_ref = "DESIGN.md section 4, C19"
    targets = [f"{GB}:ChannelFileRead.read", f"{GB}:ChannelFileRead.readline", f"{GB}:ChannelFile.close",
               f"{GB}:ChannelFileWrite.write", f"{GB}:ChannelFileWrite.flush", f"{GB}:Channel.makefile"]
    heavy = {f"{GB}:ChannelFileRead.readline": 8, f"{GB}:ChannelFileRead.read": 4}
    assumptions = [
        "Channel.receive() is a ghost iterator: the items sent, in order, then EOFError for ever (decided for the real queue by C02/C03); RemoteError while reading a file is not modelled",
        "items are all str (typing.cast(str, ...) in the code is taken at its word); u2str is the text of an item",
        "read(n) is specified for n >= 0 only: for n < 0 a file returns everything while ChannelFileRead returns buffer[:n]; execnet never calls it negatively (scoping decision, DESIGN C19)",
        "Channel.close()/send() as seen from the file: one close call / one item appended, OSError once closed (C03, C01)",
        "str is an SMT sequence; slicing/find encodings are differentially checked against CPython",
    ]
    not_decided = ["blocking behaviour of receive()", "bytes items (ProxyIO) share the same code path but the empty result is the str '' (reported under C16)"]

    def setup(self, w):
        chanfile.declare(w)

    def canaries(self, w):
        real = w.contracts[f"{GB}:ChannelFileRead.readline"]

        def wrong(a, h, h2, res):
            # claims readline never returns the newline
            return [z3.Not(z3.Contains(res, chanfile.NL))]

        return [("readline-drops-newline", Contract(real.target, real.params, requires=real.requires, modifies=real.modifies,
                                                     cases=[Case("ok", restype=real.cases[0].restype, post=wrong)]))]

    def replay(self, ob):
        m = ob.model or {}
        cases = []
        sv = lambda n: smt.model_value(m, z3.Const(n, z3.StringSort()))
        iv = lambda n: smt.model_value(m, z3.Const(n, z3.IntSort()))
        if "probe_buffer" in m or "probe_rest" in m:
            b, r = sv("probe_buffer") or "", sv("probe_rest") or ""
            npend = iv("probe_npending") or 0
            items = ([b] if b else []) + ([r] if npend <= 1 or len(r) < 2 else [r[: len(r) // 2], r[len(r) // 2:]])
            n = ob.input_value("n")
            first = ["read", len(b)] if b else None
            call = ["read", n if isinstance(n, int) and n >= 0 else 1] if "read/" in ob.id and "readline" not in ob.id else ["readline"]
            cases.append({"items": [x for x in items if isinstance(x, str)], "calls": ([first] if first else []) + [call, call], "proxyclose": False})
        return run_oracle("c19_chanfile.py", {"cases": cases + battery(1, 200)})

    def bounded(self, tier):
        res = run_oracle("c19_chanfile.py", {"cases": battery(0, 300 if tier == "quick" else 3000)})
        return [{"name": "native-file-differential", "bound": "random item splits x call sequences (<=4 items, <=6 calls), seeded", "evaluations": res.get("n", 0),
                 "failures": 1 if res.get("failed") else 0, "detail": res.get("results") if res.get("failed") else None}]
