"""C20 - specs parse faithfully; group ids stay unique."""
from __future__ import annotations

import itertools

import z3

from contracts import xspec as cx
from contracts.base import MULTI, XSPEC
from pyvc import smt
from pyvc.contracts import Case, Contract
from pyvc.run import Prop

from .C08 import run_oracle


def enum_cases(maxlen=2, nitems=(1, 2, 3)):
    """Exhaustive: items over a small alphabet (bounded stand-in, labelled)."""
    keys = ["a", "b", "env:A", "env:B", "id", "env", "a/", "x:y"]
    vals = [None, "", "1", "a=b", "/t", "t/"]
    items = [k if v is None else f"{k}={v}" for k in keys for v in vals]
    cases = []
    for n in nitems:
        if n <= 2:
            cases += [list(c) for c in itertools.product(items, repeat=n)]
        else:
            cases += [list(c) for c in itertools.product(items[::5], repeat=n)]
    return cases


class PROP(Prop):
    id = "C20"
    title = "XSpec.__init__ stores every item and accepts only pairwise distinct keys; str/eq/hash follow the text; Group ids unique under the _autoidlock monitor"
    design_ref = "DESIGN.md section 4, C20"
    targets = [f"{XSPEC}:XSpec.__init__", f"{XSPEC}:XSpec.__getattr__", f"{XSPEC}:XSpec.__str__", f"{XSPEC}:XSpec.__hash__",
               f"{XSPEC}:XSpec.__eq__", f"{XSPEC}:XSpec.__ne__",
               f"{MULTI}:Group.__getitem__#id", f"{MULTI}:Group.__getitem__#index", f"{MULTI}:Group.__contains__", f"{MULTI}:Group.__len__", f"{MULTI}:Group.__iter__",
               f"{MULTI}:Group.allocate_id", f"{MULTI}:Group._register"]
    heavy = {f"{XSPEC}:XSpec.__init__": 8, f"{MULTI}:Group._register": 2, f"{MULTI}:Group.allocate_id": 2}
    assumptions = [
        "str.split('//') yields pieces without '//' whose non-final pieces do not end with '/' (leftmost splitting); that split inverts '//'.join(items) exactly when no item contains '//' and no non-final item ends with '/' is a lemma about a builtin, cross-checked by exhaustive enumeration (bounded)",
        "universally quantified invariants are carried for arbitrary fixed indices (free constants J1, J2, G1, G2, Jg): sound by induction per index tuple",
        "an XSpec instance's __dict__ holds '_spec', 'env' and the keys set by setattr; values are True or a str",
        "hash(str) is a function of the text (strhash)",
        "monitor reasoning for Group._autoidlock: protected fields are havocked at acquisition and the invariant assumed; sequentially consistent interleaving at critical-section granularity",
        "str(int) is injective (dec/undec axioms, differentially checked)",
    ]
    not_decided = [
        "'unique valid keys never raise ValueError' (the converse direction) is not proved by contract; it is covered by the exhaustive enumeration (bounded), which is what exposes the reserved key 'env'",
        "shlex.split inside shell_split_path / popen_args",
        "Group.__iter__, _unregister: iteration over a copy / list.remove are not under contract yet",
    ]

    def setup(self, w):
        cx.declare(w)

    def canaries(self, w):
        real = w.contracts[f"{XSPEC}:XSpec.__str__"]
        return [("XSpec.__str__-returns-something-else", Contract(real.target, real.params, cases=[
            Case("ok", restype=real.cases[0].restype, post=lambda a, h, h2, r: [r == z3.Concat(h("XSpec", a.self, "_spec"), z3.StringVal("/"))])]))]

    def static_checks(self, w):
        """a name that is absent from the spec string reads as None: ordinary attribute lookup finds a class-level default BEFORE __getattr__ is asked, so every default must be None"""
        import ast

        from pyvc import extract

        out = []
        mod = extract.load(XSPEC)
        cls = next(n for n in mod.tree.body if isinstance(n, ast.ClassDef) and n.name == "XSpec")
        for n in cls.body:
            tgt = n.target if isinstance(n, ast.AnnAssign) else (n.targets[0] if isinstance(n, ast.Assign) and len(n.targets) == 1 else None)
            if isinstance(tgt, ast.Name) and not tgt.id.startswith("__"):
                val = getattr(n, "value", None)
                out.append((f"static/XSpec/class-default-is-None:{tgt.id}", val is None or (isinstance(val, ast.Constant) and val.value is None), f"{tgt.id} = {ast.unparse(val) if val is not None else '<annotation only>'}"))
        return out

    def replay(self, ob):
        m = ob.model or {}
        cases = []
        sv = lambda n: smt.model_value(m, z3.Const(n, z3.StringSort()))
        if "probe_item1" in m and "probe_item2" in m:
            i1, i2 = sv("probe_item1"), sv("probe_item2")
            if isinstance(i1, str) and isinstance(i2, str):
                cases += [[i1, i2], [i2, i1]]
        if "Group._register" in ob.id or "Group._gateways" in ob.id:
            return run_oracle("c20_register_race.py", None, args=[60000])
        return run_oracle("c20_xspec.py", {"cases": cases + enum_cases(nitems=(1, 2))})

    def witness_replay(self, f):
        if f["replay"] == "xspec-items":
            return run_oracle("c20_xspec.py", {"cases": [f["items"]]})
        if f["replay"] == "register-race":
            return run_oracle("c20_register_race.py", None, args=[60000])
        return None

    def bounded(self, tier):
        from pyvc.run import load_known

        reserved = [f["key"] for f in load_known() if f["property"] == "C20" and f.get("status") == "known" and f.get("replay") == "xspec-items" and "key" in f]
        slash = any(f["property"] == "C20" and f.get("status") == "known" and f.get("rule") == "non-final-item-ends-with-slash" for f in load_known())
        res = run_oracle("c20_xspec.py", {"cases": enum_cases(nitems=(1, 2) if tier == "quick" else (1, 2, 3)), "known_reserved_keys": reserved, "known_trailing_slash": slash}, timeout=600)
        out = [{"name": "xspec-exhaustive-small-alphabet", "bound": "all 1- and 2-item specs over 8 keys x 6 values (48 items)", "evaluations": res.get("n", 0),
                "skipped_outside_statement": res.get("skipped"), "failures": 1 if res.get("failed") else 0, "detail": res.get("results") if res.get("failed") else None}]
        return out
