"""Shared pieces of the channel-layer properties (C02, C03, C04, C07, C10, C18)."""
from __future__ import annotations

import z3

from contracts import channel as cc
from contracts.base import GB
from pyvc.contracts import Case, Contract
from pyvc.run import Prop, load_known

from .C08 import run_oracle

F = f"{GB}:ChannelFactory."
C = f"{GB}:Channel."
COMMON_ASSUMPTIONS = [
    "single-consumer reasoning: Message.received, _local_receive, _local_close, _finished_receiving run only in the receiver thread, one message at a time, under _receivelock; their composition is sequential code (static obligation: these are called only from _thread_receiver / handlers / remote_status' documented direct call)",
    "queue.Queue is a linearisable FIFO (put appends, get takes the head, Empty on an empty non-blocking / timed-out get); threading.Event as contracted",
    "ghost histories: $wire_out (frames handed to BaseGateway._send, in order), $call_fn/$call_arg (user callbacks invoked by the receiver, in order)",
    "user callbacks are opaque: they return, raise an arbitrary Exception, or raise a non-Exception BaseException; they do not re-enter the channel layer (no re-entrancy)",
    "BaseGateway._send appends one whole frame or raises OSError and appends nothing (C08); dumps_internal/loads_internal as contracted in C01/C13 (an item is a function of the payload and the applicable string coercion pair)",
    "the WeakValueDictionary of channels is modelled as a dict; an entry vanishing when the last reference dies is Channel.__del__'s effect, not modelled as spontaneous removal",
    "facts quantified over channel ids are carried for an arbitrary fixed id (free constant) and generalised at assumption points; closed heap: registered channels are allocated objects",
]
NOT_DECIDED_COMMON = [
    "races between a user thread (close, receive, setcallback) and the receiver thread on the same channel: those methods take no lock (only setcallback holds _receivelock); covered only by the native scenarios",
    "line-level preemption inside queue.Queue / Event (library code)",
]


def run_scen(names, timeout=300):
    return run_oracle("chan_scenarios.py", None, timeout=timeout, args=names)


class ChanProp(Prop):
    scenarios: list[str] = []
    canary_target = None

    def setup(self, w):
        cc.declare(w)

    def static_checks(self, w):
        return per_instance_state(("Channel", "ChannelFactory", "BaseGateway", "WorkerGateway", "ChannelFile", "ChannelFileRead", "ChannelFileWrite", "Reply", "WorkerPool"))

    def replay(self, ob):
        return run_scen(self.scenarios)

    def witness_replay(self, f):
        r = run_scen(f.get("scenarios") or self.scenarios)
        if r.get("failed") and f.get("match"):
            # only the recorded witness counts: any other scenario failure is not this finding
            whys = " | ".join(w for res in r.get("results", []) for w in res.get("why", []))
            r["failed"] = f["match"] in whys
        return r

    def bounded(self, tier):
        known = [f for f in load_known() if (f["property"] == self.id or self.id in f.get("also", [])) and f.get("status") == "known" and f.get("match")]
        r = run_scen(self.scenarios)
        fails = []
        for res in r.get("results", []):
            if res.get("failed"):
                rest = [w for w in res["why"] if not any(f["match"] in w for f in known)]   # exactly the recorded witnesses are excluded
                if rest:
                    fails.append({"scenario": res["scenario"], "why": rest})
        return [{"name": "native-channel-scenarios", "bound": f"scenarios {self.scenarios} on one real popen gateway each (real threads, real SIGKILL)", "evaluations": r.get("n", 0),
                 "failures": len(fails), "detail": fails or None}]


def per_instance_state(classes, module=GB, tables=("_types", "num2func", "_dispatch")):
    """Static obligations behind the heap model: the contracts treat every attribute of these classes as a cell of the OBJECT.  A mutable value bound in the class body
    (a list, dict or set display / constructor call) is one object shared by all instances, unless every instance rebinds it in __init__ - which is what is checked."""
    import ast

    from pyvc import extract

    mod = extract.load(module)
    out = []
    for cls in [n for n in mod.tree.body if isinstance(n, ast.ClassDef) and n.name in classes]:
        init = next((n for n in cls.body if isinstance(n, ast.FunctionDef) and n.name == "__init__"), None)
        rebound = {t.attr for n in (ast.walk(init) if init else []) if isinstance(n, (ast.Assign, ast.AnnAssign))
                   for t in (n.targets if isinstance(n, ast.Assign) else [n.target]) if isinstance(t, ast.Attribute) and isinstance(t.value, ast.Name) and t.value.id == "self"}
        for n in cls.body:
            tgt = n.target if isinstance(n, ast.AnnAssign) else (n.targets[0] if isinstance(n, ast.Assign) and len(n.targets) == 1 else None)
            val = getattr(n, "value", None)
            if not isinstance(tgt, ast.Name) or val is None or tgt.id in tables:
                continue
            mutable = isinstance(val, (ast.List, ast.Dict, ast.Set, ast.ListComp, ast.DictComp, ast.SetComp)) or (
                isinstance(val, ast.Call) and isinstance(val.func, ast.Name) and val.func.id in ("list", "dict", "set", "bytearray", "deque", "defaultdict"))
            if mutable:
                out.append((f"static/{cls.name}.{tgt.id}/class-level-mutable-is-rebound-per-instance", tgt.id in rebound, f"{cls.name}.{tgt.id} = {ast.unparse(val)[:40]} is shared by all instances"))
    out.append((f"static/per-instance-state/classes-found", len({n.name for n in mod.tree.body if isinstance(n, ast.ClassDef)} & set(classes)) >= 6, "the classes whose heap model this protects exist"))
    return out


GBR = f"{GB}:BaseGateway._thread_receiver"
MRC = f"{GB}:Message.received"


def sel(sv, i):
    return z3.Select(sv, i)


def canary_c02(real):
    def post(a, h, h2, r):   # claims the item is put at the HEAD of the queue
        ch = z3.Select(h.sv("ChannelFactory", a.self, "_channels").v[1][0], a.id)
        q = h("Channel", ch, "_items")
        queued = z3.And(z3.Not(z3.Select(h.sv("ChannelFactory", a.self, "_callbacks").v[0], a.id)), z3.Select(h.sv("ChannelFactory", a.self, "_channels").v[0], a.id), q != 0,
                        z3.Length(h("Queue", q, "$content")) > 0)
        return [z3.Implies(queued, h2("Queue", q, "$content")[0] != h("Queue", q, "$content")[0])]
    return Contract(real.target, real.params, requires=real.requires, modifies=real.modifies, cases=[Case("ok", post=post)] + real.cases[1:])


def canary_c03(real):
    def post(a, h, h2, e):   # claims ENDMARKER is consumed at the end of the channel instead of being put back
        q = h("Channel", a.self, "_items")
        return [h2("Queue", q, "$content") == z3.SubSeq(h("Queue", q, "$content"), 1, z3.Length(h("Queue", q, "$content")) - 1)]
    return Contract(real.target, real.params, requires=real.requires, modifies=real.modifies, defaults=real.defaults,
                    cases=[real.cases[0], Case("eof", "raise", "EOFError", when=real.cases[1].when, post=post)] + real.cases[2:])


def canary_c04(real):
    # claims the factory is not marked finished by the sweep (so a new channel could still slip in)
    return Contract(real.target, real.params, requires=real.requires, modifies=real.modifies,
                    cases=[Case("ok", post=lambda a, h, h2, r: [z3.Not(h2("ChannelFactory", a.self, "finished"))]), real.cases[1]])


def canary_c07(real):
    # claims a raising callback leaves the callback table as it was
    return Contract(real.target, real.params, requires=real.requires, modifies=real.modifies,
                    cases=[Case("ok", post=lambda a, h, h2, r: [h2.sv("ChannelFactory", a.self, "_callbacks").v[0] == h.sv("ChannelFactory", a.self, "_callbacks").v[0]])] + real.cases[1:])


def canary_c10(real):
    # claims receive() stays possible after setcallback
    return Contract(real.target, real.params, requires=real.requires, modifies=real.modifies, defaults=real.defaults,
                    cases=[Case("ok", when=real.cases[0].when, post=lambda a, h, h2, r: [h2("Channel", a.self, "_items") != 0])] + real.cases[1:])


def canary_c18(real):
    # claims fresh ids step by 1
    return Contract(real.target, real.params, requires=real.requires, modifies=real.modifies, defaults=real.defaults, allocates=True,
                    cases=[Case("ok", restype=real.cases[0].restype, when=real.cases[0].when,
                                post=lambda a, h, h2, r: [h2("ChannelFactory", a.self, "count") == z3.If(a.sv("id").v[0], h("ChannelFactory", a.self, "count") + 1, h("ChannelFactory", a.self, "count"))]),
                           real.cases[1]])


def _wk(w):
    from contracts import pool as _cp, worker as _cw

    _cp.declare(w)
    _cw.declare(w)


WORLD_DECLS = {"io": lambda w: __import__("contracts.io", fromlist=["declare"]).declare(w),
               "mc": lambda w: __import__("contracts.multichannel", fromlist=["declare"]).declare(w),
               "wk": _wk,
               "ser": lambda w: __import__("contracts.serializer", fromlist=["declare"]).declare(w),
               "mr": lambda w: __import__("contracts.channel", fromlist=["declare_dispatch"]).declare_dispatch(w)}
EXECTASK = f"wk::{GB}:WorkerGateway.executetask"
DISPATCH = f"mr::{GB}:Message.received"     # the protocol's decision table: which handler, for which channel, with which arguments (history variable)

SPECS = {
    "C02": dict(
        title="each CHANNEL_DATA frame is decoded once and goes to exactly the callback or queue registered for its id, behind everything delivered earlier; other channels are untouched (frame); send emits exactly one frame or nothing",
        targets=[C + "send", C + "receive", C + "__init__", C + "setcallback", F + "new", F + "_local_receive", MRC, GBR,
                 # "send emits exactly one frame": the frame is contiguous on the connection only if every writer holds the send lock (contracts of C08)
                 f"io::{GB}:BaseGateway._send", f"io::{GB}:Message.to_io",
                 # "each frame is decoded once": the read side returns exactly the frame's bytes (an over-read swallows the next frame)
                 f"io::{GB}:Message.from_io", f"io::{GB}:Popen2IO.read", "io::execnet.gateway_socket:SocketIO.read", f"io::{GB}:Popen2IO.write", "io::execnet.gateway_socket:SocketIO.write",
                 DISPATCH,
                 # "without leakage into any other channel": an item's payload is a function of the item alone - dumps_internal touches no state that outlives the call
                 # (a serializer shared between calls is shared between threads and between channels, and keeps the fragments of a rejected item)
                 f"ser::{GB}:dumps_internal", f"ser::{GB}:_Serializer.save"], scenarios=["c02_order", "c02_dropped_callback", "c10_callback", "c02_big_concurrent"],
        extra_worlds="io,mr,ser",
        heavy={F + "_local_receive": 6, GBR: 8, MRC: 4, C + "setcallback": 4, DISPATCH: 6},
        extra=["items sent before the peer holds the channel object are dropped by _local_receive (`pass  # drop data`): the contract states it (unknown id: nothing changes)"],
        canary=(F + "_local_receive", "item-queued-at-the-head", canary_c02)),
    "C03": dict(
        title="close: one close frame after the data (none if the peer closed first), ENDMARKER behind pending items, both tables forget the id; receive re-queues ENDMARKER and raises EOFError again and again; closing side state; second close is a no-op",
        targets=[C + "close", C + "receive", C + "waitclose", C + "isclosed", C + "send", C + "_getremoteerror", F + "_local_close", F + "_no_longer_opened", C + "__del__", C + "__init__",
                 EXECTASK,     # the automatic close at the end of a remote_exec body: exactly one close call on every exit
                 DISPATCH],    # a close frame (with or without error) is a full close, only LAST_MESSAGE is a half close
        scenarios=["c03_close"], extra_worlds="wk,mr",
        heavy={C + "close": 4, F + "_local_close": 4, EXECTASK: 8, DISPATCH: 6},
        extra=["Channel.__del__: what it tells the peer is under contract; WHEN it runs (reference counting / GC) is the interpreter's business"],
        canary=(C + "receive", "endmarker-consumed-not-requeued", canary_c03)),
    "C04": dict(
        title="a stream ending inside or between frames raises EOFError out of from_io (C08); every exit of the receiver loop reaches the epilogue, which sweeps every registered channel (ENDMARKER, receiveclosed) and callback, sets finished and closes the IO; new() then raises OSError",
        targets=[GBR, F + "_finished_receiving", F + "new", F + "_local_close", F + "_no_longer_opened", C + "send", C + "receive", C + "waitclose",
                 # the crash-point quantifier lives in the read loops and from_io: exactly n bytes or EOFError, for every cut offset (contracts of C08)
                 f"io::{GB}:Popen2IO.read", f"io::execnet.gateway_socket:SocketIO.read", f"io::{GB}:Message.from_io",
                 # the epilogue's two half closes really close the direction they name (after a loss this side's sends must fail, not vanish into a half open socket)
                 f"io::{GB}:Popen2IO.close_write", f"io::{GB}:Popen2IO.close_read", "io::execnet.gateway_socket:SocketIO.close_write", "io::execnet.gateway_socket:SocketIO.close_read"], scenarios=["c04_kill", "c04_kill_socket"],
        extra_worlds="io", cut_battery=True,
        heavy={GBR: 8, F + "_finished_receiving": 4, F + "_local_close": 3},
        extra=["kernel behaviour on process death (EOF delivery, EPIPE) is the OS contract; real SIGKILLs only in the native scenario",
               "Gateway.hasreceiver / remote_exec / newchannel after loss go through ChannelFactory.new (OSError when finished) and C09 (receiver reply removed)"],
        canary=(F + "_finished_receiving", "factory-not-marked-finished", canary_c04)),
    "C07": dict(
        title="a raising callback: the item was passed once, one CHANNEL_CLOSE_ERROR frame goes to the peer, a RemoteError (never another type) is recorded on the live channel, the id is forgotten, and no Exception escapes the handler (the receiver loop goes on); errors are handed out FIFO, each once",
        targets=[F + "_local_receive", F + "_local_close", F + "_no_longer_opened", C + "_getremoteerror", C + "receive", C + "waitclose", C + "close", C + "__init__", MRC, GBR,
                 EXECTASK,     # a raising remote body: the channel is closed with the formatted error text (any exception but EOFError/KeyboardInterrupt)
                 DISPATCH],    # the error text of a CHANNEL_CLOSE_ERROR frame is decoded with the class defaults (never the gateway's pair) and handed to _local_close
        scenarios=["c07_errors"], extra_worlds="wk,mr",
        heavy={F + "_local_receive": 6, GBR: 8, MRC: 4, C + "close": 3, EXECTASK: 8, DISPATCH: 6},
        extra=["callbacks raising SystemExit/KeyboardInterrupt/other non-Exception BaseExceptions propagate out of the receiver by the code's evident intent (`except Exception`): the callback-interrupt case",
               "executetask's exception arm (remote body raises): under contract in world wk; the text itself (_geterrortext: type, message, traceback) is the traceback module's"],
        canary=(F + "_local_receive", "raising-callback-leaves-the-id-registered", canary_c07)),
    "C10": dict(
        title="setcallback drains the queue in order under the receiver lock (inductive invariant: delivered prefix + remaining queue == old queue), registers only an open channel, re-queues ENDMARKER; _local_receive passes each later item once; the endmarker goes out exactly when a record is popped",
        targets=[C + "setcallback", F + "_local_receive", F + "_no_longer_opened", F + "_local_close", F + "_finished_receiving", C + "receive",
                 "mc::execnet.multi:MultiChannel.make_receive_queue", DISPATCH], scenarios=["c10_callback", "c10_dropped_endmarker", "c10_dropped_endmarker_on_loss"], extra_worlds="mc,mr",
        heavy={C + "setcallback": 6, F + "_local_receive": 6, F + "_finished_receiving": 4, DISPATCH: 6},
        extra=["MultiChannel.make_receive_queue: every member channel gets a callback with exactly the endmarker asked for (world mc); that the shared queue then carries the per-channel guarantee "
               "is the composition with setcallback's contract, not a separate proof", "setcallback racing with a receive() that sits between get and re-put of ENDMARKER"],
        canary=(C + "setcallback", "receive-still-possible-after-setcallback", canary_c10)),
    "C18": dict(
        title="new(): fresh ids step by 2 from the start count (parity invariant), an existing registration is never replaced; Channel.__init__; close/_local_close/_no_longer_opened/_finished_receiving remove the id from both tables",
        targets=[F + "new", C + "__init__", C + "close", F + "_no_longer_opened", F + "_local_close", F + "_finished_receiving", C + "__del__",
                 F + "_local_receive"],   # a raising callback of a collected channel: the id leaves the callback table on that path too
        scenarios=["c18_ids"],
        heavy={C + "close": 3, F + "_local_close": 3, F + "_finished_receiving": 4, F + "_local_receive": 6},
        extra=["WeakValueDictionary / reference counting; growth over thousands of cycles only in the native scenario (200 cycles)", "save_Channel / load_channel are under contract in C01/C13"],
        canary=(F + "new", "fresh-ids-step-by-one", canary_c18)),
}


def make(pid):
    sp = SPECS[pid]

    class P(ChanProp):
        id = pid
        title = sp["title"]
        design_ref = f"DESIGN.md section 4, {pid}"
        targets = sp["targets"]
        heavy = sp["heavy"]
        scenarios = sp["scenarios"]
        assumptions = COMMON_ASSUMPTIONS
        not_decided = NOT_DECIDED_COMMON + sp["extra"]
        extra_worlds = {n: WORLD_DECLS[n] for n in (sp.get("extra_worlds") or "").split(",") if n}
        if not extra_worlds:
            del extra_worlds

        def lemmas(self, w):
            if "io" in (sp.get("extra_worlds") or "").split(","):
                from contracts import io as _cio

                return [l for l in _cio.lemmas(w) if "prefix" in l[0]]
            return []

        def bounded(self, tier):
            out = ChanProp.bounded(self, tier)
            if sp.get("cut_battery"):
                from .C08 import BATTERY

                res = run_oracle("c08_frames.py", {"cases": [dict(c, transport=t) for c in BATTERY for t in ("popen", "socket")]})
                out.append({"name": "native-cut-stream-battery", "bound": "frames cut at 0/5/9/11 bytes and complete frames under several chunkings, pipe and socket read loops",
                            "evaluations": res.get("n", 0), "failures": 1 if res.get("failed") else 0, "detail": res.get("results") if res.get("failed") else None})
            return out

        def canaries(self, w):
            tgt, name, mk = sp["canary"]
            real = w.contracts[tgt]
            c = mk(real)
            for attr in ("ghost_init", "held_on_entry", "stable_at_acquire", "linearize_at_lock", "probes"):
                if getattr(real, attr, None) is not None:
                    setattr(c, attr, getattr(real, attr))
            return [(name, c)]

    P.__name__ = "PROP"
    return P
