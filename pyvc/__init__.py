import sys

# the engine itself manipulates integers beyond CPython's default int<->str conversion limit (finding C01: 10**4300)
if hasattr(sys, "set_int_max_str_digits"):
    sys.set_int_max_str_digits(20000)

try:
    import z3 as _z3

    _z3.set_param("warning", False)   # tactics that rewrite seq.nth into if-then-else inside patterns only drop the pattern; nothing to report
except Exception:  # pragma: no cover
    pass
