import sys

# the engine itself manipulates integers beyond CPython's default int<->str conversion limit (finding C01: 10**4300)
if hasattr(sys, "set_int_max_str_digits"):
    sys.set_int_max_str_digits(20000)
