"""Differential test of the assumed contracts of builtins against this CPython (bounded, labelled).

Run at the start of every check: a wrong axiom fails the run (exit 3) before any verdict is believed.
Each entry mirrors one axiom used by pyvc/pybuiltins.py or by a sidecar contract.
"""
from __future__ import annotations

import io
import random
import struct


def _ints32(rng):
    edge = [0, 1, -1, 2**31 - 1, -(2**31), 255, 256, -129, 127, -128, 65535]
    return edge + [rng.randrange(-(2**31), 2**31) for _ in range(40)]


def run(seed=0):
    rng = random.Random(seed)
    res = []

    def ok(name, cond):
        res.append((name, bool(cond)))

    i32 = _ints32(rng)
    ok("be32: len 4 and unpack inverse on range", all(len(struct.pack("!i", i)) == 4 and struct.unpack("!i", struct.pack("!i", i))[0] == i for i in i32))
    ok("be32: pack inverse of unpack on 4 bytes", all(struct.pack("!i", struct.unpack("!i", b)[0]) == b for b in [bytes(rng.randrange(256) for _ in range(4)) for _ in range(40)]))

    def raises(f, exc):
        try:
            f()
        except exc:
            return True
        except Exception:
            return False
        return False

    ok("struct.pack('!i') raises struct.error outside int32", all(raises(lambda i=i: struct.pack("!i", i), struct.error) for i in (2**31, -(2**31) - 1, 10**30)))
    ok("struct.unpack raises struct.error on wrong length", all(raises(lambda n=n: struct.unpack("!i", b"x" * n), struct.error) for n in (0, 3, 5)) and raises(lambda: struct.unpack("!bii", b"x" * 8), struct.error)
       and raises(lambda: struct.unpack("!d", b"x" * 7), struct.error) and raises(lambda: struct.unpack("!dd", b"x" * 15), struct.error))
    ok("'!bii' is s8 ++ be32 ++ be32 (9 bytes, no padding)", all(struct.pack("!bii", a, b, c) == struct.pack("!b", a) + struct.pack("!i", b) + struct.pack("!i", c) and struct.calcsize("!bii") == 9
                                                               for a, b, c in [(rng.randrange(-128, 128), rng.choice(i32), rng.choice(i32)) for _ in range(40)]))
    ok("unsigned fields are the signed codec shifted by 2**width ('!B', '!I', '!L'; no padding in a multi-field '!' format)",
       all(struct.pack("!I", u) == struct.pack("!i", u - 2**32 if u >= 2**31 else u) and struct.unpack("!I", struct.pack("!I", u))[0] == u for u in (0, 1, 2**31 - 1, 2**31, 2**32 - 1))
       and all(struct.pack("!B", u) == struct.pack("!b", u - 256 if u >= 128 else u) for u in (0, 127, 128, 255)) and struct.pack("!L", 5) == struct.pack("!I", 5) and struct.calcsize("!bIi") == 9
       and raises(lambda: struct.pack("!I", -1), struct.error) and raises(lambda: struct.pack("!I", 2**32), struct.error) and raises(lambda: struct.pack("!B", 256), struct.error))
    ok("'!b' range is -128..127", raises(lambda: struct.pack("!b", 128), struct.error) and raises(lambda: struct.pack("!b", -129), struct.error) and len(struct.pack("!b", -128)) == 1)
    pats = [0, 1 << 63, 0x7FF0000000000000, 0xFFF0000000000000, 0x7FF8000000000001, 0x7FF0000000000001, 0x3FF0000000000000] + [rng.randrange(1 << 64) for _ in range(40)]
    # quiet/signalling NaN payload preservation through unpack->pack (what the serializer relies on)
    ok("be64: pack(unpack(b)) == b for all 64-bit patterns incl. NaN payloads", all(struct.pack("!d", struct.unpack("!d", p.to_bytes(8, "big"))[0]) == p.to_bytes(8, "big") for p in pats))
    ok("'!dd' is be64 ++ be64", all(struct.pack("!dd", a, b) == struct.pack("!d", a) + struct.pack("!d", b) for a, b in [(1.5, -0.0), (float("inf"), float("nan"))]))
    # mixed float/complex arithmetic as modelled in fparith: the float is widened to complex(x, 0.0); product and sum componentwise, each operation rounded
    fl = [0.0, -0.0, 1.5, -2.25, 1e308, -1e308, 5e-324, float("inf"), float("-inf")] + [struct.unpack("!d", struct.pack("!Q", rng.randrange(1 << 64)))[0] for _ in range(30)]
    fl = [x for x in fl if x == x]
    bits = lambda x: struct.pack("!d", x)
    same = lambda c, re, im: (c.real != c.real or bits(c.real) == bits(re)) and (c.imag != c.imag or bits(c.imag) == bits(im))

    def mixed_ok(x, y):
        pre, pim = y * 0.0 - 0.0 * 1.0, y * 1.0 + 0.0 * 0.0          # complex(y, 0.0) * 1j
        return same(y * 1j, pre, pim) and same(x + y * 1j, x + pre, 0.0 + pim) and same(x - y * 1j, x - pre, 0.0 - pim)

    ok("float/complex mixed arithmetic: widening to complex(x, 0.0), componentwise rounded operations (non-NaN results bit-exact)", all(mixed_ok(x, y) for x in fl[:12] for y in fl))
    big = [2**31, -(2**31) - 1, 10**30, -(10**30), 2**64, 10**100]
    ok("dec: int(str(i).encode('ascii')) == i", all(int(str(i).encode("ascii")) == i for i in big + i32))
    ok("dec: str(i) of i > 2**31-1 has >= 10 chars; single digit iff 0..9", all(len(str(i)) >= 10 for i in big if i > 0) and all((len(str(i)) == 1) == (0 <= i <= 9) for i in i32))
    ok("int(bytes) raises ValueError on non-literals", all(raises(lambda b=b: int(b), ValueError) for b in (b"", b"xx", b"1 2", b"--1", b"0x10")))
    ok("int(bytes) accepts surrounding whitespace, sign and underscores (is_dec is wider than dec's image)", int(b" 12 ") == 12 and int(b"+1_0") == 10)
    strs = ["", "a", "\x00", "é", "€", "\U0001F600", "a\nb"] + ["".join(chr(rng.choice([rng.randrange(0, 0xD800), rng.randrange(0xE000, 0x110000)])) for _ in range(5)) for _ in range(30)]
    ok("utf8: decode(encode(s)) == s and len(encode(s)) >= len(s)", all(s.encode("utf-8").decode("utf-8") == s and len(s.encode("utf-8")) >= len(s) for s in strs))
    ok("utf-8-sig: one leading EF BB BF is dropped, then utf-8", all(b.decode("utf-8-sig") == (b[3:] if b.startswith(b"\xef\xbb\xbf") else b).decode("utf-8")
                                                                      for b in (b"", b"abc", b"\xef\xbb\xbf", b"\xef\xbb\xbfabc", b"\xef\xbb\xbf\xef\xbb\xbfx", b"a\xef\xbb\xbf")))
    import shlex
    ok("shlex.quote: identity on safe words, one single-quoted word (longer by >= 2) otherwise; a space or the empty string is never safe",
       all((shlex.quote(x) == x) or (shlex.quote(x).startswith("'") and len(shlex.quote(x)) >= len(x) + 2) for x in ("python", "/usr/bin/python3.12", "py -S -E", "", "a'b", "x y", "$HOME"))
       and all(shlex.quote(x) != x for x in ("py -S", "", " ")))
    ok("utf8: lone surrogates raise UnicodeEncodeError", all(raises(lambda s=s: s.encode("utf-8"), UnicodeEncodeError) for s in ("\ud800", "a\udfffb")))
    ok("utf8: invalid bytes raise UnicodeDecodeError", all(raises(lambda b=b: b.decode("utf-8"), UnicodeDecodeError) for b in (b"\xff", b"\xc3", b"\xed\xa0\x80")))
    ok("latin1: decode is total and length preserving", all(len(bytes([b]).decode("latin-1")) == 1 for b in range(256)))
    ok("BytesIO.read(n): next n bytes or fewer at end; read(n<0) returns the rest", io.BytesIO(b"abc").read(2) == b"ab" and io.BytesIO(b"abc").read(5) == b"abc" and io.BytesIO(b"abc").read(-1) == b"abc" and io.BytesIO(b"").read(1) == b"")
    ok("str.rfind: last index or -1", "a=b=c".rfind("=") == 3 and "abc".rfind("=") == -1 and "".rfind("=") == -1 and "==".rfind("=") == 1)
    ok("str.find: first index or -1", "a=b=c".find("=") == 1 and "abc".find("=") == -1 and "".find("=") == -1)
    ok("slicing clamps", "abc"[:10] == "abc" and "abc"[5:] == "" and "abc"[-10:2] == "ab" and "abc"[2:1] == "")
    ok("True == 1 and hash(True) == hash(1) (bool/int key coincidence)", True == 1 and hash(True) == hash(1) and {1: "a", True: "b"} == {1: "b"})
    ok("str * n: length n*len for n>0 else empty", "\n" * 3 == "\n\n\n" and "ab" * 0 == "" and "ab" * -1 == "")

    # ---- lemmas of sequences / paths assumed by the second batch of contracts (C05, C16, C17) ---------------------------------------------------
    def rm_lemma():
        for _ in range(300):
            L = [rng.randrange(5) for _ in range(rng.randrange(0, 7))]
            if not L:
                continue
            e = rng.choice(L)
            L2 = list(L)
            L2.remove(e)
            i = L.index(e)
            if L2 != L[:i] + L[i + 1:] or any((q in L2) != (q in L) for q in range(6) if q != e):
                return False
        return True

    ok("list.remove(e): drops the first occurrence; membership of every other value unchanged; ValueError when absent", rm_lemma() and raises(lambda: [1, 2].remove(3), ValueError))
    ok("the element at a valid index is a member", all(L[i] in L for L in ([1], [3, 3, 4], list("abc")) for i in range(len(L))))
    ok("x[:] = [] empties the same list object", (lambda L: (L.__setitem__(slice(None), []), L == [])[1])([1, 2, 3]))
    import os.path
    import posixpath

    names = ["a", "b c", "ab", "a.b", "é", "x-1"]

    def seg(P, x):
        assert x.startswith(P + "/")
        return x[len(P) + 1:].split("/", 1)[0]

    def under(p, q):
        return q == p or q.startswith(p + "/")

    ok("seg: first segment of P/a and of anything below P/a is a (entry names without '/')",
       all(seg(P, P + "/" + a) == a and seg(P, P + "/" + a + "/" + t) == a for P in ("/d", "/d/e", "") for a in names for t in ("x", "y/z", "")))
    ok("two different entry names have no common descendant path", all(not (under(P + "/" + a, x) and under(P + "/" + b, x)) for P in ("/d", "/d/a") for a in names for b in names if a != b
                                                                       for x in [P + "/" + a, P + "/" + a + "/k", P + "/" + b + "/" + a, P + "/" + a + b]))
    ok("posixpath.join(a, b) == a + '/' + b for a without trailing '/' and relative b", all(posixpath.join(a, b) == a + "/" + b for a in ("/x", "/x/y", "rel") for b in names + ["s/t"]))
    rp = posixpath.relpath
    ok("relpath: inside start -> the remainder; start itself -> '.'; outside -> '..' or '../...'",
       all(rp(st + "/" + r, st) == r for st in ("/s", "/s/t") for r in ("a", "a/b", "é/x y")) and rp("/s", "/s") == "." and all(rp(p, "/s/t") == ".." or rp(p, "/s/t").startswith("../") for p in ("/s", "/q", "/s/u/v", "/")))
    here = os.getcwd()
    ok("relpath: a relative path is taken from the working directory", all(rp(r, "/s") == rp(posixpath.join(here, r), "/s") for r in ("a", "a/b", "é")))
    ok("mode | 0o700 == mode + (7 - ((mode % 512) // 64)) * 64; mode // 4096 is the file type; mode % 4096 the permission bits",
       all((m | 0o700) == m + (7 - ((m % 512) // 64)) * 64 for m in list(range(0, 0o1000, 7)) + [0o100644, 0o40755, 0o120777, 0o100000]) and 0o100644 // 4096 == 8 and 0o40755 // 4096 == 4 and 0o120777 // 4096 == 10)
    ok("inspect.signature(f).parameters lists the same names, in order, as getfullargspec(f).args for positional parameters",
       (lambda f: list(__import__("inspect").signature(f).parameters)[:2] == __import__("inspect").getfullargspec(f).args)(lambda channel, x: None))
    return res


if __name__ == "__main__":
    for name, good in run():
        print("ok  " if good else "FAIL", name)
