"""Contract objects and the registry ("world") the executor works against.

A contract is attached to one real function by "module:qualname".  It has
  params    ordered name -> Ty (symbolic inputs when the body is verified)
  requires  (a, h) -> [(label, z3 Bool)]      checked at call sites, assumed in the body
  modifies  (a, h) -> [(cls, ref|None, field)] cells that may change (None: any object)
  cases     list of Case: guard over the pre-state, kind return/raise, post over (pre, post, result)

`a` gives the arguments (raw z3 term for single-sort values, SV otherwise);
`h` / `h2` are HeapViews of the pre/post heap: h(cls, ref, field).
Contracts of library primitives (queue.Queue, threading.Event, file objects,
struct, os, ...) use the very same objects, flagged trusted=True; they are the
assumptions listed in every evidence file.
"""
from __future__ import annotations

import z3

from .core import SV, Ty, Heap, REF, Unsupported, unflat


class Args:
    def __init__(self, mapping: dict[str, SV]):
        object.__setattr__(self, "_m", dict(mapping))

    def __getattr__(self, name):
        try:
            v = self._m[name]
        except KeyError:
            raise AttributeError(name) from None
        try:
            return v.t
        except Unsupported:
            return v

    def sv(self, name) -> SV:
        return self._m[name]

    def names(self):
        return list(self._m)


class HeapView:
    def __init__(self, heap: Heap, held=()):
        self.heap = heap
        self.held = tuple(held)  # z3 refs of the locks held by the executing thread at this point

    def holds(self, lock_ref):
        """z3 Bool: the executing thread holds `lock_ref` (a non-null lock)."""
        if not self.held:
            return z3.BoolVal(False)
        return z3.And(lock_ref != 0, z3.Or(*[l == lock_ref for l in self.held]))

    def __call__(self, cls: str, ref, field: str):
        sv = self.sv(cls, ref, field)
        try:
            return sv.t
        except Unsupported:
            return sv

    def sv(self, cls: str, ref, field: str) -> SV:
        if isinstance(ref, SV):
            ref = ref.t
        return self.heap.get(SV(REF(cls), ref), field)

    def arr(self, cls, field):
        """The whole field as z3 arrays (for frame statements over all objects)."""
        fd = self.heap.fd(cls, field)
        return self.heap._arr(fd)


class Case:
    def __init__(self, name, kind="return", exc=None, when=None, post=None, restype=None, result=None, post_assume=None, excluding=()):
        # post_assume: the same fact generalised over the free index constants of `post` (sound: the body is
        # verified for arbitrary values of those constants); used at call sites where a quantified hypothesis helps
        self.post_assume = post_assume
        self.excluding = tuple(excluding)  # raise cases: exception classes (and their subclasses) this case does NOT cover
        self.name, self.kind, self.exc = name, kind, exc
        self.when = when or (lambda a, h: z3.BoolVal(True))
        self.post = post or (lambda a, h, h2, res: [])
        self.restype = restype  # Ty of the result (return cases); None -> NONE
        self.result = result  # optional (a,h)->SV giving the result outright


class Contract:
    def __init__(self, target, params, requires=None, modifies=None, cases=None, props=(), trusted=False,
                 defaults=None, note="", selfcls=None, allocates=False, ghost_update=None, time=None, probes=None, linearize_at_lock=False):
        self.linearize_at_lock = linearize_at_lock  # pre-state of the post = state at the first monitor-lock acquisition
        self.reads_under = None  # {(class, field): lockfield}: the function may read that field of an object only while holding the object's lock (check-then-act atomicity)
        self.at_call = None  # {callee target: (a, h_entry, callee_args, h_now) -> [(label, z3)]}: obligations at the moment the function calls that callee (publication order)
        self.closure = None  # nested functions: {free variable name: Ty} of the enclosing scope (symbolic, like parameters)
        self.ghost_init = None  # (a, h) -> {key: value}: ghost context of the executing code (e.g. which gateway records callback calls)
        self.stable_at_acquire = None  # (a, h_after) -> [z3]: facts about shared state only this thread can invalidate (Owicki-Gries stability, listed as assumptions)
        self.probes = probes  # (a, h) -> {name: z3 term}: values wanted in counter-models
        self.target = target
        self.params: dict[str, Ty] = dict(params)
        self.requires = requires or (lambda a, h: [])
        self.modifies = modifies or (lambda a, h: [])
        self.cases: list[Case] = list(cases or [Case("ok")])
        self.props = tuple(props)
        self.trusted = trusted
        self.defaults = dict(defaults or {})
        self.note = note
        self.allocates = allocates
        self.time = time

    @property
    def module(self):
        return self.target.split(":")[0]

    @property
    def qualname(self):
        return self.target.split(":")[1]


class LoopSpec:
    def __init__(self, target, ordinal, invariant, variant=None, havoc_fields=(), props=(), havoc_cells=None):
        self.target, self.ordinal = target, ordinal
        self.havoc_cells = havoc_cells  # (L) -> [(cls, ref, field)]: only these cells change in the loop
        self.invariant_assume = None  # (L) -> [z3]: generalisations (over free index constants) of proved invariants; only assumed
        self.invariant = invariant  # (L) -> [(label, z3 Bool)]
        self.variant = variant  # (L) -> z3 Int
        self.havoc_fields = tuple(havoc_fields)
        self.props = tuple(props)


class Monitor:
    """Monitor invariant of one lock: holds whenever the lock is free.

    On acquisition the protected fields of the owner are havocked (any other thread may have run) and the
    invariant is assumed; at every release it is an obligation (mon-pres).  Writes to a protected field
    require the lock to be held (lock obligations)."""

    def __init__(self, cls, lockfield, protected, invariant, props=(), invariant_assume=None):
        self.cls, self.lockfield, self.protected = cls, lockfield, tuple(protected)
        self.invariant = invariant  # (h, owner_ref) -> [(label, z3 Bool)]   proved at every release
        # the same facts generalised over their free index constants; only ever assumed (at acquisition)
        self.invariant_assume = invariant_assume or invariant
        self.props = tuple(props)


class World:
    """Everything the executor resolves names against."""

    def __init__(self, schema):
        self.schema = schema
        self.contracts: dict[str, Contract] = {}
        self.loops: dict[tuple[str, int], LoopSpec] = {}
        self.class_home: dict[str, str] = {}  # python class name -> module name (repo classes)
        self.externals: dict[str, object] = {}  # "struct.pack" -> handler
        self.attr_hooks: dict[tuple[str, str], object] = {}  # (cls, attr) -> handler(ex, st, recv)
        self.call_hooks: dict[tuple[str, str], object] = {}  # (cls, meth) -> handler
        self.axiom_providers: list = []  # callables(formula terms) -> extra axioms
        self.inline_ok: set[str] = set()
        self.variants: dict[str, list[Contract]] = {}
        self.monitors: dict[tuple[str, str], Monitor] = {}

    def add_monitor(self, m: "Monitor"):
        self.monitors[(m.cls, m.lockfield)] = m
        return m

    def monitor_guarding(self, schema_cls, field):
        """(monitor) protecting `field` of class schema_cls, if any."""
        for (cls, lf), m in self.monitors.items():
            if field in m.protected and cls in self.schema.mro(schema_cls):
                return m
        return None

        self.assumptions: list[str] = []

    def add(self, c: Contract, variant: str | None = None):
        """variant: one of several contracts of the same function for different argument types
        (key: int | str | Gateway); each is verified on its own, call sites take the first that fits."""
        if variant is not None:
            c.variant_name = variant
            key = f"{c.target}#{variant}"
            self.contracts[key] = c
            self.variants.setdefault(c.target, []).append(c)
            if c.target not in self.contracts:
                self.contracts[c.target] = c
            return c
        if c.target in self.contracts:
            raise ValueError(f"duplicate contract {c.target}")
        self.contracts[c.target] = c
        return c

    def add_loop(self, ls: LoopSpec):
        self.loops[(ls.target, ls.ordinal)] = ls
        return ls

    def contract_for_method(self, cls: str, meth: str):
        for c in self.schema.mro(cls):
            for home in (self.class_home.get(c, "model"), "model"):
                t = f"{home}:{c}.{meth}"
                if t in self.contracts:
                    return self.contracts[t]
        return None
