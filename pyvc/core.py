"""pyvc core: types, symbolic values, heap, state.

Every symbolic value carries a static type descriptor (Ty).  A Ty *flattens* to
a list of z3 sorts; a value flattens to a list of z3 terms of those sorts.
Heap fields, function results and havocked locals are all stored flattened, so
Optional/Tuple/Map values need no special cases anywhere else.
"""
from __future__ import annotations

import itertools
import z3

_counter = itertools.count()


def fresh_name(prefix: str) -> str:
    return f"{prefix}!{next(_counter)}"


U = z3.DeclareSort("U")  # opaque python objects (user callables, markers, ...)


class Unsupported(Exception):
    """Construct outside the supported subset -> UNDECIDED, never a pass."""


# --------------------------------------------------------------------------
# types
# --------------------------------------------------------------------------
class Ty:
    kind = "?"

    def sorts(self) -> list:
        raise NotImplementedError

    def __eq__(self, other):
        return type(self) is type(other) and self.__dict__ == other.__dict__

    def __hash__(self):
        return hash((type(self).__name__, repr(self)))

    def __repr__(self):
        return self.kind


class _Prim(Ty):
    def __init__(self, kind, sort):
        self.kind = kind
        self._sort = sort

    def sorts(self):
        return [self._sort]

    def __eq__(self, other):
        return isinstance(other, _Prim) and self.kind == other.kind

    def __hash__(self):
        return hash(self.kind)


INT = _Prim("int", z3.IntSort())
BOOL = _Prim("bool", z3.BoolSort())
STR = _Prim("str", z3.StringSort())
BYTES = _Prim("bytes", z3.StringSort())
FLOAT = _Prim("float", z3.IntSort())  # IEEE bit pattern; only equality is used
ANY = _Prim("any", U)


class _NoneTy(Ty):
    kind = "none"

    def sorts(self):
        return []


NONE = _NoneTy()


class REF(Ty):
    """Reference to a heap record of (python) class `cls`; 0 encodes None."""

    kind = "ref"

    def __init__(self, cls: str):
        self.cls = cls

    def sorts(self):
        return [z3.IntSort()]

    def __repr__(self):
        return f"ref({self.cls})"


class OPT(Ty):
    kind = "opt"

    def __init__(self, inner: Ty):
        assert not isinstance(inner, (OPT, REF, _NoneTy)), inner
        self.inner = inner

    def sorts(self):
        return [z3.BoolSort()] + self.inner.sorts()

    def __repr__(self):
        return f"opt({self.inner!r})"


class TUP(Ty):
    kind = "tuple"

    def __init__(self, *items: Ty):
        self.items = tuple(items)

    def sorts(self):
        return [s for t in self.items for s in t.sorts()]

    def __repr__(self):
        return "tup(" + ",".join(map(repr, self.items)) + ")"


class CPX(TUP):
    """a Python complex: (real, imag) bit patterns; a type of its own so that arithmetic on it is not tuple concatenation"""

    def __repr__(self):
        return "complex"


class SEQ(Ty):
    """Python list/tuple of homogeneous single-sort elements, value semantics."""

    kind = "seq"

    def __init__(self, elem: Ty):
        assert len(elem.sorts()) == 1, elem
        self.elem = elem

    def sorts(self):
        return [z3.SeqSort(self.elem.sorts()[0])]

    def __repr__(self):
        return f"seq({self.elem!r})"


class MAP(Ty):
    """dict with single-sort keys; value flattened into parallel arrays."""

    kind = "map"

    def __init__(self, key: Ty, val: Ty):
        assert len(key.sorts()) == 1
        self.key, self.val = key, val

    def sorts(self):
        k = self.key.sorts()[0]
        return [z3.ArraySort(k, z3.BoolSort())] + [z3.ArraySort(k, s) for s in self.val.sorts()]

    def __repr__(self):
        return f"map({self.key!r},{self.val!r})"


class SETT(Ty):
    kind = "set"

    def __init__(self, elem: Ty):
        assert len(elem.sorts()) == 1
        self.elem = elem

    def sorts(self):
        return [z3.ArraySort(self.elem.sorts()[0], z3.BoolSort())]

    def __repr__(self):
        return f"set({self.elem!r})"


class DT(Ty):
    """A value of a z3 datatype sort (e.g. the dynamic value grammar Val)."""

    kind = "dt"

    def __init__(self, name, sort):
        self.name, self._sort = name, sort

    def sorts(self):
        return [self._sort]

    def __eq__(self, other):
        return isinstance(other, DT) and self.name == other.name

    def __hash__(self):
        return hash(self.name)

    def __repr__(self):
        return self.name


class FUNC(Ty):
    """Python-side callable descriptor; not storable in the heap."""

    kind = "func"

    def sorts(self):
        raise Unsupported("callable stored where a first-order value is needed")


FUNCT = FUNC()


# --------------------------------------------------------------------------
# values
# --------------------------------------------------------------------------
class SV:
    """A symbolic value: type + payload.

    payload by type kind:
      prim/ref/seq/set/dt : one z3 term
      none                : None
      opt                 : (isnone: z3 Bool, inner: SV)
      tuple               : tuple[SV, ...]
      map                 : (present array, [value arrays...])
      func                : python descriptor object
    """

    __slots__ = ("ty", "v", "loc", "is_tuple")

    def __init__(self, ty: Ty, v, loc=None):
        self.ty, self.v = ty, v
        self.loc = loc  # syntactic origin for write-back of value-semantic containers
        self.is_tuple = False  # a SEQ that stands for a Python tuple of unknown length (an opaque exception's args)

    def __repr__(self):
        return f"SV<{self.ty!r}:{self.v}>"

    # -- flatten / unflatten ------------------------------------------------
    def flat(self) -> list:
        k = self.ty.kind
        if k == "none":
            return []
        if k == "opt":
            return [self.v[0]] + self.v[1].flat()
        if k == "tuple":
            return [t for it in self.v for t in it.flat()]
        if k == "map":
            return [self.v[0]] + list(self.v[1])
        if k == "func":
            raise Unsupported("callable value flattened")
        return [self.v]

    @property
    def t(self):
        """The single z3 term of a single-sort value."""
        f = self.flat()
        if len(f) != 1:
            raise Unsupported(f"value of type {self.ty!r} used as a scalar")
        return f[0]


def unflat(ty: Ty, terms: list) -> SV:
    it = iter(terms)
    r = _unflat(ty, it)
    return r


def _unflat(ty, it) -> SV:
    k = ty.kind
    if k == "none":
        return NONEV
    if k == "opt":
        isnone = next(it)
        return SV(ty, (isnone, _unflat(ty.inner, it)))
    if k == "tuple":
        return SV(ty, tuple(_unflat(t, it) for t in ty.items))
    if k == "map":
        pres = next(it)
        return SV(ty, (pres, [next(it) for _ in ty.val.sorts()]))
    return SV(ty, next(it))


NONEV = SV(NONE, None)


def fresh(ty: Ty, prefix="v") -> SV:
    return unflat(ty, [z3.Const(fresh_name(prefix), s) for s in ty.sorts()])


def mk_int(x) -> SV:
    return SV(INT, z3.IntVal(x) if isinstance(x, int) else x)


def mk_bool(x) -> SV:
    return SV(BOOL, z3.BoolVal(x) if isinstance(x, bool) else x)


def zstr(pystr: str):
    return z3.StringVal(pystr)


def mk_str(x) -> SV:
    return SV(STR, zstr(x) if isinstance(x, str) else x)


def mk_bytes(x) -> SV:
    if isinstance(x, (bytes, bytearray)):
        x = zstr(bytes(x).decode("latin-1"))
    return SV(BYTES, x)


def mk_tuple(items) -> SV:
    items = tuple(items)
    return SV(TUP(*[i.ty for i in items]), items)


def mk_opt_none(inner: Ty) -> SV:
    return SV(OPT(inner), (z3.BoolVal(True), fresh(inner, "dead")))


def mk_opt_some(val: SV) -> SV:
    return SV(OPT(val.ty), (z3.BoolVal(False), val))


def null_ref(cls="object") -> SV:
    return SV(REF(cls), z3.IntVal(0))


def ite_sv(c, a: SV, b: SV) -> SV:
    if a.ty != b.ty and not (a.ty.kind == "ref" and b.ty.kind == "ref"):
        raise Unsupported(f"ite over different types {a.ty!r} / {b.ty!r}")
    fa, fb = a.flat(), b.flat()
    return unflat(a.ty, [z3.If(c, x, y) for x, y in zip(fa, fb)])


def eq_sv(a: SV, b: SV):
    """z3 Bool: structural equality of two values of compatible type."""
    ka, kb = a.ty.kind, b.ty.kind
    if ka == "none" and kb == "none":
        return z3.BoolVal(True)
    if ka == "none":
        a, b, ka, kb = b, a, kb, ka
    if kb == "none":
        if ka == "opt":
            return a.v[0]
        if ka == "ref":
            return a.v == 0
        return z3.BoolVal(False)
    if ka == "opt" and kb != "opt":
        return z3.And(z3.Not(a.v[0]), eq_sv(a.v[1], b))
    if kb == "opt" and ka != "opt":
        return z3.And(z3.Not(b.v[0]), eq_sv(b.v[1], a))
    if ka == "opt" and kb == "opt":
        return z3.Or(z3.And(a.v[0], b.v[0]), z3.And(z3.Not(a.v[0]), z3.Not(b.v[0]), eq_sv(a.v[1], b.v[1])))
    if ka == "tuple" and kb == "tuple":
        if len(a.v) != len(b.v):
            return z3.BoolVal(False)
        return z3.And([eq_sv(x, y) for x, y in zip(a.v, b.v)] or [z3.BoolVal(True)])
    if {ka, kb} == {"int", "bool"}:
        ia = a.v if ka == "int" else z3.If(a.v, 1, 0)
        ib = b.v if kb == "int" else z3.If(b.v, 1, 0)
        return ia == ib
    fa, fb = a.flat(), b.flat()
    if len(fa) != len(fb) or any(x.sort() != y.sort() for x, y in zip(fa, fb)):
        # different python types: never equal (str vs bytes share a sort but not a kind)
        return z3.BoolVal(False)
    if ka != kb and {ka, kb} <= {"str", "bytes"}:
        return z3.BoolVal(False)
    return z3.And([x == y for x, y in zip(fa, fb)] or [z3.BoolVal(True)])


# --------------------------------------------------------------------------
# heap: one (flattened) array per field, indexed by reference
# --------------------------------------------------------------------------
class FieldDecl:
    def __init__(self, cls, name, ty, ghost=False):
        self.cls, self.name, self.ty, self.ghost = cls, name, ty, ghost
        self.key = f"{cls}.{name}"


class Schema:
    """Field declarations and class hierarchy used by heap accesses."""

    def __init__(self):
        self.fields: dict[str, FieldDecl] = {}
        self.bases: dict[str, list[str]] = {}

    def declare(self, cls, name, ty, ghost=False):
        fd = FieldDecl(cls, name, ty, ghost)
        self.fields[fd.key] = fd
        return fd

    def set_bases(self, cls, bases):
        self.bases[cls] = list(bases)

    def mro(self, cls):
        out, todo = [], [cls]
        while todo:
            c = todo.pop(0)
            if c in out:
                continue
            out.append(c)
            todo.extend(self.bases.get(c, []))
        return out

    def issub(self, cls, base):
        return base in self.mro(cls)

    def lookup(self, cls, name):
        for c in self.mro(cls):
            fd = self.fields.get(f"{c}.{name}")
            if fd is not None:
                return fd
        return None


class Heap:
    def __init__(self, schema: Schema, arrays=None, tag="h"):
        self.schema = schema
        self.arrays: dict[str, list] = dict(arrays or {})
        self.tag = tag

    def copy(self):
        return Heap(self.schema, self.arrays, self.tag)

    def _arr(self, fd: FieldDecl):
        a = self.arrays.get(fd.key)
        if a is None:
            a = [z3.Const(f"{self.tag}0.{fd.key}#{i}", z3.ArraySort(z3.IntSort(), s)) for i, s in enumerate(fd.ty.sorts())]
            self.arrays[fd.key] = a
        return a

    def fd(self, cls, name) -> FieldDecl:
        fd = self.schema.lookup(cls, name)
        if fd is None:
            if name.startswith("$") or not getattr(self.schema, "auto_declare", True):
                raise Unsupported(f"field {cls}.{name} has no declaration in the sidecar schema")
            # an attribute the sidecar does not know (e.g. newly introduced by a change): an opaque slot per object
            fd = self.schema.declare(cls, name, ANY)
            fd.auto = True
            self.schema.auto_fields = getattr(self.schema, "auto_fields", []) + [fd.key]
        return fd

    def get(self, ref: SV, name: str) -> SV:
        fd = self.fd(ref.ty.cls, name)
        return unflat(fd.ty, [z3.Select(a, ref.t) for a in self._arr(fd)])

    def set(self, ref: SV, name: str, val: SV):
        fd = self.fd(ref.ty.cls, name)
        val = coerce(val, fd.ty)
        self.arrays[fd.key] = [z3.Store(a, ref.t, t) for a, t in zip(self._arr(fd), val.flat())]

    def havoc_field(self, fdkey: str):
        fd = self.schema.fields[fdkey]
        self.arrays[fd.key] = [z3.Const(fresh_name(f"hv.{fd.key}#{i}"), z3.ArraySort(z3.IntSort(), s)) for i, s in enumerate(fd.ty.sorts())]

    def havoc_at(self, ref: SV, name: str):
        """Only the cell (ref,name) gets an arbitrary value; all other cells keep theirs."""
        fd = self.fd(ref.ty.cls, name)
        nv = fresh(fd.ty, f"hv.{fd.key}")
        self.arrays[fd.key] = [z3.Store(a, ref.t, t) for a, t in zip(self._arr(fd), nv.flat())]
        return nv

    def field_terms(self, fdkey):
        return self._arr(self.schema.fields[fdkey])


bool2u = z3.Function("bool2u", z3.BoolSort(), U)   # a bool / int / None stored in an opaque slot
int2u = z3.Function("int2u", z3.IntSort(), U)
NONE_U = z3.Const("None_as_object", U)
COERCE_HOOKS: list = []  # functions (val, ty) -> SV | None, registered by sidecar modules for union-like slots


def coerce(val: SV, ty: Ty) -> SV:
    """Adapt a value to a declared type (None -> opt/ref, T -> opt(T), bool->int)."""
    if val.ty == ty:
        return val
    for hk in COERCE_HOOKS:
        r = hk(val, ty)
        if r is not None:
            return r
    k = ty.kind
    if k == "opt":
        if val.ty.kind == "none":
            return mk_opt_none(ty.inner)
        if val.ty.kind == "opt":
            return SV(ty, (val.v[0], coerce(val.v[1], ty.inner)))
        return SV(ty, (z3.BoolVal(False), coerce(val, ty.inner)))
    if k == "ref":
        if val.ty.kind == "func" and isinstance(val.v, ExcV) and val.v.ref is not None:
            return SV(ty, val.v.ref.v)  # an exception instance used as an object
        if val.ty.kind == "none":
            return null_ref(ty.cls)
        if val.ty.kind == "ref":
            return SV(ty, val.v)
    if k == "int" and val.ty.kind == "bool":
        return SV(INT, z3.If(val.v, 1, 0))
    if k == "tuple" and val.ty.kind == "tuple" and len(ty.items) == len(val.v):
        return SV(ty, tuple(coerce(x, t) for x, t in zip(val.v, ty.items)))
    if k == "set" and val.ty.kind == "set" and val.ty.sorts() == ty.sorts():
        return SV(ty, val.v)
    if k == "seq" and val.ty.kind == "seq" and val.ty.sorts() == ty.sorts():
        return SV(ty, val.v)
    if k == "seq" and val.ty.kind == "seq" and z3.is_app(val.v) and val.v.decl().kind() == z3.Z3_OP_SEQ_EMPTY:
        return SV(ty, z3.Empty(ty.sorts()[0]))   # the literal [] has whatever element type it is used at
    if k == "any":
        if val.ty.kind == "any":
            return val
        if val.ty.kind == "bool":
            return SV(ANY, bool2u(val.v))
        if val.ty.kind == "int":
            return SV(ANY, int2u(val.v))
        if val.ty.kind == "none":
            return SV(ANY, NONE_U)
        raise Unsupported(f"cannot store {val.ty!r} in an opaque slot")
    if k in ("str", "bytes") and val.ty.kind == k:
        return val
    if k == "float" and val.ty.kind == "float":
        return val
    raise Unsupported(f"cannot coerce {val.ty!r} to {ty!r}")


# --------------------------------------------------------------------------
# exceptions / flows
# --------------------------------------------------------------------------
class ExcV:
    """A raised exception on one path: static class + optional payload."""

    def __init__(self, cls: str, args=(), ref: SV | None = None, origin=""):
        self.cls, self.args, self.ref, self.origin = cls, tuple(args), ref, origin

    def __repr__(self):
        return f"Exc<{self.cls} {self.origin}>"


NEXT, RETURN, RAISE, BREAK, CONTINUE = "next", "return", "raise", "break", "continue"


class State:
    def __init__(self, schema: Schema):
        self.locals: dict[str, SV] = {}
        self.heap = Heap(schema)
        self.pc: list = []
        self.alive = True
        self.ghost: dict[str, object] = {}
        self.held: tuple = ()
        self.notes: list[str] = []
        self.old_heaps: dict[str, Heap] = {}

    def fork(self) -> "State":
        s = State.__new__(State)
        s.locals = dict(self.locals)
        s.heap = self.heap.copy()
        s.pc = list(self.pc)
        s.alive = self.alive
        s.ghost = dict(self.ghost)
        s.held = self.held
        s.notes = list(self.notes)
        s.old_heaps = dict(self.old_heaps)
        return s

    def assume(self, *fs):
        for f in fs:
            if f is True:
                continue
            self.pc.append(f)
        return self


class Obligation:
    def __init__(self, oid, kind, hyps, goal, where="", note=""):
        self.id, self.kind, self.hyps, self.goal = oid, kind, list(hyps), goal
        self.where, self.note = where, note
        self.verdict = None  # 'unsat'(discharged) / 'sat' / 'unknown'
        self.model = None
        self.solver = None
        self.seconds = 0.0
        self.inputs: dict[str, SV] = {}  # named symbolic inputs for counter-model extraction

    def formula(self):
        return z3.And(*(self.hyps + [z3.Not(self.goal)])) if self.hyps else z3.Not(self.goal)
