"""Static dependency obligations (C15, parts of C06/C13): what a piece of shipped code can name or import.

A sound syntactic analysis over the real ASTs: every import node at any depth, every name a scope leaves to the
module/builtin level (via the symtable of the real source).  Each import / name is one obligation.
"""
from __future__ import annotations

import ast
import builtins
import symtable
import sys

STDLIB = set(sys.stdlib_module_names) | {"__future__"}
GREEN = {"gevent", "eventlet"}


def imports(tree, skip_type_checking=True):
    """[(module, names, lineno, guarded_by_type_checking, enclosing qualname)] for every import node at any depth."""
    out = []

    def walk(node, qual, tc):
        for ch in ast.iter_child_nodes(node):
            q = qual
            t = tc
            if isinstance(ch, (ast.FunctionDef, ast.AsyncFunctionDef, ast.ClassDef)):
                q = f"{qual}.{ch.name}" if qual else ch.name
            if isinstance(ch, ast.If):
                test = ast.unparse(ch.test)
                if test in ("TYPE_CHECKING", "typing.TYPE_CHECKING"):
                    for b in ch.body:
                        walk(ast.Module(body=[b], type_ignores=[]), q, True)
                    for b in ch.orelse:
                        walk(ast.Module(body=[b], type_ignores=[]), q, t)
                    continue
                if test in ("__name__ == '__main__'", "'__main__' == __name__"):
                    # runs only when the file is executed as a script, never when its text is shipped through remote_exec (__name__ == '__channelexec__')
                    for b in ch.body:
                        walk(ast.Module(body=[b], type_ignores=[]), (q + "." if q else "") + "<main-guard>", t)
                    for b in ch.orelse:
                        walk(ast.Module(body=[b], type_ignores=[]), q, t)
                    continue
            if isinstance(ch, ast.Import):
                for al in ch.names:
                    out.append((al.name, [al.asname or al.name], ch.lineno, t, q))
            elif isinstance(ch, ast.ImportFrom):
                out.append((("." * ch.level) + (ch.module or ""), [al.name for al in ch.names], ch.lineno, t, q))
            walk(ch, q, t)

    walk(tree, "", False)
    return out


def toplevel_names(source: str, filename="<src>") -> set[str]:
    """names bound at module level (assigned, imported, def/class), including those bound inside top-level if/try blocks"""
    st = symtable.symtable(source, filename, "exec")
    return {s.get_name() for s in st.get_symbols() if s.is_assigned() or s.is_imported() or s.is_namespace()}


def global_refs(source: str, filename="<src>"):
    """[(scope qualname, name)] for every name a scope resolves at module/builtin level (implicit or declared global)."""
    st = symtable.symtable(source, filename, "exec")
    out = []

    def walk(tab, qual):
        for s in tab.get_symbols():
            if tab.get_type() == "module":
                if s.is_referenced() and not (s.is_assigned() or s.is_imported() or s.is_namespace()):
                    out.append((qual or "<module>", s.get_name()))
            elif s.is_referenced() and s.is_global():
                out.append((qual, s.get_name()))
        for ch in tab.get_children():
            walk(ch, f"{qual}.{ch.get_name()}" if qual else ch.get_name())

    walk(st, "")
    return out


def is_builtin(name: str) -> bool:
    return hasattr(builtins, name) or name in ("__name__", "__file__", "__doc__", "__builtins__", "__spec__", "__package__", "__loader__", "__annotations__")
