"""Mechanical extraction of the real function ASTs from /repo/src on every run.

Nothing here rewrites code.  What is dropped is listed in DROPPED (and in every
evidence file): annotations, docstrings, typing.cast, @overload stubs,
`if TYPE_CHECKING:` bodies.
"""
from __future__ import annotations

import ast
import hashlib
import os

REPO_SRC = os.environ.get("PYVC_REPO_SRC", "/repo/src")

DROPPED = [
    "type annotations (ignored)",
    "docstrings (ignored)",
    "typing.cast(T, e) treated as e",
    "@overload stubs skipped",
    "`if TYPE_CHECKING:` bodies skipped",
    "calls to trace/log/notrace/self._trace treated as effect-free (their arguments are not evaluated)",
    "sys.platform == 'win32' / os.name == 'nt' / jython branches: platform fixed to POSIX CPython",
]


class Module:
    def __init__(self, modname: str):
        self.modname = modname
        rel = modname.replace(".", "/") + ".py"
        self.path = os.path.join(REPO_SRC, rel)
        with open(self.path, "rb") as f:
            raw = f.read()
        self.sha256 = hashlib.sha256(raw).hexdigest()
        self.source = raw.decode("utf-8")
        self.tree = ast.parse(self.source, self.path)
        self.functions: dict[str, ast.FunctionDef] = {}
        self.classes: dict[str, ast.ClassDef] = {}
        self.consts: dict[str, object] = {}
        self.class_consts: dict[str, dict[str, object]] = {}
        self.tables: dict[str, dict] = {}
        self._index(self.tree.body, "")
        self._consts()

    # ------------------------------------------------------------------
    def _index(self, body, prefix):
        for node in body:
            if isinstance(node, (ast.FunctionDef, ast.AsyncFunctionDef)):
                if any(isinstance(d, ast.Name) and d.id == "overload" for d in node.decorator_list):
                    continue
                q = prefix + node.name
                self.functions[q] = node
                self._index(node.body, q + ".")
            elif isinstance(node, ast.ClassDef):
                q = prefix + node.name
                self.classes[q] = node
                self._index(node.body, q + ".")
            elif isinstance(node, (ast.If, ast.Try, ast.With, ast.For, ast.While)):
                if isinstance(node, ast.If) and _is_type_checking(node.test):
                    continue
                for fld in ("body", "orelse", "finalbody"):
                    self._index(getattr(node, fld, []) or [], prefix)
                for h in getattr(node, "handlers", []) or []:
                    self._index(h.body, prefix)

    def _consts(self):
        """Literal module-level and class-level constants, and dict tables filled by
        `tbl[KEY] = value` statements in a class body (num2func, _types)."""
        env: dict[str, object] = {}
        for node in self.tree.body:
            self._const_stmt(node, env, env)
        self.consts = env
        for cname, cnode in self.classes.items():
            cenv: dict[str, object] = {}
            for node in cnode.body:
                self._const_stmt(node, cenv, {**env, **cenv})
            self.class_consts[cname] = cenv
            for k, v in cenv.items():
                if isinstance(v, (int, str, bytes, bool, float)) or v is None:
                    env[f"{cname}.{k}"] = v

    def _const_stmt(self, node, env, scope):
        if isinstance(node, ast.Assign) and len(node.targets) == 1:
            tgt = node.targets[0]
            if isinstance(tgt, ast.Name):
                ok, val = _lit(node.value, scope)
                if ok:
                    env[tgt.id] = val
                elif isinstance(node.value, ast.Name):
                    env[tgt.id] = ("alias", node.value.id)
            elif isinstance(tgt, ast.Subscript) and isinstance(tgt.value, ast.Name):
                tbl = env.setdefault(tgt.value.id, {}) if isinstance(env.get(tgt.value.id, {}), dict) else None
                if tbl is not None:
                    ok, key = _lit(tgt.slice, scope)
                    if ok:
                        okv, val = _lit(node.value, scope)
                        if okv:
                            tbl[key] = val
                        elif isinstance(node.value, ast.Name):
                            tbl[key] = ("name", node.value.id)
                        elif isinstance(node.value, ast.Tuple):
                            items = []
                            for e in node.value.elts:
                                oke, ve = _lit(e, scope)
                                items.append(ve if oke else ("name", e.id) if isinstance(e, ast.Name) else None)
                            tbl[key] = tuple(items)
        elif isinstance(node, ast.AnnAssign) and isinstance(node.target, ast.Name) and node.value is not None:
            ok, val = _lit(node.value, scope)
            if ok:
                env[node.target.id] = val

    # ------------------------------------------------------------------
    def func(self, qualname: str) -> ast.FunctionDef:
        return self.functions[qualname]

    def class_bases(self, cname: str) -> list[str]:
        out = []
        for b in self.classes[cname].bases:
            if isinstance(b, ast.Name):
                out.append(b.id)
            elif isinstance(b, ast.Attribute):
                out.append(b.attr)
        return out

    def class_methods(self, cname: str) -> list[str]:
        return [n.name for n in self.classes[cname].body if isinstance(n, ast.FunctionDef)]

    def find_method(self, cname: str, mname: str, mods=()) -> tuple["Module", str] | None:
        """Resolve a method through the class hierarchy (single module + given others)."""
        seen = set()
        todo = [(self, cname)]
        while todo:
            mod, c = todo.pop(0)
            if (mod.modname, c) in seen or c not in mod.classes:
                continue
            seen.add((mod.modname, c))
            if f"{c}.{mname}" in mod.functions:
                return mod, f"{c}.{mname}"
            for b in mod.class_bases(c):
                if b in mod.classes:
                    todo.append((mod, b))
                else:
                    for m2 in mods:
                        if b in m2.classes:
                            todo.append((m2, b))
        return None


def _is_type_checking(test) -> bool:
    return (isinstance(test, ast.Name) and test.id == "TYPE_CHECKING") or (
        isinstance(test, ast.Attribute) and test.attr == "TYPE_CHECKING"
    )


def _lit(node, scope):
    """Evaluate a literal-ish constant expression; (ok, value)."""
    try:
        if isinstance(node, ast.Constant):
            return True, node.value
        if isinstance(node, ast.Name) and node.id in scope and not isinstance(scope[node.id], tuple):
            v = scope[node.id]
            if isinstance(v, (int, str, bytes, bool, float)) or v is None:
                return True, v
            return False, None
        if isinstance(node, ast.Attribute) and isinstance(node.value, ast.Name):
            key = f"{node.value.id}.{node.attr}"
            if key in scope:
                return True, scope[key]
            return False, None
        if isinstance(node, ast.UnaryOp) and isinstance(node.op, ast.USub):
            ok, v = _lit(node.operand, scope)
            return (ok and isinstance(v, (int, float))), (-v if ok and isinstance(v, (int, float)) else None)
        if isinstance(node, ast.Tuple):
            vals = [_lit(e, scope) for e in node.elts]
            if all(ok for ok, _ in vals):
                return True, tuple(v for _, v in vals)
            return False, None
        if isinstance(node, ast.BinOp) and isinstance(node.op, ast.Mod):
            l, r = _lit(node.left, scope), _lit(node.right, scope)
            if l[0] and r[0]:
                return True, l[1] % r[1]
        if isinstance(node, ast.BinOp) and isinstance(node.op, (ast.Add, ast.Sub, ast.Mult, ast.Pow, ast.BitOr, ast.BitAnd, ast.LShift, ast.RShift, ast.FloorDiv)):
            l, r = _lit(node.left, scope), _lit(node.right, scope)
            if l[0] and r[0] and (not isinstance(node.op, (ast.LShift, ast.Pow)) or (isinstance(r[1], int) and 0 <= r[1] <= 64)):
                import operator

                op = {ast.Add: operator.add, ast.Sub: operator.sub, ast.Mult: operator.mul, ast.Pow: operator.pow, ast.BitOr: operator.or_, ast.BitAnd: operator.and_,
                      ast.LShift: operator.lshift, ast.RShift: operator.rshift, ast.FloorDiv: operator.floordiv}[type(node.op)]
                return True, op(l[1], r[1])
        if isinstance(node, ast.Call) and isinstance(node.func, ast.Name) and node.func.id == "bchr" and len(node.args) == 1:
            ok, v = _lit(node.args[0], scope)
            if ok:
                return True, bytes([v])
        if (
            isinstance(node, ast.Call)
            and isinstance(node.func, ast.Attribute)
            and isinstance(node.func.value, ast.Name)
            and node.func.value.id == "struct"
            and node.func.attr == "calcsize"
        ):
            import struct

            ok, v = _lit(node.args[0], scope)
            if ok:
                return True, struct.calcsize(v)
    except Exception:
        pass
    return False, None


_cache: dict[str, Module] = {}


def load(modname: str) -> Module:
    m = _cache.get(modname)
    if m is None:
        m = _cache[modname] = Module(modname)
    return m


def reset():
    _cache.clear()


def flat_func(mod: "Module", qualname: str, skip=None):
    """The function's AST with every statement `self.helper()` (no arguments; helper a method of the same class whose body has no `return <value>` and no
    `yield`) replaced by the helper's body - one level, mechanically.  Static obligations that read a function's text use this, so that moving a few statements
    into a private helper method does not change what they see."""
    import copy

    fn = copy.deepcopy(mod.func(qualname))
    outer = qualname.rsplit(".", 1)[0] if "." in qualname else None
    if outer is None or (outer not in mod.classes and outer not in mod.functions):
        return fn
    cls = outer if outer in mod.classes else None

    def helper_body(call):
        if not (isinstance(call, ast.Call) and not call.keywords and all(isinstance(x, ast.Name) for x in call.args)):
            return None
        if cls is not None and isinstance(call.func, ast.Attribute) and isinstance(call.func.value, ast.Name) and call.func.value.id == "self":
            name, nself = call.func.attr, 1
            if sum(1 for k in mod.functions if k.endswith("." + name) and k.count(".") == 1) != 1:
                return None   # defined in several classes: the call is virtual, there is no one body to inline
        elif cls is None and isinstance(call.func, ast.Name):
            name, nself = call.func.id, 0     # a sibling nested function of the same enclosing function
        else:
            return None
        q = f"{outer}.{name}"
        h = mod.functions.get(q)
        if skip is not None and skip(q):
            return None
        if h is None or q == qualname or len(h.args.args) != nself + len(call.args) or h.args.vararg or h.args.kwarg or h.args.kwonlyargs:
            return None
        ren = {prm.arg: x.id for prm, x in zip(h.args.args[nself:], call.args)}
        if any(isinstance(n, (ast.Assign, ast.AugAssign, ast.AnnAssign, ast.For, ast.With)) and any(isinstance(t, ast.Name) and t.id in ren for t in ast.walk(n) if isinstance(getattr(t, "ctx", None), ast.Store))
               for n in ast.walk(h)):
            return None   # the helper rebinds a parameter: not a plain inline
        if any(isinstance(n, (ast.Yield, ast.YieldFrom)) or (isinstance(n, ast.Return) and n.value is not None) or isinstance(n, (ast.FunctionDef, ast.Lambda)) for b_ in h.body for n in ast.walk(b_)):
            return None
        if any(isinstance(n, ast.Return) for n in ast.walk(h)):
            return None
        body = [copy.deepcopy(s) for s in h.body]
        for st_ in body:
            for n in ast.walk(st_):
                if isinstance(n, ast.Name) and n.id in ren:
                    n.id = ren[n.id]
        if body and isinstance(body[0], ast.Expr) and isinstance(body[0].value, ast.Constant) and isinstance(body[0].value.value, str):
            body = body[1:]
        return body or [ast.Pass()]

    def rewrite(stmts):
        out = []
        for s in stmts:
            hb = helper_body(s.value) if isinstance(s, ast.Expr) else None
            if hb is not None:
                out.extend(hb)
                continue
            for fld in ("body", "orelse", "finalbody"):
                if isinstance(getattr(s, fld, None), list) and not isinstance(s, (ast.FunctionDef, ast.ClassDef)):
                    setattr(s, fld, rewrite(getattr(s, fld)))
            for h in getattr(s, "handlers", []) or []:
                h.body = rewrite(h.body)
            out.append(s)
        return out

    fn.body = rewrite(fn.body)
    return ast.fix_missing_locations(fn)


def flat_src(mod: "Module", qualname: str) -> str:
    return ast.unparse(flat_func(mod, qualname))
