"""IEEE-754 binary64 arithmetic on the bit-pattern representation of Python floats (core.FLOAT) and complex numbers (core.CPX).

Floats are carried as the integer value of their 64 bit pattern (only equality is used elsewhere); arithmetic converts to z3's FloatingPoint theory and back,
round-to-nearest-even, the way CPython's float/complex objects compute on IEEE hardware:
  * float op float: one correctly rounded operation;
  * a mixed float/complex operation first widens the float to complex(x, 0.0) (CPython <= 3.13; 3.14 keeps the float, which only makes more results exact);
  * complex product: (a.re*b.re - a.im*b.im, a.re*b.im + a.im*b.re), every operation rounded (Objects/complexobject.c:_Py_c_prod);
  * the bit pattern of a NaN result is unspecified (z3 leaves fp.to_ieee_bv of NaN free), so nothing is proved about NaN payloads after arithmetic.
Integer operands are accepted only as concrete literals that are exactly representable; division and power are not modelled (Unsupported).
"""
from __future__ import annotations

import ast
import struct

import z3

from .core import CPX, FLOAT, SV, Unsupported

F64 = z3.Float64()
RNE = z3.RNE()


def to_fp(bits, assume):
    """the float whose pattern is `bits`: a fresh 64-bit vector constrained to carry that integer (bv2int is far cheaper for the solvers than int2bv);
    sound because a FLOAT value is always a pattern in [0, 2**64)"""
    bits = z3.simplify(bits)
    if z3.is_int_value(bits):
        return z3.fpBVToFP(z3.BitVecVal(bits.as_long(), 64), F64)
    b = z3.FreshConst(z3.BitVecSort(64), "fbits")
    assume.append(z3.BV2Int(b, False) == bits)
    return z3.fpBVToFP(b, F64)


def to_bits(x):
    return z3.BV2Int(z3.fpToIEEEBV(x), False)


def lit_bits(v: float):
    return z3.IntVal(int.from_bytes(struct.pack("!d", v), "big"))


def is_floaty(v: SV) -> bool:
    return v.ty.kind == "float" or isinstance(v.ty, CPX)


def _parts(v: SV, assume):
    """(re, im or None) as FP terms"""
    if isinstance(v.ty, CPX):
        return to_fp(v.v[0].v, assume), to_fp(v.v[1].v, assume)
    if v.ty.kind == "float":
        return to_fp(v.v, assume), None
    if v.ty.kind in ("int", "bool"):
        c = z3.simplify(v.v if v.ty.kind == "int" else z3.If(v.v, 1, 0))
        if z3.is_int_value(c) and abs(c.as_long()) < 2 ** 53:
            return z3.FPVal(float(c.as_long()), F64), None
        raise Unsupported("float arithmetic with a symbolic integer operand")
    raise Unsupported(f"float arithmetic on {v.ty!r}")


def binop(op, a: SV, b: SV):
    """-> (result, [facts to assume])"""
    assume = []
    (ar, ai), (br, bi) = _parts(a, assume), _parts(b, assume)
    zero = z3.FPVal(0.0, F64)
    if ai is None and bi is None:
        if isinstance(op, ast.Add):
            r = z3.fpAdd(RNE, ar, br)
        elif isinstance(op, ast.Sub):
            r = z3.fpSub(RNE, ar, br)
        elif isinstance(op, ast.Mult):
            r = z3.fpMul(RNE, ar, br)
        else:
            raise Unsupported(f"float op {type(op).__name__}")
        return SV(FLOAT, to_bits(r)), assume
    ai = zero if ai is None else ai
    bi = zero if bi is None else bi
    if isinstance(op, ast.Add):
        re, im = z3.fpAdd(RNE, ar, br), z3.fpAdd(RNE, ai, bi)
    elif isinstance(op, ast.Sub):
        re, im = z3.fpSub(RNE, ar, br), z3.fpSub(RNE, ai, bi)
    elif isinstance(op, ast.Mult):
        re = z3.fpSub(RNE, z3.fpMul(RNE, ar, br), z3.fpMul(RNE, ai, bi))
        im = z3.fpAdd(RNE, z3.fpMul(RNE, ar, bi), z3.fpMul(RNE, ai, br))
    else:
        raise Unsupported(f"complex op {type(op).__name__}")
    return SV(CPX(FLOAT, FLOAT), (SV(FLOAT, to_bits(re)), SV(FLOAT, to_bits(im)))), assume
