"""View of the symbolic state handed to loop invariants / variants."""
from __future__ import annotations

from .contracts import HeapView
from .core import SV, Unsupported


class LoopCtx:
    def __init__(self, ex, st, kname, iterable, pre=None):
        self.ex, self.st = ex, st
        self.pre = pre if pre is not None else HeapView(st.heap)  # heap when the loop was entered
        self._kname = kname
        self.iterable = iterable
        self.h = HeapView(st.heap)
        self.old = HeapView(ex.cur_old) if ex.cur_old is not None else None

    @property
    def k(self):
        return self.st.locals[self._kname].v

    def sv(self, name) -> SV:
        return self.st.locals[name]

    def has(self, name):
        return name in self.st.locals

    def __getattr__(self, name):
        if name.startswith("_"):
            raise AttributeError(name)
        try:
            v = self.st.locals[name]
        except KeyError:
            raise Unsupported(f"loop invariant refers to local {name!r} which is not bound") from None
        try:
            return v.t
        except Unsupported:
            return v

    def inp(self, name):
        """Function input (parameter) as it was on entry."""
        v = self.ex.inputs[name]
        try:
            return v.t
        except Unsupported:
            return v
