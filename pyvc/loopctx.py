"""View of the symbolic state handed to loop invariants / variants."""
from __future__ import annotations

from .contracts import HeapView
from .core import SV, Unsupported


class LoopCtx:
    def __init__(self, ex, st, kname, iterable, pre=None):
        self.ex, self.st = ex, st
        self.pre = pre if pre is not None else HeapView(st.heap)  # heap when the loop was entered
        self._kname = kname
        self.iterable = iterable
        self.h = HeapView(st.heap)
        self.old = HeapView(ex.cur_old) if ex.cur_old is not None else None

    @property
    def k(self):
        return self.st.locals[self._kname].v

    def _lookup(self, name):
        """a local of the frame the loop runs in; for a loop that was moved into an inlined private helper (invariant written for the caller), the caller's locals too"""
        if name in self.st.locals:
            return self.st.locals[name]
        outer = (getattr(self.st, "ghost", None) or {}).get("$caller_locals")
        if outer is not None and name in outer:
            return outer[name]
        raise KeyError(name)

    def sv(self, name) -> SV:
        return self._lookup(name)

    def has(self, name):
        try:
            self._lookup(name)
            return True
        except KeyError:
            return False

    def __getattr__(self, name):
        if name.startswith("_"):
            raise AttributeError(name)
        try:
            v = self._lookup(name)
        except KeyError:
            raise Unsupported(f"loop invariant refers to local {name!r} which is not bound") from None
        try:
            return v.t
        except Unsupported:
            return v

    def inp(self, name):
        """Function input (parameter) as it was on entry."""
        v = self.ex.inputs[name]
        try:
            return v.t
        except Unsupported:
            return v
