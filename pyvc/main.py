"""Entry point:  ./check <id>|all [--tier quick|thorough] [--replay <file>]"""
from __future__ import annotations

import argparse
import importlib
import json
import os
import sys
import traceback

VERIF = os.path.dirname(os.path.dirname(os.path.abspath(__file__)))
sys.path.insert(0, VERIF)


def main(argv=None):
    ap = argparse.ArgumentParser()
    ap.add_argument("prop")
    ap.add_argument("--tier", default=os.environ.get("VERIF_TIER", "quick"), choices=["quick", "thorough"])
    ap.add_argument("--replay")
    ap.add_argument("--src", help="alternative source root (scratch copy with a mutant applied)")
    args = ap.parse_args(argv)
    if args.src:
        os.environ["PYVC_REPO_SRC"] = args.src
    seed = int(os.environ.get("VERIF_SEED", "0") or 0)
    from pyvc import extract, run
    from contracts import base

    if args.src:
        extract.REPO_SRC = args.src
    ids = sorted(f[:-3] for f in os.listdir(os.path.join(VERIF, "props")) if f.startswith("C") and f.endswith(".py")) if args.prop == "all" else [args.prop]
    worst = 0
    for pid in ids:
        try:
            mod = importlib.import_module(f"props.{pid}")
            prop = mod.PROP()
            if args.replay:
                with open(args.replay) as f:
                    rp = json.load(f)
                report, fails = prop.replay_file(rp, base.new_world)
                report["repo_src"] = extract.REPO_SRC
                print(json.dumps(report, indent=1, default=str))
                if fails:
                    print(f"VIOLATION property={pid} replay={args.replay}")
                worst = max(worst, 1 if fails else 0)
                continue
            rc = run.run_property(prop, args.tier, seed, base.new_world)
        except Exception:
            traceback.print_exc()
            print(f"CHECKER-ERROR property={pid} crashed")
            rc = 3
        worst = max(worst, rc)
    return worst


if __name__ == "__main__":
    sys.exit(main())
