"""Assumed contracts of Python builtins and stdlib primitives (trusted, listed in evidence).

Machine integers in struct formats are modelled with uninterpreted encoders
(be32, be64, s8, ...) plus axioms instantiated per occurring term (smt.py);
never Int2BV.  Each executable counterpart lives in pyvc/refimpl.py and is
differentially tested against CPython at the start of every check.
"""
from __future__ import annotations

import z3

from .core import (ANY, BOOL, BYTES, FLOAT, FUNCT, INT, MAP, NONE, NONEV, OPT, REF, SEQ, SETT, STR, SV, TUP, ExcV, U,
                   Unsupported, coerce, eq_sv, fresh, mk_bool, mk_bytes, mk_int, mk_opt_none, mk_str, mk_tuple,
                   unflat, zstr)

S = z3.StringSort()
I = z3.IntSort()
B = z3.BoolSort()

be32 = z3.Function("be32", I, S)
unbe32 = z3.Function("unbe32", S, I)
s8 = z3.Function("s8", I, S)
uns8 = z3.Function("uns8", S, I)
be64 = z3.Function("be64", I, S)
unbe64 = z3.Function("unbe64", S, I)
ordb = z3.Function("ordb", S, I)
dec = z3.Function("dec", I, S)  # decimal text of an int (ascii)
undec = z3.Function("undec", S, I)
is_dec = z3.Function("is_dec", S, B)  # int(s) accepts s
utf8 = z3.Function("utf8", S, S)
unutf8 = z3.Function("unutf8", S, S)
utf8_ok = z3.Function("utf8_ok", S, B)  # bytes decode as utf-8
encodable = z3.Function("encodable", S, B)  # str has no lone surrogates
latin1 = z3.Function("latin1", S, S)  # bytes -> str, total, length preserving
repeat = z3.Function("repeat", S, I, S)
bor = z3.Function("bor", I, I, I)
band = z3.Function("band", I, I, I)

I32_MIN, I32_MAX = -(2**31), 2**31 - 1
U64 = 2**64


def _prov(names):
    def deco(f):
        f.names = names
        return f

    return deco


@_prov(["be32"])
def ax_be32(t):
    i = t.arg(0)
    return [z3.Length(t) == 4, z3.Implies(z3.And(i >= I32_MIN, i <= I32_MAX), unbe32(t) == i)]


@_prov(["unbe32"])
def ax_unbe32(t):
    b = t.arg(0)
    return [z3.And(t >= I32_MIN, t <= I32_MAX), z3.Implies(z3.Length(b) == 4, be32(t) == b)]


@_prov(["s8"])
def ax_s8(t):
    i = t.arg(0)
    return [z3.Length(t) == 1, z3.Implies(z3.And(i >= -128, i <= 127), uns8(t) == i)]


@_prov(["uns8"])
def ax_uns8(t):
    b = t.arg(0)
    return [z3.And(t >= -128, t <= 127), z3.Implies(z3.Length(b) == 1, s8(t) == b)]


@_prov(["be64"])
def ax_be64(t):
    i = t.arg(0)
    return [z3.Length(t) == 8, z3.Implies(z3.And(i >= 0, i < U64), unbe64(t) == i)]


@_prov(["unbe64"])
def ax_unbe64(t):
    b = t.arg(0)
    return [z3.And(t >= 0, t < U64), z3.Implies(z3.Length(b) == 8, be64(t) == b)]


@_prov(["ordb"])
def ax_ordb(t):
    return [z3.And(t >= 0, t <= 255)]


@_prov(["dec"])
def ax_dec(t):
    i = t.arg(0)
    return [z3.Length(t) >= 1, is_dec(t), undec(t) == i,
            z3.Implies(z3.And(i >= 0, i <= 9), z3.Length(t) == 1),
            z3.Implies(i > I32_MAX, z3.Length(t) >= 10)]


@_prov(["undec"])
def ax_undec(t):
    return []


@_prov(["utf8"])
def ax_utf8(t):
    s = t.arg(0)
    return [z3.Implies(encodable(s), z3.And(utf8_ok(t), unutf8(t) == s)), z3.Length(t) >= z3.Length(s)]


@_prov(["unutf8"])
def ax_unutf8(t):
    b = t.arg(0)
    return [z3.Implies(utf8_ok(b), z3.And(encodable(t), utf8(t) == b))]


@_prov(["latin1"])
def ax_latin1(t):
    return [z3.Length(t) == z3.Length(t.arg(0))]


@_prov(["repeat"])
def ax_repeat(t):
    s, n = t.arg(0), t.arg(1)
    return [z3.Length(t) == z3.If(n > 0, n * z3.Length(s), 0)]


@_prov(["bor"])
def ax_bor(t):
    a, b = t.arg(0), t.arg(1)
    return [z3.Implies(z3.And(a >= 0, b >= 0), z3.And(t >= a, t >= b, t <= a + b)), bor(t, b) == t, band(t, b) == b if False else z3.BoolVal(True)]


@_prov(["bool2u"])
def ax_bool2u(t):
    from .symexec import truthy_any

    return [truthy_any(t) == t.arg(0)]


@_prov(["int2u"])
def ax_int2u(t):
    from .symexec import truthy_any

    return [truthy_any(t) == (t.arg(0) != 0)]


PROVIDERS = [ax_bool2u, ax_int2u, ax_be32, ax_unbe32, ax_s8, ax_uns8, ax_be64, ax_unbe64, ax_ordb, ax_dec, ax_undec, ax_utf8, ax_unutf8, ax_latin1, ax_repeat, ax_bor]


# --------------------------------------------------------------------------
# struct
# --------------------------------------------------------------------------
# standard-size big-endian formats: "!" or ">" followed by field codes; unsigned fields are the signed codecs shifted by 2**width
STRUCT_FIELDS = {"b": (1, True), "B": (1, False), "i": (4, True), "I": (4, False), "l": (4, True), "L": (4, False), "d": (8, None)}


def _struct_fmt(fmt):
    if len(fmt) < 2 or fmt[0] not in "!>" or any(c not in STRUCT_FIELDS for c in fmt[1:]):
        raise Unsupported(f"struct format {fmt!r}")
    return [STRUCT_FIELDS[c] for c in fmt[1:]]


def _const_str(v: SV):
    t = z3.simplify(v.v)
    if not z3.is_string_value(t):
        raise Unsupported("non-literal struct format")
    return t.as_string()


def struct_pack(ex, args, kwargs, st, sink, node):
    fmt = _const_str(args[0])
    fields, vals = _struct_fmt(fmt), args[1:]
    if len(fields) != len(vals):
        raise Unsupported(f"struct.pack({fmt!r}) with {len(vals)} values")
    ok_c, parts = [], []
    for (size, signed), v in zip(fields, vals):
        if signed is None:
            if v.ty.kind != "float":
                raise Unsupported(f"struct.pack({fmt!r}, {v.ty!r})")
            parts.append(be64(v.v))
            continue
        if v.ty.kind not in ("int", "bool"):
            raise Unsupported(f"struct.pack({fmt!r}, {v.ty!r})")
        i = coerce(v, INT).v
        half = 2 ** (8 * size - 1)
        if signed:
            ok_c.append(z3.And(i >= -half, i <= half - 1))
        else:
            ok_c.append(z3.And(i >= 0, i <= 2 * half - 1))
            i = z3.If(i >= half, i - 2 * half, i)
        parts.append(s8(i) if size == 1 else be32(i))
    data = parts[0] if len(parts) == 1 else z3.Concat(*parts)
    for s2, ok in ex.fork(st, z3.And(ok_c) if ok_c else z3.BoolVal(True)):
        if ok:
            yield s2, mk_bytes(data)
        else:
            ex.raise_(s2, sink, "struct.error", origin=f"struct.pack({fmt!r}) line {getattr(node, 'lineno', '?')}")


def struct_unpack(ex, args, kwargs, st, sink, node):
    fmt = _const_str(args[0])
    data = args[1]
    if data.ty.kind != "bytes":
        raise Unsupported(f"struct.unpack on {data.ty!r}")
    fields = _struct_fmt(fmt)
    d = data.v
    for s2, ok in ex.fork(st, z3.Length(d) == sum(sz for sz, _ in fields)):
        if not ok:
            ex.raise_(s2, sink, "struct.error", origin=f"struct.unpack({fmt!r}) line {getattr(node, 'lineno', '?')}")
            continue
        out, off = [], 0
        for size, signed in fields:
            piece = d if len(fields) == 1 else z3.SubSeq(d, off, size)
            off += size
            if signed is None:
                out.append(SV(FLOAT, unbe64(piece)))
                continue
            i = uns8(piece) if size == 1 else unbe32(piece)
            if not signed:
                i = z3.If(i < 0, i + 2 ** (8 * size), i)
            out.append(mk_int(i))
        yield s2, mk_tuple(out)


def struct_calcsize(ex, args, kwargs, st, sink, node):
    yield st, mk_int(sum(sz for sz, _ in _struct_fmt(_const_str(args[0]))))


# --------------------------------------------------------------------------
# builtins
# --------------------------------------------------------------------------
def b_len(ex, args, kwargs, st, sink, node):
    (v,) = args
    if v.ty.kind == "opt":
        for s1, v1 in ex.unwrap(v, st, sink, "len()"):
            yield from b_len(ex, [v1], kwargs, s1, sink, node)
        return
    k = v.ty.kind
    if k in ("str", "bytes", "seq"):
        yield st, mk_int(z3.Length(v.v))
    elif k == "tuple":
        yield st, mk_int(len(v.v))
    else:
        hook = ex.w.call_hooks.get(("len", k if k != "ref" else "ref:" + v.ty.cls))
        if hook:
            yield from hook(ex, v, st, sink)
            return
        if k == "ref":
            for st2, m in ex.getattr(v, "__len__", st, sink, node):
                yield from ex.call(m, [], {}, st2, sink, node)
            return
        raise Unsupported(f"len of {v.ty!r}")


PY_TYPE_KINDS = {
    "int": ("int", "bool"), "bool": ("bool",), "str": ("str",), "bytes": ("bytes",), "tuple": ("tuple",),
    "float": ("float",), "list": ("seq",), "dict": ("map",), "set": ("set",),
}


def _class_names(ex, c: SV):
    from .symexec import ClassD, ExcClassD, ExternD

    if c.ty.kind == "tuple":
        return [n for x in c.v for n in _class_names(ex, x)]
    if c.ty.kind != "func":
        raise Unsupported("isinstance class argument")
    d = c.v
    if isinstance(d, ClassD):
        return [d.name]
    if isinstance(d, ExcClassD):
        return list(d.names)
    if isinstance(d, ExternD) and d.name.startswith("builtins."):
        return [d.name.split(".", 1)[1]]
    if isinstance(d, ExternD):
        return [d.name]
    raise Unsupported("isinstance class argument")


def isinstance_formula(ex, v: SV, names):
    k = v.ty.kind
    if k == "opt":
        return z3.And(z3.Not(v.v[0]), isinstance_formula(ex, v.v[1], names))
    if k == "none":
        return z3.BoolVal("NoneType" in names)
    if k == "ref":
        ok = any(ex.w.schema.issub(v.ty.cls, n) for n in names)
        dyn = ex.w.call_hooks.get(("isinstance", "ref"))
        if dyn:
            r = dyn(ex, v, names)
            if r is not None:
                return r
        return z3.And(v.v != 0, z3.BoolVal(ok))
    if k == "func":
        from .symexec import FuncD, ClassD

        if isinstance(v.v, ExcV):
            return z3.BoolVal(any(ex.exc_issub(v.v.cls, n) for n in names))
        if isinstance(v.v, ClassD):
            return z3.BoolVal("type" in names)
        return z3.BoolVal(any(n in ("types.FunctionType",) for n in names) and isinstance(v.v, FuncD))
    if k == "dt":
        hook = ex.w.call_hooks.get(("isinstance", "dt"))
        return hook(ex, v, names)
    if k == "any":
        hook = ex.w.call_hooks.get(("isinstance", "any"))
        if hook:
            return hook(ex, v, names)
        raise Unsupported("isinstance on an opaque value")
    for n in names:
        if k in PY_TYPE_KINDS.get(n, ()):
            return z3.BoolVal(True)
    return z3.BoolVal(False)


def b_isinstance(ex, args, kwargs, st, sink, node):
    v, c = args
    yield st, mk_bool(isinstance_formula(ex, v, _class_names(ex, c)))


def b_int(ex, args, kwargs, st, sink, node):
    (v,) = args
    k = v.ty.kind
    if k in ("int", "bool"):
        yield st, coerce(v, INT)
    elif k in ("bytes", "str"):
        for s2, ok in ex.fork(st, is_dec(v.v)):
            if ok:
                yield s2, mk_int(undec(v.v))
            else:
                ex.raise_(s2, sink, "ValueError", origin=f"int() line {getattr(node, 'lineno', '?')}")
    else:
        raise Unsupported(f"int({v.ty!r})")


def b_str(ex, args, kwargs, st, sink, node):
    if not args:
        yield st, mk_str("")
        return
    (v,) = args
    k = v.ty.kind
    if k == "str":
        yield st, v
    elif k in ("int",):
        hook = ex.w.externals.get("int.__str__limit")
        if hook:
            yield from hook(ex, v, st, sink, node)
        else:
            yield st, mk_str(dec(v.v))
    else:
        yield st, fresh(STR, "str")


def b_repr(ex, args, kwargs, st, sink, node):
    yield st, fresh(STR, "repr")


def b_bytes(ex, args, kwargs, st, sink, node):
    raise Unsupported("bytes() constructor")


def b_getattr(ex, args, kwargs, st, sink, node):
    obj, name = args[0], args[1]
    nm = z3.simplify(name.v)
    if not z3.is_string_value(nm):
        hook = ex.w.call_hooks.get(("getattr", "dynamic"))
        if hook:
            yield from hook(ex, args, st, sink, node)
            return
        raise Unsupported("getattr with a non-literal name")
    attr = nm.as_string()
    hook = ex.w.call_hooks.get(("getattr", obj.ty.kind if obj.ty.kind != "ref" else "ref:" + obj.ty.cls + "." + attr))
    if hook:
        yield from hook(ex, args, st, sink, node)
        return
    if obj.ty.kind == "ref" and ex.w.schema.lookup(obj.ty.cls, attr) is not None:
        yield from ex.getattr(obj, attr, st, sink, node)
        return
    if len(args) == 3:
        if obj.ty.kind == "ref":
            hookp = ex.w.call_hooks.get(("hasattr", obj.ty.cls + "." + attr))
            if hookp:
                yield from hookp(ex, obj, args[2], st, sink)
                return
        yield st, args[2]
        return
    raise Unsupported(f"getattr({obj.ty!r}, {attr!r})")


def b_hasattr(ex, args, kwargs, st, sink, node):
    obj, name = args
    attr = z3.simplify(name.v).as_string()
    hook = ex.w.call_hooks.get(("hasattr", (obj.ty.cls if obj.ty.kind == "ref" else obj.ty.kind) + "." + attr))
    if hook:
        yield from hook(ex, obj, None, st, sink)
        return
    raise Unsupported(f"hasattr({obj.ty!r}, {attr!r})")


def b_callable(ex, args, kwargs, st, sink, node):
    yield st, mk_bool(args[0].ty.kind in ("func", "any"))


def b_bool(ex, args, kwargs, st, sink, node):
    yield st, mk_bool(ex.truth(args[0]))


def b_set(ex, args, kwargs, st, sink, node):
    if args:
        raise Unsupported("set(iterable)")
    yield st, SV(SETT(REF("object")), z3.K(z3.IntSort(), z3.BoolVal(False)))  # empty set of objects


seqsum = z3.Function("seqsum", z3.SeqSort(z3.IntSort()), z3.IntSort())    # sum() of a list of ints: only that it is an int and a function of the list is used


def b_sum(ex, args, kwargs, st, sink, node):
    if len(args) != 1 or kwargs:
        raise Unsupported("sum() with a start value")
    v = args[0]
    if v.ty.kind == "seq" and v.ty.elem.kind in ("int", "bool"):
        yield st, mk_int(seqsum(v.v))
        return
    if v.ty.kind == "seq" and v.ty.elem.kind == "any" and z3.is_app(v.v) and v.v.decl().kind() == z3.Z3_OP_SEQ_EMPTY:
        yield st, mk_int(0)
        return
    raise Unsupported(f"sum() of {v.ty!r}")


def _b_minmax(is_min):
    def f(ex, args, kwargs, st, sink, node):
        if kwargs or len(args) < 2 or any(a.ty.kind not in ("int", "bool") for a in args):
            raise Unsupported("min/max of anything but two or more ints")
        cur = coerce(args[0], INT).v
        for a in args[1:]:
            x = coerce(a, INT).v
            cur = z3.If(x < cur, x, cur) if is_min else z3.If(x > cur, x, cur)
        yield st, mk_int(cur)
    return f


EXTERNALS = {
    "builtins.min": _b_minmax(True),
    "builtins.max": _b_minmax(False),
    "builtins.sum": b_sum,
    "builtins.set": b_set,
    "struct.pack": struct_pack,
    "struct.unpack": struct_unpack,
    "struct.calcsize": struct_calcsize,
    "builtins.len": b_len,
    "builtins.isinstance": b_isinstance,
    "builtins.int": b_int,
    "builtins.str": b_str,
    "builtins.repr": b_repr,
    "builtins.getattr": b_getattr,
    "builtins.hasattr": b_hasattr,
    "builtins.callable": b_callable,
    "builtins.bool": b_bool,
    "builtins.object.__init__": lambda ex, args, kwargs, st, sink, node: iter([(st, NONEV)]),
    "bytes.ord": lambda s: ordb(s),
    "op.repeat": lambda s, n: repeat(s, n),
    "op.bitor": lambda a, b: bor(a, b),
    "op.bitand": lambda a, b: band(a, b),
}


# --------------------------------------------------------------------------
# methods of value types
# --------------------------------------------------------------------------
def _loc_of(ex, d, st):
    """Syntactic location of the receiver for write-back."""
    return d.recv.loc


def m_seq_extend(ex, d, args, kwargs, st, sink, node):
    (x,) = args
    recv = d.recv
    if x.ty.kind != "seq":
        raise Unsupported(f"list.extend({x.ty!r})")
    ty = recv.ty
    if ty.elem == ANY and x.ty.elem != ANY:
        if not (z3.is_app(recv.v) and recv.v.decl().kind() == z3.Z3_OP_SEQ_EMPTY):
            raise Unsupported("extend changes element type of non-empty list")
        ty, base = x.ty, z3.Empty(x.ty.sorts()[0])
    else:
        base = recv.v
    if x.ty.elem != ty.elem and not (x.ty.elem == ANY and z3.is_app(x.v) and x.v.decl().kind() == z3.Z3_OP_SEQ_EMPTY):
        raise Unsupported(f"extend of {ty!r} with {x.ty!r}")
    ex.write_back(st, recv.loc, SV(ty, z3.Concat(base, x.v) if x.ty.elem == ty.elem else base))
    yield st, NONEV


def m_seq_append(ex, d, args, kwargs, st, sink, node):
    (x,) = args
    recv = d.recv
    ty = recv.ty
    if ty.elem == ANY and x.ty != ANY and len(x.ty.sorts()) == 1:
        ty = SEQ(x.ty)
        base = z3.Empty(ty.sorts()[0])
        if not (z3.is_app(recv.v) and recv.v.decl().kind() == z3.Z3_OP_SEQ_EMPTY):
            raise Unsupported("append changes element type of non-empty list")
    else:
        base = recv.v
    e = coerce(x, ty.elem).t
    ex.write_back(st, recv.loc, SV(ty, z3.Concat(base, z3.Unit(e))))
    yield st, NONEV


def m_seq_pop(ex, d, args, kwargs, st, sink, node):
    recv = d.recv
    n = z3.Length(recv.v)
    if args:
        i = coerce(args[0], INT).v
        j = z3.If(i < 0, i + n, i)
    else:
        j = n - 1
    for s2, ok in ex.fork(st, z3.And(j >= 0, j < n)):
        if not ok:
            ex.raise_(s2, sink, "IndexError", origin=f"pop line {getattr(node, 'lineno', '?')}")
        else:
            val = unflat(recv.ty.elem, [recv.v[j]])
            new = z3.Concat(z3.SubSeq(recv.v, 0, j), z3.SubSeq(recv.v, j + 1, n - j - 1))
            ex.write_back(s2, recv.loc, SV(recv.ty, new))
            yield s2, val


def m_seq_remove(ex, d, args, kwargs, st, sink, node):
    """list.remove(x): the first element equal to x goes, ValueError when there is none (element types whose == is value/identity equality)"""
    recv = d.recv
    if recv.ty.elem.kind not in ("ref", "str", "int", "bool", "bytes"):
        raise Unsupported(f"list.remove on elements of {recv.ty.elem!r}")
    e = coerce(args[0], recv.ty.elem).t
    n = z3.Length(recv.v)
    i = z3.IndexOf(recv.v, z3.Unit(e), 0)
    for s2, found in ex.fork(st, i >= 0):
        if not found:
            ex.raise_(s2, sink, "ValueError", origin=f"list.remove line {getattr(node, 'lineno', '?')}")
        else:
            new = z3.Concat(z3.SubSeq(recv.v, 0, i), z3.SubSeq(recv.v, i + 1, n - i - 1))
            # lemma of sequences (differentially checked by axcheck): dropping the first occurrence of e leaves every other value's membership as it was
            from .core import fresh_name
            q = z3.Const(fresh_name("qrm"), recv.ty.elem.sorts()[0])
            s2.assume(z3.ForAll([q], z3.Implies(q != e, z3.Contains(new, z3.Unit(q)) == z3.Contains(recv.v, z3.Unit(q))), patterns=[z3.Contains(new, z3.Unit(q))]))
            ex.write_back(s2, recv.loc, SV(recv.ty, new))
            yield s2, NONEV


def m_str_find(ex, d, args, kwargs, st, sink, node):
    (sub,) = args
    yield st, mk_int(z3.IndexOf(d.recv.v, sub.v, 0))


def m_str_rfind(ex, d, args, kwargs, st, sink, node):
    (sub,) = args
    yield st, mk_int(z3.LastIndexOf(d.recv.v, sub.v))


def m_str_startswith(ex, d, args, kwargs, st, sink, node):
    (p,) = args
    if p.ty.kind == "tuple":
        yield st, mk_bool(z3.Or([z3.PrefixOf(x.v, d.recv.v) for x in p.v]))
    else:
        yield st, mk_bool(z3.PrefixOf(p.v, d.recv.v))


def m_str_endswith(ex, d, args, kwargs, st, sink, node):
    (p,) = args
    yield st, mk_bool(z3.SuffixOf(p.v, d.recv.v))


TOTAL_ERROR_HANDLERS = ("surrogatepass", "replace", "ignore", "backslashreplace", "xmlcharrefreplace")


def _errors_arg(args, kwargs):
    """the `errors` argument of encode/decode as a python string ('strict' when absent); Unsupported when it is not a constant"""
    v = args[1] if len(args) > 1 else kwargs.get("errors")
    if len(args) > 2 or (set(kwargs) - {"errors", "encoding"}):
        raise Unsupported("encode/decode with unexpected arguments")
    if v is None:
        return "strict"
    t = z3.simplify(v.v)
    if not z3.is_string_value(t):
        raise Unsupported("encode/decode with a non-constant error handler")
    return t.as_string()


def m_str_encode(ex, d, args, kwargs, st, sink, node):
    enc = z3.simplify(args[0].v).as_string() if args else "utf-8"
    s = d.recv.v
    errors = _errors_arg(args, kwargs)
    if errors != "strict":
        if enc != "utf-8" or errors not in TOTAL_ERROR_HANDLERS:
            raise Unsupported(f"encode({enc!r}, {errors!r})")
        # a total error handler: never raises; the bytes of an unencodable string are unspecified here
        yield st, mk_bytes(z3.If(encodable(s), utf8(s), fresh(BYTES, "encoded_with_" + errors).v))
        return
    if enc == "utf-8":
        for s2, ok in ex.fork(st, encodable(s)):
            if ok:
                yield s2, mk_bytes(utf8(s))
            else:
                ex.raise_(s2, sink, "UnicodeEncodeError", origin="encode('utf-8')")
    elif enc == "ascii":
        hook = ex.w.externals.get("str.encode.ascii")
        if hook is None:
            raise Unsupported("encode('ascii') without a model")
        yield from hook(ex, d.recv, st, sink)
    else:
        raise Unsupported(f"encode({enc!r})")


isdigits = z3.Function("isdigits", z3.StringSort(), z3.BoolSort())     # str/bytes.isdigit(): non-empty and decimal digits only


def ax_isdigits(t):
    x = t.arg(0)
    bad = ["-", "+", " ", "_", ".", "\n"]
    return [z3.Implies(t, z3.And(z3.Length(x) > 0, *[z3.Not(z3.Contains(x, z3.StringVal(c))) for c in bad]))]


ax_isdigits.names = ["isdigits"]
PROVIDERS.append(ax_isdigits)


def m_isdigit(ex, d, args, kwargs, st, sink, node):
    lit = z3.simplify(d.recv.v)
    if z3.is_string_value(lit):
        yield st, mk_bool(lit.as_string().isdigit())
    else:
        yield st, mk_bool(isdigits(d.recv.v))


ascii_ok = z3.Function("ascii_ok", z3.StringSort(), z3.BoolSort())     # every byte < 0x80 (uninterpreted: some byte strings are, some are not)


def m_bytes_decode(ex, d, args, kwargs, st, sink, node):
    enc = z3.simplify(args[0].v).as_string() if args else "utf-8"
    b = d.recv.v
    errors = _errors_arg(args, kwargs)
    if errors != "strict":
        if enc != "utf-8" or errors not in TOTAL_ERROR_HANDLERS:
            raise Unsupported(f"decode({enc!r}, {errors!r})")
        yield st, mk_str(z3.If(utf8_ok(b), unutf8(b), fresh(STR, "decoded_with_" + errors).v))
        return
    if enc in ("utf-8-sig", "utf_8_sig"):
        # the "signature" codec drops one leading byte order mark (EF BB BF) and then decodes as utf-8
        bom = mk_bytes(b"\xef\xbb\xbf").v
        b = z3.If(z3.PrefixOf(bom, b), z3.SubSeq(b, 3, z3.Length(b) - 3), b)
        enc = "utf-8"
    if enc == "utf-8":
        for s2, ok in ex.fork(st, utf8_ok(b)):
            if ok:
                yield s2, mk_str(unutf8(b))
            else:
                ex.raise_(s2, sink, "UnicodeDecodeError", origin=f"decode('utf-8') line {getattr(node, 'lineno', '?')}")
    elif enc == "latin-1":
        yield st, mk_str(latin1(b))
    elif enc in ("ascii", "us-ascii"):
        # the same code points as text, provided every byte is below 0x80; UnicodeDecodeError otherwise
        lit = z3.simplify(b)
        if z3.is_string_value(lit):
            okc = z3.BoolVal(all(ord(ch) < 128 for ch in lit.as_string()))
        else:
            okc = ascii_ok(b)
        for s2, ok in ex.fork(st, okc):
            if ok:
                yield s2, mk_str(b)
            else:
                ex.raise_(s2, sink, "UnicodeDecodeError", origin=f"decode('ascii') line {getattr(node, 'lineno', '?')}")
    else:
        raise Unsupported(f"decode({enc!r})")


def m_str_rstrip(ex, d, args, kwargs, st, sink, node):
    hook = ex.w.externals.get("str.rstrip")
    if hook is None:
        raise Unsupported("rstrip without a model")
    yield from hook(ex, d.recv, args, st, sink)


def m_bytes_join(ex, d, args, kwargs, st, sink, node):
    hook = ex.w.externals.get("bytes.join")
    if hook is None:
        raise Unsupported("join without a model")
    yield from hook(ex, d.recv, args, st, sink)


def m_map_get(ex, d, args, kwargs, st, sink, node):
    recv = d.recv
    key = coerce(args[0], recv.ty.key).t
    default = args[1] if len(args) > 1 else NONEV
    for s2, present in ex.fork(st, z3.Select(recv.v[0], key)):
        if present:
            yield s2, unflat(recv.ty.val, [z3.Select(a, key) for a in recv.v[1]])
        else:
            yield s2, default


def m_map_pop(ex, d, args, kwargs, st, sink, node):
    recv = d.recv
    key = coerce(args[0], recv.ty.key).t
    for s2, present in ex.fork(st, z3.Select(recv.v[0], key)):
        if present:
            val = unflat(recv.ty.val, [z3.Select(a, key) for a in recv.v[1]])
            ex.write_back(s2, recv.loc, SV(recv.ty, (z3.Store(recv.v[0], key, False), recv.v[1])))
            yield s2, val
        elif len(args) > 1:
            yield s2, args[1]
        else:
            ex.raise_(s2, sink, "KeyError", origin="dict.pop")


def m_set_add(ex, d, args, kwargs, st, sink, node):
    recv = d.recv
    x = args[0]
    if x.ty.kind == "opt" and recv.ty.elem.kind != "opt":
        for s2, isnone in ex.fork(st, x.v[0]):
            if isnone:
                raise Unsupported("None added to a set of " + repr(recv.ty.elem))
            e = coerce(x.v[1], recv.ty.elem).t
            ex.write_back(s2, recv.loc, SV(recv.ty, z3.Store(recv.v, e, True)))
            yield s2, NONEV
        return
    e = coerce(x, recv.ty.elem).t
    ex.write_back(st, recv.loc, SV(recv.ty, z3.Store(recv.v, e, True)))
    yield st, NONEV


def m_set_remove(ex, d, args, kwargs, st, sink, node):
    recv = d.recv
    e = coerce(args[0], recv.ty.elem).t
    for s2, present in ex.fork(st, z3.Select(recv.v, e)):
        if present:
            ex.write_back(s2, recv.loc, SV(recv.ty, z3.Store(recv.v, e, False)))
            yield s2, NONEV
        else:
            ex.raise_(s2, sink, "KeyError", origin="set.remove")


def _no_kwargs(name, fn):
    def guarded(ex, args, kwargs, st, sink, node):
        if kwargs:
            raise Unsupported(f"{name} called with keyword arguments its model does not cover")
        return fn(ex, args, kwargs, st, sink, node)
    return guarded


for _n in ("builtins.min", "builtins.max", "builtins.set", "struct.pack", "struct.unpack", "struct.calcsize", "builtins.len", "builtins.isinstance", "builtins.int", "builtins.str", "builtins.repr", "builtins.callable", "builtins.bool"):
    EXTERNALS[_n] = _no_kwargs(_n, EXTERNALS[_n])


# the number of positional arguments each model understands: a call with more (str.find(sub, start), list.pop(i, ...)) is outside the model
METHOD_MAX_ARGS = {("bytes", "isdigit"): 0, ("str", "isdigit"): 0, ("seq", "extend"): 1, ("seq", "append"): 1, ("seq", "pop"): 1, ("seq", "remove"): 1, ("str", "find"): 1, ("bytes", "find"): 1, ("str", "rfind"): 1, ("bytes", "rfind"): 1, ("str", "startswith"): 1, ("bytes", "startswith"): 1,
                   ("str", "endswith"): 1, ("str", "encode"): 2, ("bytes", "decode"): 2, ("str", "rstrip"): 1, ("bytes", "join"): 1, ("str", "join"): 1, ("map", "get"): 2, ("map", "pop"): 2,
                   ("set", "add"): 1, ("set", "remove"): 1}

METHODS = {
    ("seq", "append"): m_seq_append,
    ("seq", "extend"): m_seq_extend,
    ("seq", "pop"): m_seq_pop,
    ("seq", "remove"): m_seq_remove,
    ("str", "find"): m_str_find,
    ("bytes", "find"): m_str_find,
    ("str", "rfind"): m_str_rfind,
    ("bytes", "rfind"): m_str_rfind,
    ("str", "startswith"): m_str_startswith,
    ("bytes", "startswith"): m_str_startswith,
    ("bytes", "isdigit"): m_isdigit,
    ("str", "isdigit"): m_isdigit,
    ("str", "endswith"): m_str_endswith,
    ("str", "encode"): m_str_encode,
    ("bytes", "decode"): m_bytes_decode,
    ("str", "rstrip"): m_str_rstrip,
    ("bytes", "join"): m_bytes_join,
    ("str", "join"): m_bytes_join,
    ("map", "get"): m_map_get,
    ("map", "pop"): m_map_pop,
    ("set", "add"): m_set_add,
    ("set", "remove"): m_set_remove,
}
