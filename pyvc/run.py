"""Generic property runner: contracts -> obligations -> solvers -> verdict, evidence, replay files.

Exit codes: 0 held (known findings carved out) / 1 violation / 2 undecided / 3 checker crash.

Work is split per function under contract: one forked worker generates the obligations of one function from
the current source, solves them (z3, cvc5), and proves failing obligations again outside the recorded
known-finding regions.  Only plain records travel back to the parent, which replays counter-models natively.
"""
from __future__ import annotations

import fnmatch
import hashlib
import json
import multiprocessing as mp
import os
import subprocess
import sys
import time
import traceback

import z3

from . import extract, smt
from .core import Obligation, Unsupported
from .symexec import Executor

VERIF = os.path.dirname(os.path.dirname(os.path.abspath(__file__)))
REPLAY_PY = "/venv/bin/python"
WITNESS_ENV: dict = {}


class Prop:
    id = "C00"
    title = ""
    design_ref = ""
    level = "proof"
    targets: list[str] = []
    assumptions: list[str] = []
    not_decided: list[str] = []

    def setup(self, w):
        raise NotImplementedError

    def lemmas(self, w):
        return []

    def canaries(self, w):
        """[(name, contract-with-a-deliberately-false-clause)] -> each must yield a counter-model."""
        return []

    def static_checks(self, w):
        """[(name, ok: bool, detail)] syntactic obligations (back end 'static')."""
        return []

    def bounded(self, tier):
        """[dict(name, bound, evaluations, failures, detail)] stand-ins, never counted as proved."""
        return []

    def replay(self, ob: "ObRec"):
        """Turn a counter-model into a native run.  Return dict(failed: bool, input:..., outcome:...) or None."""
        return None

    def witness_replay(self, finding: dict):
        """Replay the recorded witness of a known finding natively: dict(failed, outcome)."""
        return None

    def replay_file(self, rp: dict, new_world=None, timeout=60.0):
        """Re-check what a replay file names, against the current tree: the bounded stand-in, the static obligation, or the one obligation
        (its function is re-verified, the obligation re-solved, a counter-model replayed natively).  Returns (report, still_fails)."""
        from .symexec import Executor

        if "bound" in rp and "name" in rp and "obligation" not in rp:
            for b in self.bounded(os.environ.get("VERIF_TIER", "quick")):
                if b["name"] == rp["name"]:
                    return {"bounded": b["name"], "evaluations": b["evaluations"], "failures": b["failures"], "detail": b.get("detail")}, bool(b["failures"])
            return {"bounded": rp["name"], "error": "no such stand-in any more"}, False
        oid = rp.get("obligation", "")
        w = new_world()
        self.setup(w)
        worlds = {"main": w}
        for wn, fn in getattr(self, "extra_worlds", {}).items():
            w2 = new_world()
            fn(w2)
            worlds[wn] = w2
        if rp.get("kind") == "static" or oid.startswith("static/"):
            for name, ok, detail in self.static_checks(w):
                if name == oid:
                    return {"obligation": oid, "kind": "static", "holds_now": bool(ok), "detail": detail}, not ok
            return {"obligation": oid, "kind": "static", "error": "no such static obligation any more"}, False
        wname, bare = oid.split("::", 1) if "::" in oid and getattr(self, "tag_worlds", False) else ("main", oid)
        qual = bare.split("/", 1)[0]
        cands = []
        for t in self.targets:
            tw, key = t.split("::", 1) if "::" in t else ("main", t)
            if key.split(":", 1)[1].split("#")[0] == qual and (tw == wname or not getattr(self, "tag_worlds", False)):
                cands.append((tw, key))
        out = {"obligation": oid, "verdicts": []}
        fails = False
        for tw, key in cands:
            ex = Executor(worlds[tw], self.id)
            try:
                obs = ex.verify(worlds[tw].contracts[key])
            except Unsupported as e:
                out["verdicts"].append({"function": key, "undecided": str(e)})
                continue
            for ob in obs:
                if ob.id != bare:
                    continue
                r = smt.solve_formula(worlds[tw], ob.hyps, ob.goal, timeout)
                ob.verdict, ob.solver, ob.seconds, ob.model, ob.reason = r
                rec = ObRec(ob)
                entry = {"function": key, "world": tw, "verdict": ob.verdict, "solver": ob.solver, "seconds": round(ob.seconds, 2)}
                if ob.verdict != "unsat":
                    fails = True
                    try:
                        entry["native_replay"] = self.replay(rec)
                    except Exception as e:  # replay trouble never hides the verdict
                        entry["native_replay"] = {"failed": False, "outcome": f"replay harness error: {type(e).__name__}: {e}"}
                out["verdicts"].append(entry)
        if not out["verdicts"]:
            out["error"] = "the obligation is not generated from the current tree (function renamed, or the path no longer exists)"
        return out, fails


class ObRec:
    """Plain record of one obligation after solving (picklable)."""

    def __init__(self, ob: Obligation):
        self.id, self.kind, self.where, self.note = ob.id, ob.kind, ob.where, ob.note
        self.group = getattr(ob, "group", ob.id)
        self.verdict, self.solver, self.seconds, self.model = ob.verdict, ob.solver, ob.seconds, ob.model
        self.reason = getattr(ob, "reason", "")
        self.goal_txt = str(ob.goal)[:2000]
        self.hyps_txt = [str(h)[:400] for h in ob.hyps][:40]
        self.input_consts = {}
        for name, sv in ob.inputs.items():
            try:
                t = sv.t
                self.input_consts[name] = (t.decl().name(), "str" if t.sort() == z3.StringSort() else "bool" if t.sort() == z3.BoolSort() else "int")
            except Exception:
                pass
        for name, t in getattr(ob, "ghost_inputs", {}).items():
            if z3.is_const(t):
                self.input_consts[name] = (t.decl().name(), "str" if t.sort() == z3.StringSort() else "int")
        self.carved_by: list[str] = []
        self.status = "discharged" if ob.verdict == "unsat" else "violation" if ob.verdict == "sat" else "undecided"

    def input_value(self, name):
        """Concrete value of a named symbolic input in the counter-model (int / bool / str), or None."""
        if not self.model or name not in self.input_consts:
            return None
        cname, kind = self.input_consts[name]
        sort = z3.StringSort() if kind == "str" else z3.BoolSort() if kind == "bool" else z3.IntSort()
        return smt.model_value(self.model, z3.Const(cname, sort))

    @property
    def inputs(self):
        return {n: None for n in self.input_consts}


def native(code: str, timeout=60, env_extra=None):
    """Run python code against the real tree (PYTHONPATH=<repo>/src); returns (rc, stdout, stderr)."""
    env = dict(os.environ)
    env["PYTHONPATH"] = extract.REPO_SRC
    env.pop("PYTHONHOME", None)
    if env_extra:
        env.update(env_extra)
    pre = "import sys, execnet\nassert execnet.__file__.startswith(%r), execnet.__file__\n" % extract.REPO_SRC
    try:
        p = subprocess.run([REPLAY_PY, "-c", pre + code], capture_output=True, text=True, timeout=timeout, env=env, cwd="/")
        return p.returncode, p.stdout, p.stderr
    except subprocess.TimeoutExpired:
        return 124, "", "timeout"


def load_known():
    path = os.path.join(VERIF, "known_findings.json")
    if not os.path.exists(path):
        return []
    with open(path) as f:
        return json.load(f)["findings"]


def finding_matches(f, prop_id, ob_id):
    # "also": other properties whose checks share the failing obligation (e.g. C12 re-verifies C01's encoder contracts)
    return (f["property"] == prop_id or prop_id in f.get("also", [])) and any(fnmatch.fnmatch(ob_id, pat) for pat in f["obligations"])


def witness_formula(f, ob: Obligation):
    """z3 Bool W over the obligation's named inputs: the recorded failing region (or None = whole obligation)."""
    expr = f.get("witness")
    if not expr or expr == "*":
        return None
    env = {"z3": z3, "And": z3.And, "Or": z3.Or, "Not": z3.Not, "Length": z3.Length}
    for name, sv in ob.inputs.items():
        try:
            env[name] = sv.t
        except Unsupported:
            pass
    env.update(getattr(ob, "ghost_inputs", {}))
    env.update(WITNESS_ENV)
    try:
        return eval(expr, env)
    except Exception:
        return "not-expressible"


# ----------------------------------------------------------------------------------------------------------
# worker side
# ----------------------------------------------------------------------------------------------------------
_G = {}


def _classify(w, prop_id, ob: Obligation, known, timeout) -> ObRec:
    rec = ObRec(ob)
    if ob.verdict != "sat":
        return rec
    fs = [f for f in known if f.get("status") == "known" and finding_matches(f, prop_id, ob.id)]
    if not fs:
        return rec
    Ws = [witness_formula(f, ob) for f in fs]
    if any(isinstance(W, str) for W in Ws):
        return rec  # the recorded region cannot be expressed over this obligation's inputs: nothing is carved out
    if any(W is None for W in Ws):
        rec.status, rec.carved_by = "carved", [f["id"] for f in fs]
        return rec
    # prove the obligation outside the recorded witness regions: any other violation still fires
    v, solver, secs, model, reason = smt.solve_formula(w, ob.hyps + [z3.Not(W) for W in Ws], ob.goal, timeout)
    rec.seconds += secs
    if v == "unsat":
        rec.status, rec.carved_by = "carved", [f["id"] for f in fs]
    elif v == "sat":
        rec.model = model
        rec.note = (rec.note + " | fails outside the known-finding region " + ",".join(f["id"] for f in fs)).strip(" |")
    else:
        rec.status, rec.reason = "undecided", f"outside known region: {reason[:100]}"
    return rec


def _solve_with_retry(w, ob, timeout):
    r = smt.solve_formula(w, ob.hyps, ob.goal, timeout)
    if r[0] == "unknown" and "timeout" in (r[4] or ""):
        # a budget that is ample on an idle machine can run out when all cores are busy (other checks, test runs): one retry with three times
        # the budget before the obligation is called undecided; the time of both attempts is reported
        r2 = smt.solve_formula(w, ob.hyps, ob.goal, 3 * timeout)
        r = (r2[0], r2[1] + "(retry)", r[2] + r2[2], r2[3], r2[4])
    return r


_POBS, _PW, _PT = [], None, 30.0


def _unit_to_pipe(u, conn, nprocs):
    os.environ["PYVC_PROCS_INNER"] = str(nprocs)
    try:
        conn.send(_unit(u))
    except Exception as e:
        conn.send({"kind": "verify", "key": u[1], "records": [], "undecided": [f"{u[1]}: {type(e).__name__}: {e}"], "meta": {}})
    finally:
        conn.close()


def _solve_shared(i):
    try:
        return i, tuple(_solve_with_retry(_PW, _POBS[i], _PT))
    except Exception as e:  # solver crash: undecided, not a verdict
        return i, ("unknown", "error", 0.0, None, f"{type(e).__name__}: {e}")


def _unit(args):
    kind, key = args[:2]
    chunk, nchunks = (args[2], args[3]) if len(args) > 2 else (0, 1)
    prop, known, timeout = _G["prop"], _G["known"], _G["timeout"]
    wname = "main"
    if isinstance(key, str) and "::" in key:
        wname, key = key.split("::", 1)
    w = _G["worlds"][wname]
    t0 = time.time()
    out = {"kind": kind, "key": key, "records": [], "undecided": [], "meta": {}}
    try:
        if kind == "verify":
            ex = Executor(w, prop.id)
            c = w.contracts[key]
            try:
                obs = ex.verify(c)
            except Unsupported as e:
                out["undecided"].append(f"{key}: {e}")
                return out
            if not obs and chunk == 0:
                out["undecided"].append(f"{key}: contract generated no obligation (vacuous)")
            if nchunks > 1:
                # every worker of a split function regenerates the obligation list and solves its share by position: the lists must be identical
                # (a feasibility query that times out in one worker only would shift them) - the parent compares these fingerprints
                # (ids carry per-kind counters, so an extra or missing obligation shows; term names differ between workers and are left out)
                import hashlib as _hl

                out["fingerprint"] = (wname, key, len(obs), _hl.sha1("\n".join(f"{ob.id}|{len(ob.hyps)}" for ob in obs).encode()).hexdigest())
            if chunk == 0:
                out["meta"] = {"function": key, "obligations": len(obs), "sha256": extract.load(c.module).sha256[:16], "gen_s": round(time.time() - t0, 2),
                               "trusted": sorted(ex.used_trusted), "inlined": sorted(ex.inlined), "assumed": sorted(ex.used_contracts)}
            # a function with many hard obligations is split over several workers: each regenerates the (deterministic)
            # obligation list and solves its share
            if wname != "main" and getattr(prop, "tag_worlds", False):
                for ob in obs:   # the same function verified under two worlds (two variants of a contract): keep the obligation names apart
                    ob.id = f"{wname}::{ob.id}"
            if nchunks == 0:
                # a function with many hard obligations: generated ONCE, here in the parent process, and solved by a pool of forked workers that see the list by index
                # (an earlier design let every worker regenerate the list and take a share by position; under load a feasibility query can time out in one worker
                # only, the lists then differ and shares no longer add up to the whole)
                global _POBS, _PW, _PT
                _POBS, _PW, _PT = obs, w, timeout
                procs = int(os.environ.get("PYVC_PROCS_INNER", "0")) or int(os.environ.get("PYVC_PROCS", "0")) or min(16, os.cpu_count() or 4)
                if len(obs) > 3 and procs > 1:
                    with mp.get_context("fork").Pool(procs) as pool:
                        solved = pool.map(_solve_shared, range(len(obs)), chunksize=1)
                else:
                    solved = [_solve_shared(i) for i in range(len(obs))]
                for i, r in solved:
                    ob = obs[i]
                    ob.verdict, ob.solver, ob.seconds, ob.model, ob.reason = r
                    out["records"].append(_classify(w, prop.id, ob, known, timeout))
                return out
            for ob in obs[chunk::nchunks]:
                r = _solve_with_retry(w, ob, timeout)
                ob.verdict, ob.solver, ob.seconds, ob.model, ob.reason = r
                out["records"].append(_classify(w, prop.id, ob, known, timeout))
        elif kind == "lemmas":
            for name, hyps, goal, inputs in prop.lemmas(w):
                ob = Obligation(name, "lemma", hyps, goal, where="lemma")
                ob.ghost_inputs, ob.group = inputs, name
                r = smt.solve_formula(w, ob.hyps, ob.goal, timeout)
                ob.verdict, ob.solver, ob.seconds, ob.model, ob.reason = r
                out["records"].append(_classify(w, prop.id, ob, known, timeout))
        elif kind == "canary":
            cc = dict(prop.canaries(w))[key]
            ex = Executor(w, prop.id)
            refuted, unknown = [], 0
            try:
                cobs = ex.verify(cc)
                # exit obligations first: that is where a false postcondition shows
                for ob in sorted(cobs, key=lambda o: 0 if o.kind in ("post", "exc") else 1):
                    v = smt.solve_formula(w, ob.hyps, ob.goal, timeout, want_model=False)[0]
                    if v == "sat":
                        refuted.append(ob.id)
                        break
                    if v != "unsat":
                        unknown += 1
            except Unsupported as e:
                out["undecided"].append(f"canary {key}: {e}")
                unknown += 1
            # the engine is unsound only if it PROVED the false contract; a solver time-out on a canary is merely undecided
            # what a canary guards against is an engine that DISCHARGES a false contract: it passes when at least one obligation
            # is not discharged (counter-model found, or no verdict)
            out["meta"] = {"canary": key, "refuted_by": refuted, "not_discharged_without_model": unknown if not refuted else 0, "ok": bool(refuted) or unknown > 0}
    except Exception as e:
        out["undecided"].append(f"{kind} {key}: engine error {type(e).__name__}: {e} | {traceback.format_exc()[-300:]}")
    out["wall"] = round(time.time() - t0, 2)
    return out


# ----------------------------------------------------------------------------------------------------------
def run_property(prop: Prop, tier: str, seed: int, new_world, timeout_quick=30.0, timeout_thorough=120.0, out=sys.stdout):
    t0 = time.time()
    timeout = timeout_quick if tier == "quick" else timeout_thorough
    status = {"undecided": [], "violations": [], "known": [], "crash": None}
    # assumed contracts of builtins vs. the CPython that runs the repository code (bounded differential test)
    axres = []
    try:
        p = subprocess.run([REPLAY_PY, os.path.join(VERIF, "pyvc", "axcheck.py")], capture_output=True, text=True, timeout=120)
        axres = [(l[5:], l.startswith("ok")) for l in p.stdout.splitlines() if l[:4] in ("ok  ", "FAIL")]
        if p.returncode != 0 or not axres or not all(okk for _, okk in axres):
            status["crash"] = "an assumed builtin contract disagrees with CPython: " + "; ".join(n for n, okk in axres if not okk) + p.stderr[-200:]
    except Exception as e:
        status["crash"] = f"axiom differential test could not run: {e}"
    w = new_world()
    prop.setup(w)
    worlds = {"main": w}
    for wn, fn in getattr(prop, "extra_worlds", {}).items():   # a property whose functions live under two incompatible abstractions of a shared callee
        w2 = new_world()
        fn(w2)
        worlds[wn] = w2
    WITNESS_ENV.clear()
    WITNESS_ENV.update(getattr(sys.modules.get(type(prop).__module__), "witness_env", lambda: {})())
    known = load_known()
    _G.update(w=w, worlds=worlds, prop=prop, known=known, timeout=timeout)
    heavy = getattr(prop, "heavy", {})
    units, big = [], []
    for t in list(prop.targets) + (list(getattr(prop, "targets_thorough", [])) if tier == "thorough" else []):   # targets_thorough: further pieces of a partitioned contract
        (big if heavy.get(t, 1) > 1 else units).append(("verify", t, 0, 0 if heavy.get(t, 1) > 1 else 1))
    units += [("lemmas", "all")] + [("canary", n) for n, _ in prop.canaries(w)]
    procs = int(os.environ.get("PYVC_PROCS", "0")) or min(16, os.cpu_count() or 4, max(1, len(units)))
    if procs > 1:
        with mp.get_context("fork").Pool(procs) as pool:
            results = pool.map(_unit, units, chunksize=1)
    else:
        results = [_unit(u) for u in units]
    big.sort(key=lambda u: -heavy.get(u[1], 1))
    # functions marked heavy: each gets a (non-daemonic) process of its own that generates the obligations ONCE and solves them with its own pool of forked workers
    if len(big) <= 1 or procs <= 1:
        results += [_unit(u) for u in big]
    else:
        total = (int(os.environ.get("PYVC_PROCS", "0")) or min(16, os.cpu_count() or 4)) * 3 // 2
        wsum = sum(heavy.get(u[1], 1) for u in big)
        ctx = mp.get_context("fork")
        running = []
        for u in big:
            rd, wr = ctx.Pipe(duplex=False)
            share = max(2, total * heavy.get(u[1], 1) // wsum)      # solver processes in proportion to the declared weight
            pr = ctx.Process(target=_unit_to_pipe, args=(u, wr, share))
            pr.daemon = False
            pr.start()
            wr.close()
            running.append((u, pr, rd))
        for u, pr, rd in running:
            try:
                results.append(rd.recv())
            except EOFError:
                results.append({"kind": "verify", "key": u[1], "records": [], "undecided": [f"{u[1]}: the worker process died"], "meta": {}})
            pr.join()

    fps = {}
    for r in results:
        fp = r.get("fingerprint")
        if fp:
            fps.setdefault(fp[:2], set()).add(fp[2:])
    for (wn_, key_), variants_ in fps.items():
        if len(variants_) > 1:
            status["undecided"].append(f"{wn_}::{key_}: the workers of this split function generated different obligation lists ({sorted(v[0] for v in variants_)} obligations): nothing about it is counted")
    records: list[ObRec] = []
    functions, canary_results = [], []
    trusted, inlined, assumed = set(), set(), set()
    for r in results:
        status["undecided"].extend(r["undecided"])
        records.extend(r["records"])
        if r["kind"] == "verify" and r["meta"]:
            m = r["meta"]
            functions.append({k: m[k] for k in ("function", "obligations", "sha256", "gen_s")})
            trusted |= set(m["trusted"])
            inlined |= set(m["inlined"])
            assumed |= set(m["assumed"])
        if r["kind"] == "canary" and r["meta"]:
            canary_results.append(r["meta"])
            if not r["meta"]["ok"]:
                status["crash"] = f"canary {r['meta']['canary']} was not refuted: the engine accepts a deliberately false contract"

    static = [{"id": name, "ok": bool(ok), "detail": detail} for name, ok, detail in prop.static_checks(w)]

    discharged = 0
    carved_ids: dict[str, dict] = {}
    kf = {f["id"]: f for f in known}
    for rec in records:
        if rec.status == "discharged":
            discharged += 1
        elif rec.status == "carved":
            discharged += 1
            for fid in rec.carved_by:
                carved_ids[fid] = kf[fid]
        elif rec.status == "violation":
            status["violations"].append(rec)
        else:
            status["undecided"].append(f"{rec.id}: solver {rec.solver}: {rec.reason[:120]}")
    for s in static:
        if not s["ok"]:
            fs = [f for f in known if f.get("status") == "known" and finding_matches(f, prop.id, s["id"])]
            if fs:
                s["known"] = fs[0]["id"]
                carved_ids[fs[0]["id"]] = fs[0]
            else:
                status["violations"].append(s)

    # known findings: replay the recorded witness; print KNOWN-FINDING only while it still fails
    seen_f = dict(carved_ids)
    for f in known:  # findings attached to a bounded stand-in (the stand-in itself excludes exactly the recorded inputs)
        if f.get("status") == "known" and f["property"] == prop.id and any(p.startswith("bounded/") for p in f["obligations"]):
            seen_f.setdefault(f["id"], f)
    for fid, f in seen_f.items():
        r = prop.witness_replay(f)
        if r is None or r.get("failed"):
            print(f"KNOWN-FINDING: property={prop.id} {f['what']}", file=out)
            status["known"].append({"id": fid, "what": f["what"], "witness_replay": r})
        elif fid in carved_ids:
            status["violations"].append({"id": f"{fid}/witness-no-longer-fails", "detail": "an obligation still fails in the recorded region but the recorded witness passes natively", "nonreplay": True})

    # violations: replay + report
    vio_lines = []
    replay_dir = os.path.join(VERIF, "replays", prop.id)
    os.makedirs(replay_dir, exist_ok=True)
    reported = set()
    for v in status["violations"]:
        if isinstance(v, dict):
            vid, grp = v["id"], v["id"]
            rp = {"obligation": vid, "kind": "static", "detail": v["detail"]}
            r = {"failed": not v.get("nonreplay")}
        else:
            vid, grp = v.id, v.group
            rp = {"obligation": vid, "kind": v.kind, "note": v.note, "solver": v.solver, "model": v.model, "formula": v.goal_txt, "hypotheses": v.hyps_txt}
            r = None
            if grp not in reported:
                try:
                    r = prop.replay(v)
                except Exception as e:  # replay trouble never hides the violation
                    r = {"failed": False, "outcome": f"replay harness error: {type(e).__name__}: {e}"}
        if grp in reported:
            continue
        reported.add(grp)
        rp["replay"] = r
        rp["repo_src"] = extract.REPO_SRC
        fn = os.path.join(replay_dir, hashlib.sha1(vid.encode()).hexdigest()[:12] + ".json")
        with open(fn, "w") as fh:
            json.dump(rp, fh, indent=1, default=str)
        suffix = "" if (r and r.get("failed")) else " no-failing-input-found"
        vio_lines.append(f"VIOLATION property={prop.id} replay={fn}{suffix}")
        print(f"  failed obligation: {vid}", file=out)

    bounded = []
    try:
        bounded = prop.bounded(tier)
    except Exception as e:
        status["undecided"].append(f"bounded stand-in crashed: {type(e).__name__}: {e}")
    for b in bounded:
        if b.get("failures"):
            fn = os.path.join(replay_dir, "bounded_" + hashlib.sha1(b["name"].encode()).hexdigest()[:8] + ".json")
            with open(fn, "w") as fh:
                json.dump(b, fh, indent=1, default=str)
            vio_lines.append(f"VIOLATION property={prop.id} replay={fn}")
            print(f"  failed bounded stand-in: {b['name']}", file=out)

    n_ob = len(records) + len(static)
    n_dis = discharged + sum(1 for s in static if s["ok"] or s.get("known"))
    by_backend = {}
    for rec in records:
        by_backend[rec.solver or "?"] = by_backend.get(rec.solver or "?", 0) + 1
    if static:
        by_backend["static"] = len(static)
    samples = [{"id": rec.id, "kind": rec.kind, "goal": rec.goal_txt[:300], "verdict": rec.verdict, "solver": rec.solver, "seconds": round(rec.seconds, 3)} for rec in records[:3] + records[-2:]]
    samples += static[:2]
    ev = {
        "property_id": prop.id, "tier": tier, "seed": seed, "level": prop.level,
        "coverage": {
            "obligations": n_ob, "discharged": n_dis,
            "checker_cmd": f"./check {prop.id} --tier {tier}",
            "trusted_base": sorted(trusted) + [f"inlined:{x}" for x in sorted(inlined)] + extract.DROPPED,
            "functions_under_contract": functions,
            "contracts_assumed_at_call_sites": sorted(assumed),
            "by_backend": by_backend,
            "solver_seconds": round(sum(rec.seconds for rec in records), 2),
            "canaries": canary_results,
            "axiom_differential_checks": {"run": len(axres), "passed": sum(1 for _, k in axres if k), "interpreter": REPLAY_PY},
            "static_obligations": len(static),
            "bounded": bounded,
            "known_findings": status["known"],
            "undecided": status["undecided"][:20],
            "samples": samples,
            "explanation": prop.title,
            "repo_src": extract.REPO_SRC,
        },
        "assumptions": list(prop.assumptions) + ["NOT DECIDED: " + x for x in prop.not_decided],
        "wall_s": round(time.time() - t0, 2),
        "violations": len(vio_lines),
    }
    evdir = os.environ.get("PYVC_EVIDENCE_DIR") or os.path.join(VERIF, "evidence")  # mutant self-tests write elsewhere
    os.makedirs(evdir, exist_ok=True)
    with open(os.path.join(evdir, f"{prop.id}.json"), "w") as fh:
        json.dump(ev, fh, indent=1, default=str)

    for line in vio_lines:
        print(line, file=out)
    if status["crash"]:
        print(f"CHECKER-ERROR property={prop.id} {status['crash']}", file=out)
        return 3
    if vio_lines:
        return 1
    if status["undecided"]:
        for u in status["undecided"][:20]:
            print(f"UNDECIDED property={prop.id} {u}", file=out)
        return 2
    print(f"OK property={prop.id} obligations={n_ob} discharged={n_dis} known_findings={len(status['known'])} wall={ev['wall_s']}s", file=out)
    return 0
