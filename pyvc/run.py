"""Generic property runner: contracts -> obligations -> solvers -> verdict, evidence, replay files.

Exit codes: 0 held (known findings carved out) / 1 violation / 2 undecided / 3 checker crash.
"""
from __future__ import annotations

import fnmatch
import hashlib
import json
import os
import subprocess
import sys
import time
import traceback

import z3

from . import extract, smt
from .core import Obligation, Unsupported
from .symexec import Executor

VERIF = os.path.dirname(os.path.dirname(os.path.abspath(__file__)))
REPLAY_PY = "/venv/bin/python"


class Prop:
    id = "C00"
    title = ""
    design_ref = ""
    level = "proof"
    targets: list[str] = []
    assumptions: list[str] = []
    not_decided: list[str] = []

    def setup(self, w):
        raise NotImplementedError

    def lemmas(self, w):
        return []

    def canaries(self, w):
        """[(name, contract-with-a-deliberately-false-clause)] -> each must yield a counter-model."""
        return []

    def static_checks(self, w):
        """[(name, ok: bool, detail)] syntactic obligations (back end 'static')."""
        return []

    def bounded(self, tier):
        """[dict(name, bound, evaluations, failures, detail)] stand-ins, never counted as proved."""
        return []

    def replay(self, ob: Obligation):
        """Turn a counter-model into a native run.  Return dict(failed: bool, input:..., outcome:...) or None."""
        return None

    def witness_replay(self, finding: dict):
        """Replay the recorded witness of a known finding natively: dict(failed, outcome)."""
        return None


def native(code: str, timeout=60, env_extra=None):
    """Run python code against the real tree (PYTHONPATH=<repo>/src); returns (rc, stdout, stderr)."""
    env = dict(os.environ)
    env["PYTHONPATH"] = extract.REPO_SRC
    env.pop("PYTHONHOME", None)
    if env_extra:
        env.update(env_extra)
    pre = "import sys, execnet\nassert execnet.__file__.startswith(%r), execnet.__file__\n" % extract.REPO_SRC
    try:
        p = subprocess.run([REPLAY_PY, "-c", pre + code], capture_output=True, text=True, timeout=timeout, env=env, cwd="/")
        return p.returncode, p.stdout, p.stderr
    except subprocess.TimeoutExpired as e:
        return 124, (e.stdout or b"").decode() if isinstance(e.stdout, bytes) else (e.stdout or ""), "timeout"


def load_known():
    path = os.path.join(VERIF, "known_findings.json")
    if not os.path.exists(path):
        return []
    with open(path) as f:
        return json.load(f)["findings"]


def finding_matches(f, prop_id, ob: Obligation):
    return f["property"] == prop_id and any(fnmatch.fnmatch(ob.id, pat) for pat in f["obligations"])


def witness_formula(f, ob: Obligation):
    """z3 Bool W over the obligation's named inputs: the recorded failing region (or None = whole obligation)."""
    expr = f.get("witness")
    if not expr or expr == "*":
        return None
    env = {"z3": z3, "And": z3.And, "Or": z3.Or, "Not": z3.Not, "Length": z3.Length}
    for name, sv in ob.inputs.items():
        try:
            env[name] = sv.t
        except Unsupported:
            pass
    env.update(getattr(ob, "ghost_inputs", {}))
    return eval(expr, env)


def run_property(prop: Prop, tier: str, seed: int, new_world, timeout_quick=30.0, timeout_thorough=120.0, out=sys.stdout):
    t0 = time.time()
    timeout = timeout_quick if tier == "quick" else timeout_thorough
    status = {"undecided": [], "violations": [], "known": [], "crash": None}
    # assumed contracts of builtins vs. the CPython that runs the repository code (bounded differential test)
    axres = []
    try:
        p = subprocess.run([REPLAY_PY, os.path.join(VERIF, "pyvc", "axcheck.py")], capture_output=True, text=True, timeout=120)
        axres = [(l[5:], l.startswith("ok")) for l in p.stdout.splitlines() if l[:4] in ("ok  ", "FAIL")]
        if p.returncode != 0 or not axres or not all(okk for _, okk in axres):
            status["crash"] = "an assumed builtin contract disagrees with CPython: " + "; ".join(n for n, okk in axres if not okk) + p.stderr[-200:]
    except Exception as e:
        status["crash"] = f"axiom differential test could not run: {e}"
    w = new_world()
    prop.setup(w)
    ex = Executor(w, prop.id)
    obligations: list[Obligation] = []
    functions = []
    for tgt in prop.targets:
        c = w.contracts[tgt]
        try:
            obs = ex.verify(c)
        except Unsupported as e:
            status["undecided"].append(f"{tgt}: {e}")
            continue
        if not obs:
            status["undecided"].append(f"{tgt}: contract generated no obligation (vacuous)")
        functions.append({"function": tgt, "obligations": len(obs), "sha256": extract.load(c.module).sha256[:16]})
        obligations.extend(obs)
    for name, hyps, goal, inputs in prop.lemmas(w):
        ob = Obligation(name, "lemma", hyps, goal, where="lemma")
        ob.ghost_inputs = inputs
        ob.group = name
        obligations.append(ob)
    smt.solve_all(w, obligations, timeout)

    # static obligations
    static = []
    for name, ok, detail in prop.static_checks(w):
        static.append({"id": name, "ok": bool(ok), "detail": detail})

    # canaries: an unsound engine would "prove" these
    canary_results = []
    for name, cc in prop.canaries(w):
        exc = Executor(w, prop.id)
        try:
            cobs = exc.verify(cc)
            smt.solve_all(w, cobs, timeout, procs=1 if len(cobs) < 4 else None)
            refuted = [o.id for o in cobs if o.verdict == "sat"]
        except Unsupported as e:
            refuted = []
            status["undecided"].append(f"canary {name}: {e}")
        canary_results.append({"canary": name, "refuted_by": refuted[:3], "ok": bool(refuted)})
        if not refuted:
            status["crash"] = f"canary {name} was not refuted: the engine accepts a deliberately false contract"

    # classify
    known = load_known()
    discharged = 0
    carved = []
    replay_dir = os.path.join(VERIF, "replays", prop.id)
    for ob in obligations:
        if ob.verdict == "unsat":
            discharged += 1
            continue
        if ob.verdict != "sat":
            status["undecided"].append(f"{ob.id}: solver {ob.solver}: {getattr(ob, 'reason', '')[:120]}")
            continue
        fs = [f for f in known if f.get("status") == "known" and finding_matches(f, prop.id, ob)]
        if not fs:
            status["violations"].append(ob)
            continue
        Ws = [witness_formula(f, ob) for f in fs]
        if any(W is None for W in Ws):
            carved.extend((ob, f) for f in fs)
            discharged += 1
            continue
        # prove the obligation outside the recorded witness regions: any other violation still fires
        v, solver, secs, model, reason = smt.solve_formula(w, ob.hyps + [z3.Not(W) for W in Ws], ob.goal, timeout)
        if v == "unsat":
            carved.extend((ob, f) for f in fs)
            discharged += 1
        elif v == "sat":
            ob.model = model
            ob.note = (ob.note + " | fails outside the known-finding region " + ",".join(f["id"] for f in fs)).strip(" |")
            status["violations"].append(ob)
        else:
            status["undecided"].append(f"{ob.id} (outside known region): {reason[:100]}")
    for s in static:
        if not s["ok"]:
            fs = [f for f in known if f.get("status") == "known" and f["property"] == prop.id and any(fnmatch.fnmatch(s["id"], p) for p in f["obligations"])]
            if fs:
                carved.append((s, fs[0]))
                s["known"] = fs[0]["id"]
            else:
                status["violations"].append(s)

    # known findings: replay the recorded witness; print KNOWN-FINDING only while it still fails
    seen_f = {}
    for ob, f in carved:
        seen_f.setdefault(f["id"], f)
    for fid, f in seen_f.items():
        r = prop.witness_replay(f)
        if r is None or r.get("failed"):
            print(f"KNOWN-FINDING: property={prop.id} {f['what']}", file=out)
            status["known"].append({"id": fid, "what": f["what"], "witness_replay": r})
        else:
            # the obligation fails only in the recorded region, but the recorded witness no longer fails natively
            class _O:  # noqa
                pass
            o = _O()
            o.id, o.note, o.model, o.kind = f"{fid}/witness-no-longer-fails", "obligation still fails in the recorded region but the recorded witness passes natively", None, "known-mismatch"
            o.formula_txt = ""
            status["violations"].append(o)

    # violations: replay + report
    vio_lines = []
    os.makedirs(replay_dir, exist_ok=True)
    reported = set()
    for v in status["violations"]:
        if isinstance(v, dict):
            vid, detail = v["id"], v["detail"]
            grp = vid
            rp = {"obligation": vid, "kind": "static", "detail": detail}
            r = None
        else:
            vid = v.id
            grp = getattr(v, "group", vid)
            rp = {"obligation": vid, "kind": v.kind, "note": getattr(v, "note", ""),
                  "solver": getattr(v, "solver", None), "model": getattr(v, "model", None)}
            if isinstance(v, Obligation):
                rp["formula"] = str(v.goal)[:2000]
                rp["hypotheses"] = [str(h)[:400] for h in v.hyps][:40]
            r = None
            try:
                r = prop.replay(v) if isinstance(v, Obligation) else None
            except Exception as e:  # replay trouble never hides the violation
                r = {"failed": False, "outcome": f"replay harness error: {type(e).__name__}: {e}"}
        if grp in reported:
            continue
        reported.add(grp)
        rp["replay"] = r
        rp["repo_src"] = extract.REPO_SRC
        fn = os.path.join(replay_dir, hashlib.sha1(vid.encode()).hexdigest()[:12] + ".json")
        with open(fn, "w") as fh:
            json.dump(rp, fh, indent=1, default=str)
        suffix = "" if (r and r.get("failed")) or isinstance(v, dict) else " no-failing-input-found"
        vio_lines.append(f"VIOLATION property={prop.id} replay={fn}{suffix}")
        print(f"  failed obligation: {vid}", file=out)

    bounded = []
    try:
        bounded = prop.bounded(tier)
    except Exception as e:
        status["undecided"].append(f"bounded stand-in crashed: {type(e).__name__}: {e}")
    # known findings attached to a bounded stand-in: the stand-in itself excludes exactly the recorded inputs
    # (see the property's bounded()); here the recorded witness is replayed and reported while it still fails
    for f in known:
        if f.get("status") == "known" and f["property"] == prop.id and any(p.startswith("bounded/") for p in f["obligations"]) and f["id"] not in seen_f:
            r = prop.witness_replay(f)
            if r is None or r.get("failed"):
                print(f"KNOWN-FINDING: property={prop.id} {f['what']}", file=out)
                status["known"].append({"id": f["id"], "what": f["what"], "witness_replay": r})
                seen_f[f["id"]] = f
    for b in bounded:
        if b.get("failures"):
            fn = os.path.join(replay_dir, "bounded_" + hashlib.sha1(b["name"].encode()).hexdigest()[:8] + ".json")
            with open(fn, "w") as fh:
                json.dump(b, fh, indent=1, default=str)
            vio_lines.append(f"VIOLATION property={prop.id} replay={fn}")
            print(f"  failed bounded stand-in: {b['name']}", file=out)

    n_ob = len(obligations) + len(static)
    n_dis = discharged + sum(1 for s in static if s["ok"] or s.get("known"))
    by_backend = {}
    for ob in obligations:
        by_backend[ob.solver or "?"] = by_backend.get(ob.solver or "?", 0) + 1
    if static:
        by_backend["static"] = len(static)
    samples = []
    for ob in obligations[:3] + obligations[-2:]:
        samples.append({"id": ob.id, "kind": ob.kind, "goal": str(ob.goal)[:300], "verdict": ob.verdict, "solver": ob.solver, "seconds": round(ob.seconds, 3)})
    for s in static[:2]:
        samples.append(s)
    ev = {
        "property_id": prop.id, "tier": tier, "seed": seed, "level": prop.level,
        "coverage": {
            "obligations": n_ob, "discharged": n_dis,
            "checker_cmd": f"./check {prop.id} --tier {tier}",
            "trusted_base": sorted(set(ex.used_trusted)) + [f"inlined:{x}" for x in sorted(ex.inlined)] + extract.DROPPED,
            "functions_under_contract": functions,
            "contracts_assumed_at_call_sites": sorted(ex.used_contracts),
            "by_backend": by_backend,
            "solver_seconds": round(sum(o.seconds for o in obligations), 2),
            "canaries": canary_results,
            "axiom_differential_checks": {"run": len(axres), "passed": sum(1 for _, k in axres if k), "interpreter": REPLAY_PY},
            "static_obligations": len(static),
            "bounded": bounded,
            "known_findings": status["known"],
            "undecided": status["undecided"][:20],
            "samples": samples,
            "explanation": prop.title,
            "repo_src": extract.REPO_SRC,
        },
        "assumptions": list(prop.assumptions) + ["NOT DECIDED: " + x for x in prop.not_decided],
        "wall_s": round(time.time() - t0, 2),
        "violations": len(vio_lines),
    }
    os.makedirs(os.path.join(VERIF, "evidence"), exist_ok=True)
    with open(os.path.join(VERIF, "evidence", f"{prop.id}.json"), "w") as fh:
        json.dump(ev, fh, indent=1, default=str)

    for line in vio_lines:
        print(line, file=out)
    if status["crash"]:
        print(f"CHECKER-ERROR property={prop.id} {status['crash']}", file=out)
        return 3
    if vio_lines:
        return 1
    if status["undecided"]:
        for u in status["undecided"][:20]:
            print(f"UNDECIDED property={prop.id} {u}", file=out)
        return 2
    print(f"OK property={prop.id} obligations={n_ob} discharged={n_dis} known_findings={len(status['known'])} wall={ev['wall_s']}s", file=out)
    return 0
