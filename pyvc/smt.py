"""Back ends: z3 (API) first, /usr/bin/cvc5 --strings-exp for what z3 leaves open.

unsat  -> obligation discharged
sat    -> counter-model (a violation candidate; replayed natively by the property driver)
unknown/timeout -> UNDECIDED, never a violation
"""
from __future__ import annotations

import multiprocessing as mp
import os
import re
import subprocess
import tempfile
import time

import z3

CVC5 = "/usr/bin/cvc5"


# --------------------------------------------------------------------------
# axiom instantiation by term collection (no quantifiers reach the solver)
# --------------------------------------------------------------------------
def collect_apps(formulas, names):
    """All applications f(args) in the formulas whose decl name is in `names`."""
    out = {n: [] for n in names}
    seen = set()
    todo = list(formulas)
    while todo:
        t = todo.pop()
        if not z3.is_expr(t):
            continue
        i = t.get_id()
        if i in seen:
            continue
        seen.add(i)
        if z3.is_app(t):
            if t.num_args() > 0 or True:
                n = t.decl().name()
                if n in out and t.decl().kind() == z3.Z3_OP_UNINTERPRETED and t.num_args() > 0:
                    out[n].append(t)
            todo.extend(t.children())
        elif z3.is_quantifier(t):
            todo.append(t.body())
    return out


def instantiate_axioms(world, formulas, rounds=3):
    axioms = []
    seen_ids = set()
    cur = list(formulas)
    names = set()
    for p in world.axiom_providers:
        names |= set(p.names)
    if not names:
        return []
    done_terms = set()
    for _ in range(rounds):
        apps = collect_apps(cur + axioms, names)
        new = []
        for p in world.axiom_providers:
            for n in p.names:
                for t in apps.get(n, []):
                    key = (p.__name__ if hasattr(p, "__name__") else id(p), t.get_id())
                    if key in done_terms:
                        continue
                    done_terms.add(key)
                    for ax in p(t):
                        if ax.get_id() not in seen_ids:
                            seen_ids.add(ax.get_id())
                            new.append(ax)
        if not new:
            break
        axioms.extend(new)
    return axioms


def uses_sequences(formula) -> bool:
    seen = set()
    todo = [formula]
    while todo:
        t = todo.pop()
        i = t.get_id()
        if i in seen:
            continue
        seen.add(i)
        try:
            if z3.is_seq(t) or z3.is_string(t):
                return True
        except Exception:
            pass
        todo.extend(t.children())
    return False


# --------------------------------------------------------------------------
_WORLD = None
_OBS = None


def _model_dict(m: z3.ModelRef):
    d = {}
    for decl in m.decls():
        if decl.arity() == 0:
            try:
                d[decl.name()] = m[decl].sexpr() if not z3.is_string_value(m[decl]) else ("S:" + m[decl].as_string())
            except Exception:
                d[decl.name()] = str(m[decl])
    return d


def solve_formula(world, hyps, goal, timeout_s=30.0, want_model=True, use_cvc5=True):
    """Returns (verdict, solver, seconds, model_dict|None, reason).

    Portfolio, sequentially inside one worker (the pool provides the parallelism):
      1. z3 on the raw query, short budget (most obligations: milliseconds);
      2. satisfiability-preserving preprocessing (simplify, propagate-values, solve-eqs), then
         cvc5 --strings-exp (decides the sequence obligations z3 leaves open), then z3 again.
    """
    t0 = time.time()
    base = list(hyps) + [z3.Not(goal)]
    ax = instantiate_axioms(world, base)
    s = z3.Solver()
    s.set("timeout", int(min(3.0, timeout_s) * 1000))
    s.add(*base)
    s.add(*ax)
    r = s.check()
    if r == z3.unsat:
        return "unsat", "z3", time.time() - t0, None, ""
    if r == z3.sat:
        return "sat", "z3", time.time() - t0, (_model_dict(s.model()) if want_model else None), ""
    reason = "z3: " + s.reason_unknown()
    try:
        g = z3.Goal()
        g.add(*base)
        g.add(*ax)
        simp = z3.Then("simplify", "propagate-values", "solve-eqs", "simplify")(g)
        s2 = z3.Solver()
        s2.add(simp[0].as_expr())
    except z3.Z3Exception as e:
        s2 = s
        reason += f" | preprocessing failed: {e}"
    if use_cvc5:
        v, out = run_cvc5(s2.to_smt2(), timeout_s)
        if v == "unsat":
            return v, "cvc5", time.time() - t0, None, ""
        if v == "sat":
            # cvc5 and z3 must not disagree; confirm and fetch a model with z3 on the raw query if it can
            s.set("timeout", int(timeout_s * 1000))
            r2 = s.check()
            if r2 == z3.unsat:
                return "unknown", "z3/cvc5-disagree", time.time() - t0, None, "solver disagreement (cvc5 sat, z3 unsat)"
            return "sat", "cvc5", time.time() - t0, (_model_dict(s.model()) if r2 == z3.sat and want_model else {"$cvc5": out[:2000]}), ""
        reason += f" | cvc5: {out[:160]}"
    s2.set("timeout", int(timeout_s * 1000))
    r = s2.check()
    if r == z3.unsat:
        return "unsat", "z3+solve-eqs", time.time() - t0, None, ""
    if r == z3.sat:
        s.set("timeout", int(timeout_s * 1000))
        r2 = s.check()
        return "sat", "z3+solve-eqs", time.time() - t0, (_model_dict(s.model()) if r2 == z3.sat and want_model else None), ""
    return "unknown", "z3+cvc5", time.time() - t0, None, reason + " | z3(solve-eqs): " + s2.reason_unknown()


def run_cvc5(smt2: str, timeout_s: float, produce_model=False):
    txt = smt2
    txt = re.sub(r"\(set-info :status [a-z]+\)", "", txt)
    head = "(set-logic ALL)\n"
    if produce_model:
        head = "(set-option :produce-models true)\n" + head
        txt = txt.replace("(check-sat)", "(check-sat)\n(get-model)")
    with tempfile.NamedTemporaryFile("w", suffix=".smt2", delete=False) as f:
        f.write(head + txt)
        path = f.name
    try:
        p = subprocess.run([CVC5, "--strings-exp", f"--tlimit={int(timeout_s * 1000)}", path], capture_output=True, text=True, timeout=timeout_s + 5)
        out = (p.stdout + p.stderr).strip()
    except subprocess.TimeoutExpired:
        out = "timeout"
    finally:
        os.unlink(path)
    first = out.splitlines()[0].strip() if out else ""
    if first in ("sat", "unsat"):
        return first, out
    return "unknown", out


def _solve_index(i_timeout):
    i, timeout_s = i_timeout
    ob = _OBS[i]
    try:
        return (i,) + solve_formula(_WORLD, ob.hyps, ob.goal, timeout_s)
    except Exception as e:  # solver crash: undecided, not a verdict
        return (i, "unknown", "error", 0.0, None, f"{type(e).__name__}: {e}")


def solve_all(world, obligations, timeout_s=10.0, procs=None):
    """Solve every obligation; fills verdict/solver/seconds/model on each."""
    global _WORLD, _OBS
    _WORLD, _OBS = world, obligations
    procs = procs or min(16, os.cpu_count() or 4)
    results = []
    if len(obligations) <= 3 or procs == 1:
        results = [_solve_index((i, timeout_s)) for i in range(len(obligations))]
    else:
        ctx = mp.get_context("fork")
        with ctx.Pool(procs) as pool:
            results = pool.map(_solve_index, [(i, timeout_s) for i in range(len(obligations))], chunksize=1)
    for i, verdict, solver, secs, model, reason in results:
        ob = obligations[i]
        ob.verdict, ob.solver, ob.seconds, ob.model, ob.reason = verdict, solver, secs, model, reason
    return obligations


# --------------------------------------------------------------------------
# decoding model values
# --------------------------------------------------------------------------
def decode_z3_string(s: str) -> str:
    """z3 as_string() escapes -> python str."""
    def rep(m):
        return chr(int(m.group(1), 16))

    s = re.sub(r"\\u\{([0-9a-fA-F]+)\}", rep, s)
    s = re.sub(r"\\x([0-9a-fA-F]{2})", rep, s)
    return s


def model_value(model: dict, term):
    """Concrete python value (int/bool/str) of a 0-ary const term in a model dict, or None."""
    if model is None:
        return None
    name = term.decl().name() if z3.is_app(term) and term.num_args() == 0 else None
    if name is None or name not in model:
        return None
    v = model[name]
    if v.startswith("S:"):
        return decode_z3_string(v[2:])
    if v in ("true", "false"):
        return v == "true"
    m = re.fullmatch(r"\(- (\d+)\)", v)
    if m:
        return -int(m.group(1))
    if re.fullmatch(r"-?\d+", v):
        return int(v)
    return v
