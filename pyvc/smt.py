"""Back ends: z3 (API) first, /usr/bin/cvc5 --strings-exp for what z3 leaves open.

unsat  -> obligation discharged
sat    -> counter-model (a violation candidate; replayed natively by the property driver)
unknown/timeout -> UNDECIDED, never a violation
"""
from __future__ import annotations

import multiprocessing as mp
import os
import re
import subprocess
import tempfile
import time

import z3

CVC5 = "/usr/bin/cvc5"


# --------------------------------------------------------------------------
# axiom instantiation by term collection (no quantifiers reach the solver)
# --------------------------------------------------------------------------
_APPS_MEMO: dict = {}


def collect_apps(formulas, names):
    """All applications f(args) in the formulas whose decl name is in `names` (memoised per top-level formula: path conditions are re-scanned at every fork)."""
    key_names = tuple(sorted(names))
    out = {n: [] for n in names}
    seen_terms = set()
    for f in formulas:
        if not z3.is_expr(f):
            continue
        k = (f.get_id(), key_names)
        got = _APPS_MEMO.get(k)
        if got is None:
            got = (f, _collect_apps1([f], names))     # the formula is kept alive with its entry: ast ids are only unique among live terms
            if len(_APPS_MEMO) > 200000:
                _APPS_MEMO.clear()
            _APPS_MEMO[k] = got
        for n, ts in got[1].items():
            for t in ts:
                i = t.get_id()
                if i not in seen_terms:
                    seen_terms.add(i)
                    out[n].append(t)
    return out


def _collect_apps1(formulas, names):
    out = {n: [] for n in names}
    seen = set()
    todo = list(formulas)
    while todo:
        t = todo.pop()
        if not z3.is_expr(t):
            continue
        i = t.get_id()
        if i in seen:
            continue
        seen.add(i)
        if z3.is_app(t):
            if t.num_args() > 0 or True:
                n = t.decl().name()
                if n in out and (t.num_args() > 0 or t.decl().kind() == z3.Z3_OP_UNINTERPRETED and n.isupper()):
                    out[n].append(t)   # applications, and named constants written in capitals (MSG_NONE)
            todo.extend(t.children())
        # quantifier bodies are not searched: their terms contain bound variables
    return out


def instantiate_axioms(world, formulas, rounds=3):
    axioms = []
    seen_ids = set()
    cur = list(formulas)
    names = set()
    for p in world.axiom_providers:
        names |= set(p.names)
    if not names:
        return []
    done_terms = set()
    for _ in range(rounds):
        apps = collect_apps(cur + axioms, names)
        new = []
        for p in world.axiom_providers:
            for n in p.names:
                for t in apps.get(n, []):
                    key = (p.__name__ if hasattr(p, "__name__") else id(p), t.get_id())
                    if key in done_terms:
                        continue
                    done_terms.add(key)
                    for ax in p(t):
                        if ax.get_id() not in seen_ids:
                            seen_ids.add(ax.get_id())
                            new.append(ax)
        if not new:
            break
        axioms.extend(new)
    return axioms


# --------------------------------------------------------------------------
# explicit E-matching for user quantifiers (hypothesis side only)
# --------------------------------------------------------------------------
def _ground_apps(formulas):
    """All ground application terms outside quantifier bodies, keyed by (decl kind, decl name)."""
    out = {}
    seen = set()
    todo = list(formulas)
    while todo:
        t = todo.pop()
        if not z3.is_expr(t) or z3.is_quantifier(t) or z3.is_var(t):
            continue
        i = t.get_id()
        if i in seen:
            continue
        seen.add(i)
        if z3.is_app(t) and t.num_args() > 0:
            out.setdefault((t.decl().kind(), t.decl().name()), []).append(t)
            todo.extend(t.children())
    return out


def _match(pat, ground, binding):
    """Match a pattern term (with de Bruijn vars) against a ground term; extends binding {var index: term}."""
    if z3.is_var(pat):
        idx = z3.get_var_index(pat)
        if idx in binding:
            return binding if binding[idx].eq(ground) else None
        if pat.sort() != ground.sort():
            return None
        b = dict(binding)
        b[idx] = ground
        return b
    if not z3.is_app(pat) or not z3.is_app(ground):
        return None
    if pat.num_args() == 0:
        return binding if pat.eq(ground) else None
    if pat.decl().kind() != ground.decl().kind() or pat.decl().name() != ground.decl().name() or pat.num_args() != ground.num_args():
        return None
    for pa, ga in zip(pat.children(), ground.children()):
        binding = _match(pa, ga, binding)
        if binding is None:
            return None
    return binding


def _instances(q, apps, limit=64):
    n = q.num_vars()
    if q.num_patterns() == 0:
        return None
    results = []
    for pi in range(q.num_patterns()):
        pats = q.pattern(pi).children()
        bindings = [{}]
        for p in pats:
            cands = apps.get((p.decl().kind(), p.decl().name()), []) if z3.is_app(p) else []
            nb = []
            for b in bindings:
                for g in cands:
                    b2 = _match(p, g, b)
                    if b2 is not None:
                        nb.append(b2)
            bindings = nb
            if len(bindings) > 4 * limit:
                bindings = bindings[: 4 * limit]
        seen = set()
        for b in bindings:
            if len(b) != n:
                continue
            key = tuple(b[i].get_id() for i in range(n))
            if key in seen:
                continue
            seen.add(key)
            results.append(z3.substitute_vars(q.body(), *[b[i] for i in range(n)]))
            if len(results) >= limit:
                break
    return results


def _inst_pos(t, apps, pos=True):
    """Replace ForAll in positive positions (hypothesis strength) by the conjunction of its pattern instances."""
    if z3.is_quantifier(t):
        if t.is_forall() and pos:
            inst = _instances(t, apps)
            if inst is None:
                return t
            return z3.And(*inst) if inst else z3.BoolVal(True)
        return t
    if not z3.is_app(t) or t.num_args() == 0 or not z3.is_bool(t):
        return t
    k = t.decl().kind()
    ch = t.children()
    if k == z3.Z3_OP_AND:
        return z3.And(*[_inst_pos(c, apps, pos) for c in ch])
    if k == z3.Z3_OP_OR:
        return z3.Or(*[_inst_pos(c, apps, pos) for c in ch])
    if k == z3.Z3_OP_NOT:
        return z3.Not(_inst_pos(ch[0], apps, not pos))
    if k == z3.Z3_OP_IMPLIES:
        return z3.Implies(_inst_pos(ch[0], apps, not pos), _inst_pos(ch[1], apps, pos))
    if k == z3.Z3_OP_ITE and len(ch) == 3 and z3.is_bool(ch[1]):
        return z3.If(ch[0], _inst_pos(ch[1], apps, pos), _inst_pos(ch[2], apps, pos))
    return t


def has_quantifier(formulas):
    seen = set()
    todo = list(formulas)
    while todo:
        t = todo.pop()
        if z3.is_quantifier(t):
            return True
        if not z3.is_expr(t):
            continue
        i = t.get_id()
        if i in seen:
            continue
        seen.add(i)
        todo.extend(t.children())
    return False


def ematch(base, rounds=2):
    """base: list of formulas (hypotheses and the negated goal).  Quantified hypotheses are replaced by their
    instances on the ground terms present (weaker hypotheses: a proof found this way is a proof)."""
    cur = list(base)
    for _ in range(rounds):
        apps = _ground_apps(cur)
        nxt = [_inst_pos(f, apps, True) for f in base]
        if all(a.eq(b) for a, b in zip(nxt, cur)):
            break
        cur = nxt
    return cur


def uses_sequences(formula) -> bool:
    seen = set()
    todo = [formula]
    while todo:
        t = todo.pop()
        i = t.get_id()
        if i in seen:
            continue
        seen.add(i)
        try:
            if z3.is_seq(t) or z3.is_string(t):
                return True
        except Exception:
            pass
        todo.extend(t.children())
    return False


# --------------------------------------------------------------------------
_WORLD = None
_OBS = None


def _model_dict(m: z3.ModelRef):
    d = {}
    for decl in m.decls():
        if decl.arity() == 0:
            try:
                d[decl.name()] = m[decl].sexpr() if not z3.is_string_value(m[decl]) else ("S:" + m[decl].as_string())
            except Exception:
                d[decl.name()] = str(m[decl])
    return d


def solve_formula(world, hyps, goal, timeout_s=30.0, want_model=True, use_cvc5=True, _ematched=False):
    """Returns (verdict, solver, seconds, model_dict|None, reason).

    Portfolio, sequentially inside one worker (the pool provides the parallelism):
      1. z3 on the raw query, short budget (most obligations: milliseconds);
      2. satisfiability-preserving preprocessing (simplify, propagate-values, solve-eqs), then
         cvc5 --strings-exp (decides the sequence obligations z3 leaves open), then z3 again.
    """
    t0 = time.time()
    base = list(hyps) + [z3.Not(goal)]
    if has_quantifier(hyps) and not _ematched:     # (a hypothesis with a nested/negated quantifier survives ematch: do not recurse again)
        # first try with the quantified hypotheses replaced by their pattern instances (quantifier-free for the
        # solver); only an `unsat` is taken from this weakened query
        weak = ematch(base)
        v, solver, secs, _, reason0 = solve_formula(world, weak[:-1], z3.Not(weak[-1]), timeout_s, False, use_cvc5, True)
        if v == "unsat":
            return "unsat", solver + "+ematch", time.time() - t0, None, ""
    ax = instantiate_axioms(world, base)
    s = z3.Solver()
    s.set("timeout", int(min(3.0, timeout_s) * 1000))
    s.add(*base)
    s.add(*ax)
    r = s.check()
    if r == z3.unsat:
        return "unsat", "z3", time.time() - t0, None, ""
    if r == z3.sat:
        return "sat", "z3", time.time() - t0, (_model_dict(s.model()) if want_model else None), ""
    reason = "z3: " + s.reason_unknown()
    try:
        g = z3.Goal()
        g.add(*base)
        g.add(*ax)
        simp = z3.Then("simplify", "propagate-values", "solve-eqs", "simplify")(g)
        s2 = z3.Solver()
        s2.add(simp[0].as_expr())
    except z3.Z3Exception as e:
        s2 = s
        reason += f" | preprocessing failed: {e}"
    if use_cvc5:
        v, out = run_cvc5(s2.to_smt2(), timeout_s)
        if v == "unsat":
            return v, "cvc5", time.time() - t0, None, ""
        if v == "sat":
            # cvc5 and z3 must not disagree; confirm and fetch a model with z3 on the raw query if it can
            s.set("timeout", int(timeout_s * 1000))
            r2 = s.check()
            if r2 == z3.unsat:
                return "unknown", "z3/cvc5-disagree", time.time() - t0, None, "solver disagreement (cvc5 sat, z3 unsat)"
            return "sat", "cvc5", time.time() - t0, (_model_dict(s.model()) if r2 == z3.sat and want_model else {"$cvc5": out[:2000]}), ""
        reason += f" | cvc5: {out[:160]}"
    s2.set("timeout", int(timeout_s * 1000))
    r = s2.check()
    if r == z3.unsat:
        return "unsat", "z3+solve-eqs", time.time() - t0, None, ""
    if r == z3.sat:
        s.set("timeout", int(timeout_s * 1000))
        r2 = s.check()
        return "sat", "z3+solve-eqs", time.time() - t0, (_model_dict(s.model()) if r2 == z3.sat and want_model else None), ""
    return "unknown", "z3+cvc5", time.time() - t0, None, reason + " | z3(solve-eqs): " + s2.reason_unknown()


def run_cvc5(smt2: str, timeout_s: float, produce_model=False):
    txt = smt2
    txt = re.sub(r"\(set-info :status [a-z]+\)", "", txt)
    # z3-internal names for in-range / out-of-range element access; cvc5's seq.nth is total and unspecified out of range
    txt = txt.replace("seq.nth_i", "seq.nth").replace("seq.nth_u", "seq.nth")
    head = "(set-logic ALL)\n"
    if produce_model:
        head = "(set-option :produce-models true)\n" + head
        txt = txt.replace("(check-sat)", "(check-sat)\n(get-model)")
    with tempfile.NamedTemporaryFile("w", suffix=".smt2", delete=False) as f:
        f.write(head + txt)
        path = f.name
    try:
        p = subprocess.run([CVC5, "--strings-exp", f"--tlimit={int(timeout_s * 1000)}", path], capture_output=True, text=True, timeout=timeout_s + 5)
        out = (p.stdout + p.stderr).strip()
    except subprocess.TimeoutExpired:
        out = "timeout"
    finally:
        os.unlink(path)
    first = out.splitlines()[0].strip() if out else ""
    if first in ("sat", "unsat"):
        return first, out
    return "unknown", out


def _solve_index(i_timeout):
    i, timeout_s = i_timeout
    ob = _OBS[i]
    try:
        return (i,) + solve_formula(_WORLD, ob.hyps, ob.goal, timeout_s)
    except Exception as e:  # solver crash: undecided, not a verdict
        return (i, "unknown", "error", 0.0, None, f"{type(e).__name__}: {e}")


def solve_all(world, obligations, timeout_s=10.0, procs=None):
    """Solve every obligation; fills verdict/solver/seconds/model on each."""
    global _WORLD, _OBS
    _WORLD, _OBS = world, obligations
    procs = procs or min(16, os.cpu_count() or 4)
    results = []
    if len(obligations) <= 3 or procs == 1:
        results = [_solve_index((i, timeout_s)) for i in range(len(obligations))]
    else:
        ctx = mp.get_context("fork")
        with ctx.Pool(procs) as pool:
            results = pool.map(_solve_index, [(i, timeout_s) for i in range(len(obligations))], chunksize=1)
    for i, verdict, solver, secs, model, reason in results:
        ob = obligations[i]
        ob.verdict, ob.solver, ob.seconds, ob.model, ob.reason = verdict, solver, secs, model, reason
    return obligations


# --------------------------------------------------------------------------
# decoding model values
# --------------------------------------------------------------------------
def decode_z3_string(s: str) -> str:
    """z3 as_string() escapes -> python str."""
    def rep(m):
        return chr(int(m.group(1), 16))

    s = re.sub(r"\\u\{([0-9a-fA-F]+)\}", rep, s)
    s = re.sub(r"\\x([0-9a-fA-F]{2})", rep, s)
    return s


def model_value(model: dict, term):
    """Concrete python value (int/bool/str) of a 0-ary const term in a model dict, or None."""
    if model is None:
        return None
    name = term.decl().name() if z3.is_app(term) and term.num_args() == 0 else None
    if name is None or name not in model:
        return None
    v = model[name]
    if v.startswith("S:"):
        return decode_z3_string(v[2:])
    if v in ("true", "false"):
        return v == "true"
    m = re.fullmatch(r"\(- (\d+)\)", v)
    if m:
        return -int(m.group(1))
    if re.fullmatch(r"-?\d+", v):
        return int(v)
    return v
